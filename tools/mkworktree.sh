#!/bin/sh
# usage: mkworktree.sh <dir>   -- scratch git worktree of /repo, configured and built in-tree
set -e
D="$1"
[ -n "$D" ] || { echo "usage: $0 <dir>"; exit 2; }
git -C /repo worktree add --detach "$D" HEAD >/dev/null 2>&1
# copy the generated (git-ignored) autotools inputs, not the build output
rsync -a --ignore-existing \
  --exclude '.git' --exclude '*.o' --exclude '*.lo' --exclude '*.la' --exclude '.libs' \
  --exclude '.deps' --exclude 'autom4te.cache' --exclude 'doc/html' --exclude 'doc/man' \
  --exclude 'config.status' --exclude 'config.log' --exclude 'Makefile' --exclude 'libtool' \
  --exclude '*.log' --exclude '*.trs' --exclude 'tests/t_*[!c]' --exclude 'tests/p_*[!c]' \
  --exclude 'stamp-h1' --exclude 'config.h' --exclude 'include/safe_config.h' \
  --exclude 'include/safe_types.h' --exclude 'include/safe_lib_errno.h' \
  /repo/ "$D"/
cd "$D"
# keep make from re-running autotools: generated files newer than their inputs
touch aclocal.m4; sleep 1; touch configure config.h.in; sleep 1; find . -name Makefile.in -exec touch {} +
./configure >/dev/null 2>&1
make -j16 >/dev/null 2>&1
echo "worktree ready: $D"
