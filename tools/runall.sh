#!/bin/sh
# run every claimed check of a tier in sequence; one summary line each (development aid)
T=${1:-quick}; shift
cd /verif
for c in ${*:-$(python3 -c "import json; print(' '.join(x['property_id'] for x in json.load(open('MANIFEST.json'))['checks']))")}; do
  s=$(date +%s); out=$(python3 bin/check $c --tier $T 2>&1); rc=$?
  echo "$c exit=$rc known=$(echo "$out" | grep -c '^KNOWN-FINDING') viol=$(echo "$out" | grep -c '^VIOLATION') internal=$(echo "$out" | grep -c 'INTERNAL') $(( $(date +%s) - s ))s"
  [ $rc -ne 0 ] && echo "$out" | grep '^VIOLATION\|INTERNAL\|Error\|error' | head -5 | cut -c1-300
done
