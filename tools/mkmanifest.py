#!/usr/bin/env python3
"""Regenerates MANIFEST.json from the table below (hand-maintained)."""
import json, os
ROOT = os.path.dirname(os.path.dirname(os.path.abspath(__file__)))
CHECKS = {
 "C01": ("exploration", "Bounded exhaustive enumeration of the argument-size lattice of every catalogued entry point against faulting guard pages (write trap), canaries between dmax and the object end and read-only sources, both slack configurations and both locales; plus the whole printf directive grammar x value tables x dmax below/at/above the needed size through the eight narrow printf entry points with a canary behind dmax; decides the property for every case of the lattice, nothing outside it. The three steps of wcsnorm_s are called as entry points of their own; gets_s is run on NUL-leading lines with a newline in front of dest (canary before dest); the violation lattice includes a known object larger than the declared dmax. Blank strings with blanks in the memory in front of dest, whose contents are checked after the call.", "guard-page arena + exhaustive lattice enumeration", "2.2-2.4, C01"),
 "C02": ("exploration", "Same lattice with PROT_NONE guards flush against every declared readable extent plus explicit-content operands over a small alphabet; every out-of-extent read of the real code faults and is attributed; format strings are operands too: every format up to the length bound over the directive alphabets is handed to the 28 printf/scanf entry points flush against an unmapped page, after its terminator and before its first element.", "guard-page arena + exhaustive lattice enumeration", "C02"),
 "C03": ("exploration", "Every string-producing entry point on a dest with no NUL anywhere, over the full lattice and the violation lattice; termination checked after every return.", "exhaustive lattice enumeration, termination oracle", "C03"),
 "C04": ("exploration", "Every reported failure of every dest-writing entry point over the lattice is checked for an empty dest, no residue of written data, full clearing for the named classes, intact source.", "exhaustive lattice enumeration, clearing oracle", "C04"),
 "C05": ("exploration", "All combinations of generic constraint violations x size lattice with different counting handlers for the str and mem families registered through the public API (they clobber errno, as a logging handler would): the report goes to the function's own family, at most one invocation, code equals return, failure iff invocation, valid calls silent, oversized sizes rejected before any touch of PROT_NONE operands. A client application built from the public headers only (the object size comes from the compiler) is compiled for gcc and clang x optimisation level x _FORTIFY_SOURCE unset/2/3 and must show the same expected outcome for valid calls, null source, zero dmax and dmax above the array, for array, heap and pointer-parameter destinations. The lattice includes counts whose byte size wraps, huge element counts and a dmax above the limit on an object of known size; the printf directive grid is run as a reporting sweep. A second client is generated from the public headers themselves: each of the 107 function-like macros it has argument values for is called with counting arguments (every argument evaluated exactly once, with and without the object sizes known to the compiler) and, for the string functions, with compile-time constant operands whose outcome must equal a call of the exported function with the same operands. A destination of known size zero and a source of known size smaller than slen are part of the lattice; the reporting sweep includes a null %s argument and streams whose error indicator is already set.", "exhaustive violation-lattice enumeration with counting handler", "C05"),
 "C06": ("exploration", "Destination-writing entry points on all valid operands of the lattice compared element-wise with a small reference model of the standard counterpart; failure demanded where the complete result does not fit; the memmove family additionally over every shift in +-136 bytes x length x alignment against a copy through a temporary. strerror_s/strerrorlen_s are checked for every errno of this libc and every library code, with dmax around the announced length; memccpy_s must store nothing of the source behind the stop character (stop characters outside unsigned char included).", "exhaustive enumeration vs reference model", "C06"),
 "C08": ("exploration", "Slack-nulling entry points x result length x dmax (incl. the 0x20 switch) on a dirty dest in both slack configurations. The string-writing macros of the public headers are compared with the exported functions for constant operands (borrowed from the C05 header client). Sources of known size that hold the remains of an older, longer string behind their terminator are part of the lattice.", "exhaustive enumeration, slack oracle", "C08"),
 "C10": ("exploration", "Query entry points on all operand strings over a small alphabet up to the bound, dmax/slen below/at/above, against reference models of the standard functions on the first dmax elements. The alphabet includes '_' (between the upper- and lower-case letters), operands whose object size is known to the library, and wide folding comparisons over characters whose case folding triples. Element values around the sign bit for the memory comparisons. wcsncmp_s has a reference and an enumerated count; haystacks of 200..300 characters with the needle cut by slen; the query macros of the public headers are compared with the exported functions for literal operands with dmax = strlen and strlen + 1 (borrowed from the C05 header client).", "exhaustive small-alphabet enumeration vs reference model", "C10"),
}
NA = {}
props = [json.loads(l) for l in open(os.path.join(ROOT, "properties.jsonl"))]
extra = {}
if os.path.exists(os.path.join(ROOT, "tools", "manifest_extra.json")):
    extra = json.load(open(os.path.join(ROOT, "tools", "manifest_extra.json")))
CHECKS.update({k: tuple(v) for k, v in extra.get("checks", {}).items()})
NA.update(extra.get("na", {}))
checks = []
na = []
for p in props:
    pid = p["id"]
    if pid in CHECKS:
        cat, text, tech, ref = CHECKS[pid]
        checks.append({
            "property_id": pid, "quick_cmd": f"python3 bin/check {pid} --tier quick",
            "thorough_cmd": f"python3 bin/check {pid} --tier thorough",
            "evidence_file": f"/verif/evidence/{pid}.json",
            "replay_cmd_template": "python3 bin/check replay {path}",
            "engine": "cat" if pid in ("C01","C02","C03","C04","C05","C06","C08","C10") else pid.lower(),
            "level_claimed": {"category": cat, "text": text, "design_ref": "DESIGN.md section " + ref},
            "level_note": "Trusted: kernel page protection and signal delivery, the hand-transcribed catalogue rows and reference models (DESIGN 2.3, App. A), gcc/glibc of this image. Exhaustive only within the stated lattice/bounds; known genuine defects are listed in known_findings.jsonl.",
            "technique": tech,
        })
    else:
        na.append({"property_id": pid, "reason": NA.get(pid, "check not built yet in this session (planned in DESIGN.md; model-checking applies)")})
m = {
 "version": 1,
 "setup_cmd": "python3 bin/setup",
 "hooks": {"guard": "SAFECLIB_VERIF", "enable": "no source hooks: checks compile /repo/src from the working tree with their own flags (engine/vbuild.py) and observe through guard pages, the public handler API and link-time wrapping", "baseline_off_cmd": "make -C /repo -k check", "source_commits": [], "add_only": True},
 "engines": [
  {"name": "cat", "path": "engine/cat", "serves_properties": ["C01","C02","C03","C04","C05","C06","C08","C10"], "kind_free_text": "guard-page arena + role-driven exhaustive case generator + universal caller + oracles, executed on the real library"},
 ] + extra.get("engines", []),
 "checks": checks,
 "not_applicable": na,
 "notes": "All checks run the real library compiled from /repo's working tree. KNOWN-FINDING lines list genuine defects recorded in known_findings.jsonl.",
}
json.dump(m, open(os.path.join(ROOT, "MANIFEST.json"), "w"), indent=1)
print("checks:", [c["property_id"] for c in checks], "na:", [n["property_id"] for n in na])
