#!/bin/sh
# copy finished round-2 mutants from the scratch worktrees into /verif/seeded (only what exists and is not yet imported)
for i in 01 02 03 04 05 06 07 08 09 10 11 12 13 14 15 16 17 18 19 20; do
  for m in C D; do
    s=/tmp/wt2_C$i/mutant/$m; d=/verif/seeded/C$i-$m
    [ -f $s/patch.diff ] && [ -f $s/meta.json ] && [ ! -d $d ] && { mkdir -p $d; cp $s/patch.diff $s/meta.json $d/; cp $s/demo.c $s/run_demo.sh $d/ 2>/dev/null; cp $s/*.c $s/*.sh $s/*.py $d/ 2>/dev/null; echo imported C$i-$m; }
  done
done
ls -d /verif/seeded/*-[CD] 2>/dev/null | wc -l
