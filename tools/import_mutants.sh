#!/bin/sh
# copy finished mutants of a round from the scratch worktrees into /verif/seeded: import_mutants.sh <wt-prefix> <letters...>
P=${1:-/tmp/wt3_C}; shift; L=${*:-E F}
for i in 01 02 03 04 05 06 07 08 09 10 11 12 13 14 15 16 17 18 19 20; do
  for m in $L; do
    s=$P$i/mutant/$m; d=/verif/seeded/C$i-$m
    [ -f $s/patch.diff ] && [ -f $s/meta.json ] && [ ! -d $d ] && { mkdir -p $d; cp $s/patch.diff $s/meta.json $d/; cp $s/*.c $s/*.sh $s/*.py $d/ 2>/dev/null; echo imported C$i-$m; }
  done
done
ls -d /verif/seeded/* | wc -l
