#!/usr/bin/env python3
"""Refresh the 'fixed' entries of known_findings.jsonl from /repo's history: one entry per 'fix:' commit,
with the current abbreviated hash.  The property of each fix is kept from the existing entry with the same
subject, or taken from tools/kf_fixed_props.json (subject prefix -> property) for new commits."""
import json, subprocess, sys, os
ROOT = os.path.dirname(os.path.dirname(os.path.abspath(__file__)))
KF = os.path.join(ROOT, "known_findings.jsonl")
ents = [json.loads(l) for l in open(KF) if l.strip()]
old = {e["what"]: e["property"] for e in ents if e.get("status") == "fixed"}
extra = json.load(open(os.path.join(ROOT, "tools", "kf_fixed_props.json")))
log = subprocess.run(["git", "-C", "/repo", "log", "--reverse", "--format=%h\t%s", "99dbb77..HEAD"], capture_output=True, text=True, check=True).stdout
fixed = []; missing = []
for ln in log.splitlines():
    h, subj = ln.split("\t", 1)
    if not subj.startswith("fix:"): continue
    prop = old.get(subj)
    if prop is None:
        for k, v in extra.items():
            if subj.startswith(k): prop = v
    if prop is None: missing.append(subj); continue
    fixed.append({"status": "fixed", "property": prop, "commit": h, "what": subj, "line": f"fixed: property={prop} {h} {subj}"})
if missing:
    print("no property recorded for:", *missing, sep="\n  "); sys.exit(1)
rest = [e for e in ents if e.get("status") != "fixed"]
with open(KF, "w") as f:
    for e in fixed + rest: f.write(json.dumps(e) + "\n")
print(len(fixed), "fixed entries,", len(rest), "findings")
