#!/usr/bin/env python3
import sys,json,collections
agg=collections.OrderedDict()
for l in open(sys.argv[1]):
    if not l.startswith('{"t":"viol"'): continue
    j=json.loads(l); p=j['sig'].split('|'); k='|'.join(p[:3]); agg.setdefault(k,[0,set(),j['case']]); agg[k][0]+=j['n']; agg[k][1].add('|'.join(p[3:]))
for k,v in agg.items():
    print(k,v[0],sorted(v[1])[:int(sys.argv[2]) if len(sys.argv)>2 else 4]); print('    ',v[2])
