#!/usr/bin/env python3
"""Rewrite the table between the BOUNDS-TABLE markers of DESIGN.md from tools/bounds.json."""
import json, os, re
ROOT = os.path.dirname(os.path.dirname(os.path.abspath(__file__)))
b = json.load(open(os.path.join(ROOT, "tools", "bounds.json")))
rows = ["Numbers are those of the last full run on this machine (16 cores); `evaluations` = library calls (C12/C13: executed operations, C18: scenario runs + in-place calls), `distinct` = the property's own non-triviality count (see each evidence file's `rule`).", "",
        "| id | level | quick: evaluations / distinct / wall | thorough: evaluations / distinct / wall | known findings re-observed (q/t) |", "|---|---|---|---|---|"]
for pid in sorted(b):
    q = b[pid].get("quick", {}); t = b[pid].get("thorough", {})
    f = lambda x: "–" if not x else f"{x.get('evaluations'):,} / {x.get('distinct_nontrivial'):,} / {x.get('wall_s')} s" + ("" if x.get("exhaustive") else " (deadline, not exhaustive)")
    rows.append(f"| {pid} | {(q or t).get('level')} | {f(q)} | {f(t)} | {q.get('known_findings','–')} / {t.get('known_findings','–')} |")
p = os.path.join(ROOT, "DESIGN.md"); s = open(p).read()
s = re.sub(r"(<!-- BOUNDS-TABLE-BEGIN -->\n).*?(<!-- BOUNDS-TABLE-END -->)", lambda m: m.group(1) + "\n".join(rows) + "\n" + m.group(2), s, flags=re.S)
open(p, "w").write(s)
print("\n".join(rows))
