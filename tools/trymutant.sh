#!/bin/sh
# usage: tools/trymutant.sh <patch.diff> <check ids...>  -- applies the patch to /repo, runs the quick checks, reverts
P="$1"; shift
git -C /repo apply "$P" || { echo "patch does not apply"; exit 2; }
for c in "$@"; do
  out=$(python3 /verif/bin/check $c 2>&1); rc=$?
  echo "== $c exit=$rc violations=$(echo "$out" | grep -c '^VIOLATION')"
  echo "$out" | grep '^VIOLATION\|INTERNAL' | head -${SHOW:-4} | cut -c1-260
done
git -C /repo checkout -- .
