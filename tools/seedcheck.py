#!/usr/bin/env python3
"""By-hand regression of the checks against the seeded changes: for every seeded/<id> (or the ids given) apply its patch
(patch.rebased.diff if present) to /repo, run the quick check of its property (plus meta 'also_checks'; '--thorough' adds the
thorough tier when quick is silent), revert /repo straight afterwards, and record the outcome in meta.json.
/repo must be clean before and is clean after.  usage: seedcheck.py [--thorough] [Cxx-A ...]"""
import sys, os, json, subprocess, glob, re
ROOT = os.path.dirname(os.path.dirname(os.path.abspath(__file__)))
thorough = "--thorough" in sys.argv
ids = [a for a in sys.argv[1:] if not a.startswith("--")] or [os.path.basename(d) for d in sorted(glob.glob(os.path.join(ROOT, "seeded", "*")))]
def sh(cmd, **kw): return subprocess.run(cmd, capture_output=True, text=True, errors="replace", **kw)
if sh(["git", "-C", "/repo", "status", "--porcelain"]).stdout.strip(): sys.exit("/repo is not clean")
head = sh(["git", "-C", "/repo", "rev-parse", "--short", "HEAD"]).stdout.strip()
for sid in ids:
    d = os.path.join(ROOT, "seeded", sid); mp = os.path.join(d, "meta.json"); m = json.load(open(mp))
    prop = m.get("property", sid[:3])
    if m.get("not_kept"): print(f"{sid}: not kept ({m['not_kept'][:80]}...)"); continue
    patch = os.path.join(d, "patch.rebased.diff"); reb = os.path.exists(patch)
    if not reb: patch = os.path.join(d, "patch.diff")
    if sh(["git", "-C", "/repo", "apply", "--check", patch]).returncode != 0:
        print(f"{sid}: patch does not apply to {head}"); m["applies_to_head"] = False; json.dump(m, open(mp, "w"), indent=1); continue
    sh(["git", "-C", "/repo", "apply", patch])
    detected = []; lines = {}
    try:
        checks = [prop] + [c for c in m.get("also_checks", []) if c != prop]
        for c in checks:
            for tier in (["quick", "thorough"] if thorough else ["quick"]):
                r = sh(["python3", os.path.join(ROOT, "bin", "check"), c, "--tier", tier], cwd=ROOT)
                v = [l for l in r.stdout.splitlines() if l.startswith("VIOLATION")]
                if r.returncode == 1 and v:
                    detected.append(f"{c} {tier}"); lines[c] = re.sub(r" replay=\S+", "", v[0])[:200]; break
                if r.returncode == 2: lines[c] = "internal error: " + (r.stderr.strip().splitlines() or ["?"])[-1][:160]
    finally:
        sh(["git", "-C", "/repo", "checkout", "--", "."])
    m.update({"rebased": reb, "applies_to_head": True, "detected_by": detected, "first_violation": lines, "verified_on": head})
    json.dump(m, open(mp, "w"), indent=1)
    print(f"{sid}: {'DETECTED by ' + ', '.join(detected) if detected else 'MISSED'}  {list(lines.values())[:1]}", flush=True)
