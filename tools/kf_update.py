#!/usr/bin/env python3
"""Helper used BY HAND while triaging: turns the VIOLATION lines of check outputs into known_findings.jsonl
entries, but only for classes (property|function|oracle) that have a reviewed explanation in
tools/kf_classes.json. Checks never call this; the resulting file is reviewed and committed."""
import sys, re, json, os, fnmatch
ROOT = os.path.dirname(os.path.dirname(os.path.abspath(__file__)))
classes = json.load(open(os.path.join(ROOT, "tools", "kf_classes.json")))
kf = os.path.join(ROOT, "known_findings.jsonl")
have = {}
order = []
if os.path.exists(kf):
    for l in open(kf):
        if l.strip():
            j = json.loads(l); key = (j["status"], j.get("signature", j.get("commit", ""))); have[key] = j; order.append(key)
added = 0
unrev = {}
for f in sys.argv[1:]:
    for l in open(f):
        m = re.match(r'VIOLATION property=(\S+) replay=(\S+) sig=(\S+) cases=(\d+)', l)
        if not m: continue
        pid, sig = m.group(1), m.group(3)
        what = None
        for pat, w in classes.items():
            if fnmatch.fnmatchcase(sig, pat + "*"):
                what = w; break
        if what is None:
            unrev['|'.join(sig.split('|')[:3])] = unrev.get('|'.join(sig.split('|')[:3]), 0) + 1
            continue
        if ("finding", sig) in have: continue
        case = ""
        try:
            for ln in open(m.group(2)):
                if ln.startswith("case=") or ln.startswith("variant="): case += ln.strip() + " "
        except OSError: pass
        have[("finding", sig)] = {"status": "finding", "property": pid, "signature": sig, "what": what, "replay": case.strip()}
        order.append(("finding", sig)); added += 1
with open(kf, "w") as fh:
    for k in order: fh.write(json.dumps(have[k]) + "\n")
print("added", added, "unreviewed classes:", json.dumps(unrev, indent=0))
