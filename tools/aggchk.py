#!/usr/bin/env python3
import sys,re,collections
agg=collections.OrderedDict()
for l in open(sys.argv[1]):
    m=re.match(r'VIOLATION property=(\S+) replay=(\S+) sig=(\S+) cases=(\d+)',l)
    if not m: continue
    p=m.group(3).split('|'); k='|'.join(p[:3]); e=agg.setdefault(k,[0,[],m.group(2)]); e[0]+=int(m.group(4)); e[1].append('|'.join(p[3:]))
for k,v in agg.items(): print(k,v[0],v[1][:int(sys.argv[2]) if len(sys.argv)>2 else 5],v[2].split('/')[-1])
