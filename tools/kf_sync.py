#!/usr/bin/env python3
"""By-hand helper: run both tiers of a check and report (a) VIOLATION signatures not in known_findings.jsonl,
(b) listed findings that neither tier re-observed.  With --prune the entries of (b) are dropped.
Usage: kf_sync.py <Cxx> [--prune]"""
import sys, json, re, subprocess, os
ROOT = os.path.dirname(os.path.dirname(os.path.abspath(__file__)))
pid = sys.argv[1]; prune = "--prune" in sys.argv
seen = set(); viol = {}
for tier in ("quick", "thorough"):
    r = subprocess.run(["python3", os.path.join(ROOT, "bin", "check"), pid, "--tier", tier], capture_output=True, text=True, errors="replace", cwd=ROOT)
    print(f"{pid} {tier}: exit {r.returncode}")
    for l in r.stdout.splitlines():
        m = re.match(r'KNOWN-FINDING: property=(\S+) (.+?) -- ', l)
        if m: seen.add(m.group(2))
        m = re.match(r'VIOLATION property=(\S+) replay=(\S+) sig=(.+?) cases=', l)
        if m: viol[m.group(3)] = m.group(2)
    for l in r.stderr.splitlines():
        if "INTERNAL" in l: print("  ", l[:300])
for s, rp in sorted(viol.items()): print("NEW", s, rp)
keep = []; stale = []
for l in open(os.path.join(ROOT, "known_findings.jsonl")):
    j = json.loads(l)
    if j.get("status") == "finding" and j.get("property") == pid and j["signature"] not in seen: stale.append(j["signature"]); 
    else: keep.append(l); continue
    if not prune: keep.append(l)
for s in stale: print("STALE", s)
if prune: open(os.path.join(ROOT, "known_findings.jsonl"), "w").writelines(keep)
print(pid, "new", len(viol), "stale", len(stale), "pruned" if prune else "")
