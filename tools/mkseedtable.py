#!/usr/bin/env python3
"""Rewrite the table between the SEEDED-TABLE markers of DESIGN.md from seeded/*/meta.json (fields detected_by, strengthened, verified)."""
import json, os, re, glob
ROOT = os.path.dirname(os.path.dirname(os.path.abspath(__file__)))
rows = ["| change | what it does (short) | detected by | strengthened first |", "|---|---|---|---|"]
for d in sorted(glob.glob(os.path.join(ROOT, "seeded", "*"))):
    m = json.load(open(os.path.join(d, "meta.json")))
    short = m.get("short") or (m.get("summary", "")[:150].replace("|", "/").replace("\n", " ") + "…")
    det = m.get("detected_by"); det = ", ".join(det) if isinstance(det, list) else (det or "not yet evaluated")
    if m.get("not_kept"): det = "not kept: " + m["not_kept"]
    rows.append(f"| {os.path.basename(d)}{' (rebased)' if m.get('rebased') else ''} | {short} | {det} | {m.get('strengthened', '')} |")
p = os.path.join(ROOT, "DESIGN.md"); s = open(p).read()
s = re.sub(r"(<!-- SEEDED-TABLE-BEGIN -->\n).*?(<!-- SEEDED-TABLE-END -->)", lambda m: m.group(1) + "\n".join(rows) + "\n" + m.group(2), s, flags=re.S)
open(p, "w").write(s)
print(len(rows) - 2, "rows")
