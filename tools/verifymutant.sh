#!/bin/sh
# by-hand helper: tools/verifymutant.sh <worktree> <dest seeded dir name> <check ids...>
# confirms a sub-agent's seeded change (worktree has the change applied, mutant/{patch.diff,meta.json,demo.c}): demo non-zero with the change
# and 0 without, then runs the named quick checks against /repo with the patch applied (tools/trymutant.sh) and imports the directory.
WT=$1; D=$2; shift 2
cd $WT || exit 2
CC="gcc -O0 -g -I include -I . mutant/demo.c src/.libs/libsafec.a -o mutant/demo"
git diff -- src include > /tmp/vm_$D.diff
make -j8 >/dev/null 2>&1; $CC 2>/dev/null; ./mutant/demo >/dev/null 2>&1; echo "demo with change: exit=$?"
git apply -R /tmp/vm_$D.diff && make -j8 >/dev/null 2>&1 && $CC 2>/dev/null; ./mutant/demo >/dev/null 2>&1; echo "demo without change: exit=$?"
git apply /tmp/vm_$D.diff; rm -f /tmp/vm_$D.diff
cd /verif && sh tools/trymutant.sh $WT/mutant/patch.diff "$@"
mkdir -p /verif/seeded/$D && cp $WT/mutant/patch.diff $WT/mutant/meta.json $WT/mutant/demo.c /verif/seeded/$D/
