#!/bin/sh
# summarise c11 violation classes on the current tree (development aid)
cd /verif; export CAT_LIB=$(python3 -c "from engine import vbuild; print(vbuild.build('prod'))" 2>/dev/null)
for g in ${*:-int float str}; do for i in 0 1 2 3 4 5 6 7; do ./build/seq/c11 $g quick $i 8 & done | python3 -c "
import sys,json,collections
c=collections.Counter(); ex={}; tot=collections.Counter()
for l in sys.stdin:
    o=json.loads(l)
    if o['t']=='viol':
        p=o['sig'].split('|'); k=(p[2],p[3].split(',')[0]); c[k]+=o['n']; ex.setdefault(k,o['case'])
    else:
        for k in ('calls','violating','signatures'): tot[k]+=o[k]
print('$g',dict(tot))
for k,v in sorted(c.items()): print(v,k,ex[k])
"; wait; done
