#!/usr/bin/env python3
"""By-hand helper: run every claimed check in both tiers (or the tiers/ids given), print one line each, and record the
measured numbers of each run in tools/bounds.json (read by tools/mkboundstable.py).  usage: runall.py [quick|thorough|both] [Cxx ...]"""
import sys, os, json, subprocess, time, re
ROOT = os.path.dirname(os.path.dirname(os.path.abspath(__file__)))
tiers = ["quick", "thorough"]; ids = []
for a in sys.argv[1:]:
    if a in ("quick", "thorough"): tiers = [a]
    elif a == "both": pass
    else: ids.append(a)
if not ids: ids = [c["property_id"] for c in json.load(open(os.path.join(ROOT, "MANIFEST.json")))["checks"]]
bp = os.path.join(ROOT, "tools", "bounds.json")
bounds = json.load(open(bp)) if os.path.exists(bp) else {}
bad = 0
for pid in ids:
    for tier in tiers:
        t0 = time.time()
        r = subprocess.run(["python3", os.path.join(ROOT, "bin", "check"), pid, "--tier", tier], capture_output=True, text=True, errors="replace", cwd=ROOT)
        ev = json.load(open(os.path.join(ROOT, "evidence", pid + ".json")))
        c = ev["coverage"]
        known = len(re.findall(r"^KNOWN-FINDING", r.stdout, re.M)); viol = len(re.findall(r"^VIOLATION", r.stdout, re.M))
        bounds.setdefault(pid, {})[tier] = {"evaluations": c.get("evaluations"), "distinct_nontrivial": c.get("distinct_nontrivial"), "wall_s": round(time.time() - t0, 1),
                                            "exhaustive": c.get("exhaustive"), "known_findings": known, "level": ev["level"],
                                            "extra": {k: v for k, v in c.items() if k in ("states", "transitions", "schedules", "histories", "build_configurations", "normalization_vectors", "max_characters", "preemption_bound")}}
        print(f"{pid} {tier}: exit={r.returncode} known={known} viol={viol} evaluations={c.get('evaluations')} wall={round(time.time()-t0,1)}s exhaustive={c.get('exhaustive')}", flush=True)
        if r.returncode != 0:
            bad += 1
            for l in (r.stdout + r.stderr).splitlines():
                if l.startswith("VIOLATION") or "INTERNAL" in l or "Error" in l: print("   ", l[:260])
        json.dump(bounds, open(bp, "w"), indent=1, sort_keys=True)
sys.exit(1 if bad else 0)
