#!/bin/sh
# quick manual driver: tools/runcat.sh <prop> <variant> [fn] 
gcc -O1 -g -Wall -Wno-unused-function -o /verif/build/cat/cat /verif/engine/cat/cat.c /verif/engine/cat/fntab.c /verif/engine/trapvm/trapvm.c -pthread || exit 2
export CAT_LIB=$(python3 /verif/engine/vbuild.py ${2:-prod})
/verif/build/cat/cat run $1 ${TIER:-quick} ${2:-prod} ${LOC:-C} ${3:-all}
