#!/usr/bin/env python3
"""By-hand helper: drops 'finding' entries of a property that the given check output did not re-observe
(the defect was fixed or the signature changed). Usage: kf_prune.py <Cxx> <check-output>"""
import sys, json, re
pid, out = sys.argv[1], sys.argv[2]
seen = set()
for l in open(out):
    m = re.match(r'KNOWN-FINDING: property=(\S+) (\S+) --', l)
    if m and m.group(1) == pid: seen.add(m.group(2))
keep = []; dropped = 0
for l in open('/verif/known_findings.jsonl'):
    j = json.loads(l)
    if j.get('status') == 'finding' and j.get('property') == pid and j['signature'] not in seen: dropped += 1; continue
    keep.append(l)
open('/verif/known_findings.jsonl', 'w').writelines(keep)
print(pid, 'dropped', dropped, 'kept', sum(1 for l in keep if '"%s"' % pid in l))
