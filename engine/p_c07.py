"""C07: overlap detection over memory layouts (all contents of an M-element arena x placements)."""
import os, sys, json, time, subprocess
from concurrent.futures import ThreadPoolExecutor
from . import vbuild, common, crosspass
ROOT = common.ROOT
BIN = os.path.join(ROOT, "build", "seq", "c07")
SRC = [os.path.join(ROOT, "engine", "seq", "c07.c")]


def build():
    common.cc(BIN, SRC, ["-O1", "-g", "-w", "-ldl"]); return BIN


def run(tier, deadline):
    t0 = time.time(); build()
    # the library as configured here (prod, -O0) and, in the thorough tier, the quick-sized enumeration once more on the library built the way a
    # default ./configure builds it (dist: -O2, _FORTIFY_SOURCE=2, the repository's hardening flags)
    envs = {v: dict(os.environ, CAT_LIB=vbuild.build(v)) for v in (("prod",) if tier == "quick" else ("prod", "dist"))}
    M = 8 if tier == "quick" else 12
    jobs = [["all", str(M), str(i), "16"] for i in range(16)] + [["moves", "200" if tier == "quick" else "400", str(i), "16"] for i in range(16)] + [["far", "8" if tier == "quick" else "24", str(i), "16"] for i in range(16)] + [["bytes", "8" if tier == "quick" else "40", str(i), "4"] for i in range(4)] + [["low", "0", str(i), "4"] for i in range(4)]
    def mkjobs(tier):
        M = 8 if tier == "quick" else 12
        jobs = [["all", str(M), str(i), "16"] for i in range(16)] + [["moves", "200" if tier == "quick" else "400", str(i), "16"] for i in range(16)] + [["far", "8" if tier == "quick" else "24", str(i), "16"] for i in range(16)] + [["bytes", "8" if tier == "quick" else "40", str(i), "4"] for i in range(4)] + [["low", "0", str(i), "4"] for i in range(4)]
        return jobs
    jobs = [("prod", j) for j in jobs] + ([("dist", j) for j in mkjobs("quick")] if tier == "thorough" else [])
    viol = {}; internal = []; tot = {"layouts": 0, "zone_disjoint": 0, "zone_must_report": 0, "zone_either": 0, "dest_unterminated": 0}; timed_out = []
    def one(vj):
        v, j = vj
        left = deadline - (time.time() - t0)
        try: return vj, subprocess.run([BIN] + j, capture_output=True, text=True, env=envs[v], timeout=max(5, left))
        except subprocess.TimeoutExpired: timed_out.append(vj); return vj, None
    with ThreadPoolExecutor(16) as ex:
        for (v, j), r in ex.map(one, jobs):
            if r is None: continue
            if r.returncode != 0: internal.append(f"{j}: exit {r.returncode} {r.stderr[-200:]}"); continue
            for ln in r.stdout.splitlines():
                if not ln.startswith("{"): continue
                o = json.loads(ln)
                if o["t"] == "viol": e = viol.setdefault(o["sig"], [0, o["case"], v]); e[0] += o["n"]
                elif o["t"] == "stat":
                    for k in tot: tot[k] += o[k]
    # borrowed pass: none of the copy/move entry points leaves a footprint in the library's static storage (a scratch or bounce buffer there would be shared by all callers)
    fv, fn_, fi = crosspass.footprint("C07", ["strcpy_s", "strncpy_s", "strcat_s", "strncat_s", "stpcpy_s", "stpncpy_s", "strcpyfld_s", "strcpyfldin_s", "strcpyfldout_s", "memcpy_s", "memmove_s", "memcpy16_s", "memcpy32_s", "memmove16_s", "memmove32_s", "memccpy_s",
                                             "wcscpy_s", "wcsncpy_s", "wcscat_s", "wcsncat_s", "wmemcpy_s", "wmemmove_s", "wcpcpy_s", "wcpncpy_s"], tier, deadline - (time.time() - t0)); internal += fi
    for sig, case, n in fv: e = viol.setdefault(sig, [0, case, "prod"]); e[0] += n
    if internal:
        for m in internal[:10]: print("INTERNAL-ERROR:", m, file=sys.stderr)
        return 2
    violations = [common.Violation(sig, "" if v == "prod" else "library build: " + v, f"property=C07\nvariant={v}\nsignature={sig}\ncase={case}\n", n) for sig, (n, case, v) in sorted(viol.items())]
    def confirm(v):
        kv = dict(l.split("=", 1) for l in v.replay_text.strip().splitlines()); return replay(kv, quiet=True) == 1
    cov = {"evaluations": tot["layouts"], "distinct_nontrivial": tot["zone_must_report"] + tot["zone_either"],
           "rule": "16-/32-bit and wide memory functions with src = dest + every number of bytes (operands not aligned to each other), lengths 1..8 (thorough 40) elements: memmove family = copy through a temporary, memcpy family reports every intersection of the byte ranges; (0) memccpy_s in the same arena with every stop character present in it, one absent, the terminator and two values outside unsigned char whose low byte is present (overlap detection, corruption, stray writes); operands at the lowest mappable addresses (vm.mmap_min_addr) with counts of 3..40000 elements whose size in bytes exceeds the address of dest, src at 15 distances around -len..+len: outcome and memory equal to the same call in ordinary memory (memcpy and memmove families); operands far apart: dest and src in two mappings (k+1) x 4 GiB + r bytes apart, k in {0,1}, both orders, every r within the operand length + 6 elements, every length up to 8 (thorough 24) elements, all 22 entry points: must succeed and store what the same call stores between neighbouring disjoint operands; (1) one arena of M elements over {x, NUL}: all 2^M contents x every dest position and dmax x every src position x every slen, for 22 copy/concatenate/memory entry points in widths 1/2/4; R/W sets computed from the pre-call snapshot; zone oracle: disjoint => behaves as with disjoint buffers; written-intersects-read => overlap error with dest cleared; otherwise either; always: nothing outside dest written, arena never left, success implies the copy-through-temporary result; memmove family exact for every placement; every layout is run with object sizes unknown and with dest size = dmax / src size = rest of the arena; (2) long moves: memmove_s, memmove16_s, memmove32_s, wmemmove_s for every shift of src against dest in [-136,+136] bytes x every length up to the bound x every start alignment, compared with a copy through a temporary over a 4 KiB image; non-trivial = layouts where the dest object touches the elements read",
           "samples": ["strncpy_s M=8 content=0b00100101 dest@1 dmax=4 src@0 slen=2", "memmove32_s M=8 dest@2 dmax=5 src@0 slen=4", "wcscat_s M=8 content=0b01011011 dest@0 dmax=6 src@3"],
           "arena_elements": M, "zones": tot, "jobs_timed_out": len(timed_out), "library_builds": sorted(envs)}
    return common.finish("C07", tier, t0, cov, violations, ["identical pointers: unchanged dest string or the reference result both accepted", "memccpy_s: overlap, corruption and stray writes are judged here; what it stores behind the stop character is C06's"], confirm=confirm, exhaustive=not timed_out)


def replay(kv, quiet=False):
    if crosspass.is_cross(kv["case"]): return crosspass.replay(kv, quiet)
    build(); c = kv["case"].split()
    r = subprocess.run([BIN, "replay"] + c, capture_output=True, text=True, env=dict(os.environ, CAT_LIB=vbuild.build(kv.get("variant", "prod"))))
    if not quiet: sys.stdout.write(r.stdout); sys.stderr.write(r.stderr)
    return r.returncode
