"""C11: formatted output equals C printf for the documented conversions, or fails; no dependence on earlier calls."""
import os, sys, json, time, subprocess
from concurrent.futures import ThreadPoolExecutor
from . import vbuild, common
ROOT = common.ROOT
BIN = os.path.join(ROOT, "build", "seq", "c11")
SRC = [os.path.join(ROOT, "engine", "seq", "c11.c")]


def build():
    common.cc(BIN, SRC, ["-O1", "-g", "-w", "-Wl,--no-as-needed", "-ldl", "-lm"]); return BIN


def run(tier, deadline):
    t0 = time.time(); build()
    # the library as configured here (prod, -O0) and, in the thorough tier, the quick-sized enumeration once more on the library built the way a
    # default ./configure builds it (dist: -O2, _FORTIFY_SOURCE=2, the repository's hardening flags)
    envs = {v: dict(os.environ, CAT_LIB=vbuild.build(v)) for v in (("prod",) if tier == "quick" else ("prod", "dist"))}
    NS = 16
    groups = ["int", "float", "str", "multi"]
    jobs = [[g, tier, str(i), str(NS)] for g in groups for i in range(NS)]
    def mkjobs(tier):
        NS = 16
        groups = ["int", "float", "str", "multi"]
        jobs = [[g, tier, str(i), str(NS)] for g in groups for i in range(NS)]
        return jobs
    jobs = [("prod", j) for j in jobs] + ([("dist", j) for j in mkjobs("quick")] if tier == "thorough" else [])
    viol = {}; internal = []; tot = {"formats_with_values": 0, "calls": 0, "float_within_tolerance": 0}; timed_out = []
    def one(vj):
        v, j = vj
        left = deadline - (time.time() - t0)
        try: return vj, subprocess.run([BIN] + j, capture_output=True, text=True, errors="replace", env=envs[v], timeout=max(5, left))
        except subprocess.TimeoutExpired: timed_out.append(vj); return vj, None
    with ThreadPoolExecutor(16) as ex:
        for (v, j), r in ex.map(one, jobs):
            if r is None: continue
            if r.returncode != 0: internal.append(f"{j}: exit {r.returncode} {r.stderr[-200:]}"); continue
            for ln in r.stdout.splitlines():
                if not ln.startswith("{"): continue
                o = json.loads(ln)
                if o["t"] == "viol": e = viol.setdefault(o["sig"], [0, o["case"], v]); e[0] += o["n"]
                elif o["t"] == "stat":
                    for k in tot: tot[k] += o[k]
    if internal:
        for m in internal[:10]: print("INTERNAL-ERROR:", m, file=sys.stderr)
        return 2
    violations = [common.Violation(sig, "" if v == "prod" else "library build: " + v, f"property=C11\nvariant={v}\nsignature={sig}\ncase={case}\n", n) for sig, (n, case, v) in sorted(viol.items())]
    def confirm(v):
        kv = dict(l.split("=", 1) for l in v.replay_text.strip().splitlines()); return replay(kv, quiet=True) == 1
    cov = {"evaluations": tot["calls"], "distinct_nontrivial": tot["formats_with_values"],
           "rule": "every directive %[flags][width][.precision][length]conv with flags any subset of {- + space # 0} that C defines for the conversion, width in {none,1,5,12,40,64,*(7),*(-7)} (thorough: 23 widths up to 100), precision in {none,.0,.1,.5,.12,.40,.*(3),.*(-1)}, conversions d i u x X o with lengths {none,hh,h,l,ll,z,j,t} over {0,1,-1,42,-42,INT_MAX,INT_MIN,LLONG_MAX,LLONG_MIN} / {0,1,255,0x8000,UINT_MAX,ULLONG_MAX} truncated to the type; f F e E g G with {none,L} over 19 values (zeros of both signs, halves, 999999999.5, 1e9, 1e9+1, 1e300, smallest denormal, infinities, nan, small and 8-digit values); s ls c lc with four narrow (one UTF-8), three wide strings and ASCII/Latin-1 characters; %% and literal text; thorough adds two-directive formats. Each directive is wrapped in brackets and run through sprintf_s and snprintf_s with dmax in {1, need/2, need-4, need-2, need-1, need, need+1 (, 256)} and through fprintf_s on a memory stream; the reference is libc snprintf with the same arguments. Oracle: if the text fits, the return value equals printf's count and the bytes are equal (floating conversions: same layout, same length, value within one unit of the last printed digit); if it does not fit sprintf_s must fail and snprintf_s must fail or return a terminated prefix of the printf text; every case is run once after a neutral call and once after a call through the long-double and hex-float path and both runs must agree",
           "samples": ["[%-05d] INT_MIN dmax=need", "[%#.0o] 0", "[%+*.*Le] (7,3) 1e300", "[%.1g] 999999999.5", "[%-5.1ls] L\"\\u00e9\\u20ac\" fprintf_s", "[%.40u] ULLONG_MAX dmax=need-1"],
           "float_cases_accepted_by_tolerance": tot["float_within_tolerance"], "jobs_timed_out": len(timed_out), "library_builds": sorted(envs)}
    return common.finish("C11", tier, t0, cov, violations,
                         ["glibc snprintf is the reference for the C semantics", "locale C.UTF-8 (decimal point '.')", "combinations C leaves undefined ('#' with d i u, '+'/' ' with unsigned conversions, flags other than '-' with c s) are not enumerated", "printf_s writes to stdout through the same engine and sink type as fprintf_s and is not driven separately; vsprintf_s/vsnprintf_s/vfprintf_s are the functions the enumerated entry points forward to"],
                         confirm=confirm, exhaustive=not timed_out)


def replay(kv, quiet=False):
    build(); c = kv["case"].split(" ", 6)
    r = subprocess.run([BIN, "replay"] + c, capture_output=True, text=True, errors="replace", env=dict(os.environ, CAT_LIB=vbuild.build(kv.get("variant", "prod"))))
    if not quiet: sys.stdout.write(r.stdout); sys.stderr.write(r.stderr)
    return r.returncode
