"""C05 pass: an application built against the public headers only (the object size every macro appends comes from the
compiler), for each compiler x optimisation x _FORTIFY_SOURCE level, linked to the library built from the working tree.
Every scenario line of engine/seq/macroclient.c has one expected outcome that does not depend on the build."""
import os, subprocess, json, types
from . import vbuild, common
ROOT = common.ROOT
SRC = os.path.join(ROOT, "engine", "seq", "macroclient.c")
OUT = os.path.join(ROOT, "build", "seq", "mc")


def expected(fn, kind, case):
    pf = fn in ("sprintf_s", "snprintf_s")
    if case == "valid": return (3 if pf else 0, 0, 0)
    if case == "dmax-zero" and fn == "memset_s": return (0, 0, 0)          # n = 0 with dmax = 0: documented as nothing to do
    code = {"null-src": 400, "dmax-zero": 401, "dmax-above-object": 75}[case]
    return (-code if pf else code, 1, code)


def build_and_run(cc, opt, fort):
    os.makedirs(OUT, exist_ok=True)
    lib = vbuild.build("prod"); libd = os.path.dirname(lib)
    exe = os.path.join(OUT, f"mc-{cc}-{opt}-F{fort}")
    cmd = [cc, "-" + opt, "-w", "-I" + os.path.join(vbuild.REPO, "include"), "-I" + vbuild.REPO, SRC, "-o", exe, "-L" + libd, "-lsafec", "-Wl,-rpath," + libd]
    if fort != "0": cmd.insert(2, "-D_FORTIFY_SOURCE=" + fort)
    if os.path.exists(exe): os.unlink(exe)
    r = subprocess.run(cmd, capture_output=True, text=True)
    if r.returncode != 0:
        # is it the toolchain (then an internal error) or the headers rejecting a client that violates nothing at compile time?
        probe = subprocess.run([cc, "-" + opt, "-x", "c", "-", "-o", exe + ".probe"], input="int main(void){return 0;}\n", capture_output=True, text=True)
        if os.path.exists(exe + ".probe"): os.unlink(exe + ".probe")
        if probe.returncode != 0: return None, "compile failed: " + r.stderr[-400:]
        errs = [l for l in r.stderr.splitlines() if "error" in l]
        return "COMPILE-FAILED " + (errs[0] if errs else r.stderr.strip().splitlines()[-1])[:300] + "\n", None
    r = subprocess.run([exe], capture_output=True, text=True, timeout=60)
    if r.returncode != 0 or "DONE" not in r.stdout: return None, f"client exit {r.returncode}: {r.stdout[-200:]} {r.stderr[-200:]}"
    return r.stdout, None


def judge(out, cfg):
    viol = []; n = 0
    if out.startswith("COMPILE-FAILED"):
        return 1, [(f"C05|public-macros|public-macro:client-that-violates-nothing-does-not-compile|{cfg}", f"macroclient {cfg} - - compile", out.strip())]
    for ln in out.splitlines():
        if not ln.startswith("S "): continue
        _, fn, kind, case, rc, hn, hc = ln.split(); n += 1
        got = (int(rc[3:]), int(hn[3:]), int(hc[3:])); exp = expected(fn, kind, case)
        if got != exp:
            what = "valid-call-reported" if case == "valid" and got[1] else "handler-invoked-%dx" % got[1] if got[1] != exp[1] else "wrong-code"
            viol.append((f"C05|{fn}|public-macro:{what}|{kind},{case}|{cfg}", f"macroclient {cfg} {fn} {kind} {case}", f"expected rc={exp[0]} handler={exp[1]}x code={exp[2]}, got rc={got[0]} handler={got[1]}x code={got[2]}"))
    return n, viol


def task(cc, opt, fort):
    """returns an object shaped like a finished subprocess of the other harnesses (JSON lines on stdout)"""
    cfg = f"{cc}-{opt}-F{fort}"
    out, err = build_and_run(cc, opt, fort)
    if out is None: return types.SimpleNamespace(returncode=0, stdout=json.dumps({"t": "internal", "msg": f"macroclient {cfg}: {err}"}) + "\n", stderr="")
    n, viol = judge(out, cfg)
    lines = [json.dumps({"t": "viol", "sig": s, "n": 1, "case": c}) for s, c, _ in viol]
    lines.append(json.dumps({"t": "stat", "evaluations": n, "nontrivial": n}))
    return types.SimpleNamespace(returncode=0, stdout="\n".join(lines) + "\n", stderr="")


def replay(case, quiet=False):
    _, cfg, fn, kind, cs = case.split()
    cc, opt, fort = cfg.split("-"); fort = fort[1:]
    out, err = build_and_run(cc, opt, fort)
    if out is None:
        print("INTERNAL-ERROR:", err); return 2
    n, viol = judge(out, cfg)
    hit = [v for v in viol if v[1] == case]
    if not quiet:
        for ln in out.splitlines():
            if ln.startswith(f"S {fn} {kind} {cs} "): print(f"{cfg}: {ln}")
        print("VERDICT violation " + hit[0][0] + " -- " + hit[0][2] if hit else "VERDICT ok")
    return 1 if hit else 0
