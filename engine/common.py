"""Common driver pieces: known-findings triage, evidence writing, output conventions."""
import json, os, sys, time, fnmatch, subprocess, hashlib

ROOT = os.path.dirname(os.path.dirname(os.path.abspath(__file__)))
REPO = os.environ.get("VERIF_REPO", "/repo")
KNOWN = os.path.join(ROOT, "known_findings.jsonl")

LEVELS = {"C12": "model_checking", "C13": "model_checking", "C14": "model_checking", "C20": "fault_enumeration"}


def level_of(pid):
    return LEVELS.get(pid, "exploration")


def load_known(pid):
    out = []
    if os.path.exists(KNOWN):
        for ln in open(KNOWN):
            ln = ln.strip()
            if not ln or ln.startswith("#"):
                continue
            j = json.loads(ln)
            if j.get("property") == pid and j.get("status") == "finding":
                out.append(j)
    return out


def match_known(known, sig):
    for k in known:
        if fnmatch.fnmatchcase(sig, k["signature"]):
            return k
    return None


class Violation:
    def __init__(self, sig, detail, replay_text, count=1):
        self.sig, self.detail, self.replay_text, self.count = sig, detail, replay_text, count


def finish(pid, tier, t0, coverage, violations, assumptions, confirm=None, exhaustive=True):
    """Triage against known findings, write replay files + evidence, print the contract lines,
    return the exit status.  confirm(v) -> bool re-runs one violation alone (replay before report)."""
    known = load_known(pid)
    rdir = os.path.join(ROOT, "replay", pid)
    os.makedirs(rdir, exist_ok=True)
    for f in os.listdir(rdir):
        os.unlink(os.path.join(rdir, f))
    new, listed = [], {}
    for v in violations:
        k = match_known(known, v.sig)
        if k:
            listed.setdefault(k["signature"], [k, 0, v])
            listed[k["signature"]][1] += v.count
        else:
            new.append(v)
    status = 0
    for sigpat, (k, n, v) in sorted(listed.items()):
        print(f"KNOWN-FINDING: property={pid} {sigpat} -- {k.get('what','')} [{n} cases]")
    nrep = 0
    for v in new:
        if confirm is not None and nrep < 40:
            ok = confirm(v)
            if not ok:
                print(f"INTERNAL-ERROR: violation did not reproduce on replay: {v.sig}", file=sys.stderr)
                return 2
        name = hashlib.sha1(v.sig.encode()).hexdigest()[:12] + ".replay"
        path = os.path.join(rdir, name)
        with open(path, "w") as fh:
            fh.write(v.replay_text)
        if nrep < 200:
            print(f"VIOLATION property={pid} replay={path} sig={v.sig} cases={v.count} {v.detail}")
        elif nrep == 200:
            print(f"... {len(new) - 200} further violation signatures of {pid} not printed; every one has its replay file in {rdir}")
        status = 1
        nrep += 1
    coverage = dict(coverage)
    coverage["exhaustive"] = bool(exhaustive)
    coverage["known_findings_reobserved"] = sorted(listed.keys())
    ev = {
        "property_id": pid, "tier": tier, "seed": int(os.environ.get("VERIF_SEED", "0") or 0),
        "level": level_of(pid), "coverage": coverage, "assumptions": assumptions,
        "wall_s": round(time.time() - t0, 2), "violations": len(new),
    }
    os.makedirs(os.path.join(ROOT, "evidence"), exist_ok=True)
    with open(os.path.join(ROOT, "evidence", pid + ".json"), "w") as fh:
        json.dump(ev, fh, indent=1)
    return status


def cc(out, srcs, flags=(), cwd=None, deps=()):
    """compile helper with mtime cache"""
    newest = max(os.path.getmtime(s) for s in list(srcs) + list(deps) if os.path.exists(s))
    if os.path.exists(out) and os.path.getmtime(out) > newest:
        return out
    os.makedirs(os.path.dirname(out), exist_ok=True)
    r = subprocess.run(["gcc"] + list(flags) + ["-o", out] + list(srcs), capture_output=True, text=True, cwd=cwd)
    if r.returncode != 0:
        sys.stderr.write(r.stderr[-4000:])
        raise SystemExit(2)
    return out
