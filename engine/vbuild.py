#!/usr/bin/env python3
"""Build service: compiles the library from /repo's *current working tree* into
/verif/build/lib/<variant>-<hash>/ (hash = contents of every input file + flags), 16-way.
An unchanged tree is compiled once per variant; any edited source gives a new hash."""
import hashlib, os, subprocess, sys, glob, shutil, fcntl, re
from concurrent.futures import ThreadPoolExecutor

REPO = os.environ.get("VERIF_REPO", "/repo")
ROOT = os.path.dirname(os.path.dirname(os.path.abspath(__file__)))
BUILD = os.path.join(ROOT, "build", "lib")

EXCLUDE = {"io/tmpnam_s.c", "extwchar/wcsstr.c"}
REPO_WARN = ("-fno-strict-aliasing -Wall -Wextra -Wno-unused-parameter -Wno-missing-field-initializers "
             "-fstack-protector-strong -fcf-protection -fno-strict-overflow "
             "-fno-delete-null-pointer-checks -fno-lifetime-dse -Wno-error").split()

VARIANTS = {
    # name: (cc, cflags, ldflags, header_edit)
    "prod":    ("gcc",   ["-O0", "-g"] + REPO_WARN, [], None),
    "noslack": ("gcc",   ["-O0", "-g"] + REPO_WARN, [], "noslack"),
    "wrap":    ("gcc",   ["-O0", "-g"] + REPO_WARN,
                ["-Wl,--wrap=malloc,--wrap=realloc,--wrap=calloc,--wrap=free"], None),
    "asan":    ("clang", ["-O1", "-g", "-fsanitize=address,undefined", "-fsanitize-recover=all",
                          "-fno-omit-frame-pointer", "-fno-strict-aliasing", "-w",
                          "-fno-sanitize=alignment,shift,signed-integer-overflow,pointer-overflow,function"],
                ["-fsanitize=address,undefined", "-shared-libsan"], None),
    "tsan":    ("clang", ["-O1", "-g", "-fsanitize=thread", "-fno-strict-aliasing", "-w"],
                ["-fsanitize=thread"], None),
    # what a default ./configure of the repository produces: optimised, fortified, with its hardening flags
    "dist":    ("gcc",   ["-O2", "-g", "-D_FORTIFY_SOURCE=2"] + REPO_WARN, [], None),
    "O2":      ("gcc",   ["-O2", "-g", "-w", "-fno-strict-aliasing"], [], None),
    "O3":      ("gcc",   ["-O3", "-g", "-w", "-fno-strict-aliasing"], [], None),
    "O1":      ("gcc",   ["-O1", "-g", "-w", "-fno-strict-aliasing"], [], None),
    "clangO2": ("clang", ["-O2", "-g", "-w", "-fno-strict-aliasing"], [], None),
    "clangO3": ("clang", ["-O3", "-g", "-w", "-fno-strict-aliasing"], [], None),
    # link-time optimisation: objects hold compiler IR; C18 links them together with its callers
    "ltogcc":   ("gcc",   ["-O2", "-flto", "-w", "-fno-strict-aliasing"], ["-flto=16", "-O2"], None),
    "ltogccO3": ("gcc",   ["-O3", "-flto", "-w", "-fno-strict-aliasing"], ["-flto=16", "-O3"], None),
    "ltoclang": ("clang", ["-O2", "-flto", "-w", "-fno-strict-aliasing"], ["-flto", "-fuse-ld=lld", "-O2"], None),
    "ltoclangO3": ("clang", ["-O3", "-flto", "-w", "-fno-strict-aliasing"], ["-flto", "-fuse-ld=lld", "-O3"], None),
}


def sources():
    out = []
    for p in sorted(glob.glob(os.path.join(REPO, "src", "**", "*.c"), recursive=True)):
        rel = os.path.relpath(p, os.path.join(REPO, "src"))
        if rel in EXCLUDE or rel.startswith("slkm/"):
            continue
        out.append(rel)
    return out


def inputs():
    files = []
    for pat in ("src/**/*.c", "src/**/*.h", "include/*.h", "config.h"):
        files += glob.glob(os.path.join(REPO, pat), recursive=True)
    return sorted(set(files))


def tree_hash(extra=""):
    h = hashlib.sha256()
    for f in inputs():
        h.update(os.path.relpath(f, REPO).encode())
        with open(f, "rb") as fh:
            h.update(hashlib.sha256(fh.read()).digest())
    h.update(extra.encode())
    return h.hexdigest()[:16]


def prune(keep):
    """remove hash directories of other trees (disk is limited); keep those named in keep"""
    if not os.path.isdir(BUILD):
        return
    for d in os.listdir(BUILD):
        if d not in keep and not d.endswith(".lock"):
            p = os.path.join(BUILD, d)
            try:
                # only prune directories older than 2 hours or belonging to another tree hash
                shutil.rmtree(p, ignore_errors=True)
            except OSError:
                pass


def build(variant, quiet=True):
    cc, cflags, ldflags, hedit = VARIANTS[variant]
    th = tree_hash(variant + " ".join(cflags + ldflags) + cc)
    os.makedirs(BUILD, exist_ok=True)
    out = os.path.join(BUILD, f"{variant}-{th}")
    so = os.path.join(out, "libsafec.so")
    lock = open(os.path.join(BUILD, f"{variant}.lock"), "w")
    fcntl.flock(lock, fcntl.LOCK_EX)
    try:
        if os.path.exists(so):
            return so
        # remove stale builds of this variant
        for d in os.listdir(BUILD):
            if d.startswith(variant + "-") and d != os.path.basename(out):
                shutil.rmtree(os.path.join(BUILD, d), ignore_errors=True)
        tmp = out + ".tmp"
        shutil.rmtree(tmp, ignore_errors=True)
        os.makedirs(os.path.join(tmp, "obj"))
        inc = ["-I" + os.path.join(REPO, "include"), "-I" + os.path.join(REPO, "src"), "-I" + REPO]
        if hedit == "noslack":
            hd = os.path.join(tmp, "hdr")
            os.makedirs(hd)
            txt = open(os.path.join(REPO, "include", "safe_config.h")).read()
            txt2 = re.sub(r"#define SAFECLIB_STR_NULL_SLACK[^\n]*", "#undef SAFECLIB_STR_NULL_SLACK", txt)
            if txt2 == txt:
                raise SystemExit("vbuild: cannot find SAFECLIB_STR_NULL_SLACK define")
            open(os.path.join(hd, "safe_config.h"), "w").write(txt2)
            inc = ["-I" + hd] + inc
        srcs = sources()
        base = [cc, "-DHAVE_CONFIG_H", "-fPIC"] + inc + cflags

        def one(rel):
            o = os.path.join(tmp, "obj", rel.replace("/", "_")[:-2] + ".o")
            r = subprocess.run(base + ["-c", os.path.join(REPO, "src", rel), "-o", o],
                               capture_output=True, text=True)
            return rel, o, r
        objs = []
        with ThreadPoolExecutor(16) as ex:
            for rel, o, r in ex.map(one, srcs):
                if r.returncode != 0:
                    sys.stderr.write(f"vbuild: compile failed: {rel}\n{r.stderr[-3000:]}\n")
                    raise SystemExit(2)
                objs.append(o)
        r = subprocess.run([cc, "-shared", "-o", os.path.join(tmp, "libsafec.so")] + objs +
                           ["-Wl,-z,relro,-z,now"] + ldflags, capture_output=True, text=True)
        if r.returncode != 0:
            sys.stderr.write("vbuild: link failed\n" + r.stderr[-3000:])
            raise SystemExit(2)
        # static archive as well (C18/C19 static linkage)
        subprocess.run(["ar", "rcs", os.path.join(tmp, "libsafec.a")] + objs, check=True)
        os.rename(tmp, out)
        return so
    finally:
        fcntl.flock(lock, fcntl.LOCK_UN)
        lock.close()


def objects(variant):
    """object files of a built variant (LTO variants: compiler IR)"""
    so = build(variant)
    return sorted(glob.glob(os.path.join(os.path.dirname(so), "obj", "*.o")))


if __name__ == "__main__":
    for v in sys.argv[1:]:
        print(build(v))
