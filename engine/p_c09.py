"""C09: %n never executed: all format strings up to length L over small alphabets x 28 entry points."""
import os, sys, json, time, subprocess
from concurrent.futures import ThreadPoolExecutor
from . import vbuild, common
ROOT = common.ROOT
BIN = os.path.join(ROOT, "build", "seq", "c09")
SRC = [os.path.join(ROOT, "engine", "seq", "c09.c")]


def build():
    common.cc(BIN, SRC, ["-O1", "-g", "-w", "-ldl"]); return BIN


def run(tier, deadline):
    t0 = time.time(); build()
    # the library as configured here (prod, -O0) and, in the thorough tier, the quick-sized enumeration once more on the library built the way a
    # default ./configure builds it (dist: -O2, _FORTIFY_SOURCE=2, the repository's hardening flags)
    envs = {v: dict(os.environ, CAT_LIB=vbuild.build(v)) for v in (("prod",) if tier == "quick" else ("prod", "dist"))}
    sets = [("%ndslh5.x", 5), ("%n[]^s", 5), ("%n[]^", 7), ("%nwlh", 5), ("%nmZqd", 5), ("%n$12s", 5)] if tier == "quick" else [("%ndslh5.x", 7), ("%n[]^sd", 7), ("%n[]^", 9), ("%nwlhLq", 6), ("%n*c-Ljztd", 6), ("%nmZqIs'", 6), ("%n$12sh", 7)]
    jobs = []
    for alpha, L in sets:
        nsh = 16 if len(alpha) ** L > 50000 else 2
        for fam in ("narrow", "wide"):
            for sh in range(nsh): jobs.append([fam, str(L), alpha, str(sh), str(nsh)])
    def mkjobs(tier):
        sets = [("%ndslh5.x", 5), ("%n[]^s", 5), ("%n[]^", 7), ("%nwlh", 5), ("%nmZqd", 5), ("%n$12s", 5)] if tier == "quick" else [("%ndslh5.x", 7), ("%n[]^sd", 7), ("%n[]^", 9), ("%nwlhLq", 6), ("%n*c-Ljztd", 6), ("%nmZqIs'", 6), ("%n$12sh", 7)]
        jobs = []
        for alpha, L in sets:
            nsh = 16 if len(alpha) ** L > 50000 else 2
            for fam in ("narrow", "wide"):
                for sh in range(nsh): jobs.append([fam, str(L), alpha, str(sh), str(nsh)])
        return jobs
    jobs = [("prod", j) for j in jobs] + ([("dist", j) for j in mkjobs("quick")] if tier == "thorough" else [])
    viol = {}; internal = []; tot = {"formats": 0, "calls": 0, "calls_with_n": 0, "n_rejected": 0}; timed_out = []
    def one(vj):
        v, j = vj
        left = deadline - (time.time() - t0)
        try: return vj, subprocess.run([BIN] + j, capture_output=True, text=True, env=envs[v], timeout=max(5, left))
        except subprocess.TimeoutExpired: timed_out.append(vj); return vj, None
    with ThreadPoolExecutor(16) as ex:
        for (v, j), r in ex.map(one, jobs):
            if r is None: continue
            if r.returncode != 0: internal.append(f"{j}: exit {r.returncode} {r.stderr[-200:]}"); continue
            for ln in r.stdout.splitlines():
                if not ln.startswith("{"): continue
                o = json.loads(ln)
                if o["t"] == "viol": e = viol.setdefault(o["sig"], [0, o["case"], v]); e[0] += o["n"]
                elif o["t"] == "stat":
                    for k in tot: tot[k] += o[k]
    if internal:
        for m in internal[:10]: print("INTERNAL-ERROR:", m, file=sys.stderr)
        return 2
    violations = [common.Violation(sig, "" if v == "prod" else "library build: " + v, f"property=C09\nvariant={v}\nsignature={sig}\ncase={case}\n", n) for sig, (n, case, v) in sorted(viol.items())]
    def confirm(v):
        kv = dict(l.split("=", 1) for l in v.replay_text.strip().splitlines()); return replay(kv, quiet=True) == 1
    cov = {"evaluations": tot["calls"], "distinct_nontrivial": tot["calls_with_n"],
           "rule": "ALL format strings of length 0..L over each alphabet are passed to the 8 narrow + 8 wide printf_s and 6 narrow + 6 wide scanf_s entry points (buffers, memory streams, redirected stdout/stdin); every variadic slot points to its own sentinel block at a low fixed address; oracle: sentinels byte-identical except where the reference parser of the conversion grammar entitles a non-n scanf conversion, and every format with an n conversion is reported; non-trivial = calls whose format contains an n conversion",
           "samples": ["narrow sscanf_s \"%ln\"", "wide swprintf_s \"%%%n\"", "narrow vfscanf_s \"%d%5n\"", "wide fwscanf_s \"%%[%n\"", "narrow printf_s \"%.hhn\""],
           "alphabets": [{"alphabet": a, "max_length": L} for a, L in sets], "formats": tot["formats"], "formats_with_n_rejected_calls": tot["n_rejected"], "jobs_timed_out": len(timed_out), "library_builds": sorted(envs)}
    return common.finish("C09", tier, t0, cov, violations, ["glibc printf/scanf store through arguments only for conversions (n for printf)", "the harness's reference parser (60 lines) implements the C conversion grammar; formats it cannot parse are judged only on slots before the unparsable directive"], confirm=confirm, exhaustive=not timed_out)


def replay(kv, quiet=False):
    build(); c = kv["case"].split()
    r = subprocess.run([BIN, "replay"] + c + ["x"], capture_output=True, text=True, env=dict(os.environ, CAT_LIB=vbuild.build(kv.get("variant", "prod"))))
    if not quiet: sys.stdout.write(r.stdout); sys.stdout.write(r.stderr)
    return r.returncode
