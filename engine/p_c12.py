"""C12: reentrancy. (1) footprint of every catalogue call in the library's static storage (cat harness, P=12:
segment bit-identical before/after each call of the lattice) and of the C12 op set under the page-trap
logger; (2) exhaustive preemption-bounded exploration of all interleavings (scheduling point = each
instruction touching the library's .data/.bss) of op pairs (thorough: bound 2, triples, two ops/thread)."""
import os, sys, json, time, subprocess, itertools
from concurrent.futures import ThreadPoolExecutor
from . import vbuild, common, catcheck
ROOT = common.ROOT
BIN = os.path.join(ROOT, "build", "trapvm", "c12")
SRC = [os.path.join(ROOT, "engine", "trapvm", f) for f in ("c12.c", "trapvm.c", "trapvm.h")]


def build():
    common.cc(BIN, SRC[:2], ["-O1", "-g", "-Wall", "-Wno-unused-function", "-pthread", "-rdynamic"], deps=SRC[2:] + [os.path.join(ROOT, "engine", "denylist.h")])
    return BIN


def run(tier, deadline):
    t0 = time.time()
    build(); catcheck.build_harness()
    lib = vbuild.build("prod")
    env = dict(os.environ, CAT_LIB=lib, C12_TMPDIR=os.path.join(ROOT, "build", "trapvm"))
    ops = subprocess.run([BIN, "list"], capture_output=True, text=True).stdout.split()
    viol = {}
    internal = []
    samples = []
    # ---- pass 1a: op footprints under the trap logger
    r = subprocess.run([BIN, tier, "footprint"], capture_output=True, text=True, env=env)
    fp = []
    for ln in r.stdout.splitlines():
        if ln.startswith("{"):
            j = json.loads(ln)
            if j["t"] == "viol": viol.setdefault(j["sig"], [0, j["case"]])[0] += 1
            elif j["t"] == "fp": fp.append(j)
    if r.returncode != 0: internal.append("footprint pass exit %d %s" % (r.returncode, r.stderr[-300:]))
    # ---- pass 1b: every catalogue call leaves the static segment bit-identical (cat harness P=12)
    fns = [n for n, fl in catcheck.fn_list()]
    cat_evals = [0]
    def catone(name):
        rr = subprocess.run([catcheck.CAT, "run", "C12", tier, "prod", "C", name], capture_output=True, text=True,
                            env=dict(env, CAT_N="3" if tier == "quick" else "5"), timeout=max(10, deadline - (time.time() - t0)))
        return name, rr
    with ThreadPoolExecutor(16) as ex:
        for name, rr in ex.map(catone, fns):
            if rr.returncode != 0: internal.append(f"cat {name}: exit {rr.returncode} {rr.stderr[-200:]}"); continue
            for ln in rr.stdout.splitlines():
                if not ln.startswith("{"): continue
                j = json.loads(ln)
                if j["t"] == "viol": viol.setdefault(j["sig"], [0, "cat " + j["case"]])[0] += j["n"]
                elif j["t"] == "stat": cat_evals[0] += j["evaluations"]
    # ---- pass 1d: a call that fails in one thread leaves nothing behind that blocks another (the C library's stream lock is state no snapshot of the library's data shows)
    from . import clientmatrix
    lock_lines = 0
    for cc, opt in ((("gcc", "O2"),) if tier == "quick" else (("gcc", "O0"), ("gcc", "O2"), ("clang", "O2"))):
        out, err = clientmatrix.build_run(os.path.join(clientmatrix.CDIR, "lockclient.c"), cc, opt)
        if out is None: internal.append(f"lockclient {cc}-{opt}: {err}"); continue
        lock_lines += sum(1 for l in out.splitlines() if l.startswith("S "))
        for l in clientmatrix.wrong_lines(out):
            w = l.split(); viol.setdefault(f"C12|client|{w[1]}|{cc}-{opt}", [0, f"client lockclient {cc} {opt}"])[0] += 1
    # ---- pass 1c: no store touches a byte outside the addressed range (hardware write watchpoints on the neighbouring bytes): an invented store -
    # a word read, modified and written back - would undo what another thread writes to bytes it owns in the same word
    ip = os.path.join(ROOT, "build", "c18", "inplace"); os.makedirs(os.path.dirname(ip), exist_ok=True)
    common.cc(ip, [os.path.join(ROOT, "engine", "c18", "inplace.c")], ["-O1", "-g", "-w", "-ldl"])
    watch_calls = 0
    for wlib in (("prod",) if tier == "quick" else ("prod", "O2", "clangO2")):
        rw = subprocess.run([ip, "80"], capture_output=True, text=True, env=dict(os.environ, CAT_LIB=vbuild.build(wlib), C12_WATCH="1"))
        if rw.returncode != 0: internal.append(f"watchpoint pass {wlib}: exit {rw.returncode} {rw.stderr[-200:]}"); continue
        for ln in rw.stdout.splitlines():
            if not ln.startswith("{"): continue
            j = json.loads(ln)
            if j["t"] == "viol": viol.setdefault(j["sig"] + ("" if wlib == "prod" else "|lib=" + wlib), [0, f"watch {wlib} " + j["case"]])[0] += j["n"]
            elif j["t"] == "stat": watch_calls += j["calls"]
    # ---- pass 2: interleavings
    jobs = []
    for a, b in itertools.combinations_with_replacement(ops, 2):
        jobs.append((2, 1, [a, b]))
    if tier == "thorough":
        writers = sorted({f["op"] for f in fp if f["accesses"] > 0})
        core = ["qsort_int", "asctime26", "sprintf_Lf", "strcpy_fail", "swprintf_small", "tmpfile"]
        for tri in itertools.combinations_with_replacement(sorted(set(writers) | set(core)), 3):
            jobs.append((3, 1, list(tri)))
        for a, b in itertools.combinations_with_replacement(core, 2):
            jobs.append((2, 2, [a, b, b, a]))
    stats = {"schedules": 0, "states": 0, "transitions": 0, "pruned": 0, "max_points": 0, "pairs": 0, "outcomes_max": 0, "pairs_with_points": 0}
    timed_out = []
    def one(job):
        n, per, ol = job
        left = deadline - (time.time() - t0)
        if left < 5: timed_out.append(job); return job, None
        e2 = dict(env)
        if tier == "thorough" and n == 3: e2["C12_BOUND"] = "1"
        try:
            return job, subprocess.run([BIN, tier, "pair", str(n), str(per)] + ol, capture_output=True, text=True, env=e2, timeout=left)
        except subprocess.TimeoutExpired:
            timed_out.append(job); return job, None
    with ThreadPoolExecutor(16) as ex:
        for job, rr in ex.map(one, jobs):
            if rr is None: continue
            if rr.returncode not in (0, 4): internal.append(f"pair {job}: exit {rr.returncode} {rr.stdout[-200:]} {rr.stderr[-200:]}"); continue
            for ln in rr.stdout.splitlines():
                if not ln.startswith("{"): continue
                j = json.loads(ln)
                if j["t"] == "viol": viol.setdefault(j["sig"], [0, j["case"]])[0] += 1
                elif j["t"] == "stat":
                    stats["pairs"] += 1
                    for k in ("schedules", "states", "transitions", "pruned"): stats[k] += j[k]
                    stats["max_points"] = max(stats["max_points"], j["max_points"]); stats["outcomes_max"] = max(stats["outcomes_max"], j["outcomes"])
                    if j["max_points"] > 1: stats["pairs_with_points"] += 1
                    if len(samples) < 10 and j["max_points"] > 1: samples.append({"threads": j["threads"], "ops": j["ops"], "bound": j["bound"], "schedules": j["schedules"], "scheduling_points": j["max_points"]})
                elif j["t"] == "internal": internal.append(f"pair {job}: {j['msg']}")
    if internal:
        for m in internal[:10]: print("INTERNAL-ERROR:", m, file=sys.stderr)
        return 2
    violations = [common.Violation(sig, "", f"property=C12\nsignature={sig}\ncase={case}\n", n) for sig, (n, case) in sorted(viol.items())]
    def confirm(v):
        kv = dict(l.split("=", 1) for l in v.replay_text.strip().splitlines())
        return replay(kv, quiet=True) in (1, 4)
    cov = {"states": max(1, stats["states"]), "transitions": max(1, stats["transitions"]),
           "traces_validated_against_impl": stats["schedules"],
           "samples": samples or [{"ops": "strcpy memcpy", "note": "no scheduling points"}],
           "schedules": stats["schedules"], "thread_sets_explored": stats["pairs"], "thread_sets_with_scheduling_points": stats["pairs_with_points"],
           "max_scheduling_points_per_execution": stats["max_points"], "distinct_outcome_vectors_max": stats["outcomes_max"],
           "preemption_bound": 2 if tier == "thorough" else 1, "pruned_by_state_hash": stats["pruned"],
           "op_footprints": [{k: f[k] for k in ("op", "v", "accesses", "writes", "first_written", "changed_bytes")} for f in fp if f["accesses"]],
           "catalogue_calls_checked_for_static_footprint": cat_evals[0], "evaluations": cat_evals[0] + stats["schedules"],
           "distinct_nontrivial": stats["states"],
           "rule": "lock client: each of printf_s, vprintf_s, fprintf_s, vfprintf_s fails in one thread (device full), the same entry point on the same stream in a second thread must return; watchpoint pass: every erase/fill entry point x n 1..72 x start offset 0..15 with hardware write watchpoints on the byte in front of and the byte behind the addressed range (a store that writes a neighbouring byte back unchanged is counted too); scheduling point = every instruction that touches libsafec's .data/.bss (page-trap + single-step); DFS over choice sequences with iterative preemption bound and state-hash pruning (dirty static pages + per-thread read history + progress); oracle: every op's return value and output bytes equal its solo run; footprint: static segment bit-identical before/after every call",
           "thread_sets_timed_out": len(timed_out)}
    assumptions = ["x86-64 Linux page-fault error code and trap flag semantics", "thread-private operands are really private (stack/TLS buffers of the harness)",
                   "libc functions with static state by contract are not called by the explored ops (asctime_r/ctime_r/strerror_r variants are used by the library)"]
    return common.finish("C12", tier, t0, cov, violations, assumptions, confirm=confirm, exhaustive=not timed_out)


def replay(kv, quiet=False):
    build(); catcheck.build_harness()
    lib = vbuild.build("prod")
    env = dict(os.environ, CAT_LIB=lib, C12_TMPDIR=os.path.join(ROOT, "build", "trapvm"))
    case = kv["case"]
    if case.startswith("client "):
        from . import clientmatrix
        c = case.split(); out, err = clientmatrix.build_run(os.path.join(clientmatrix.CDIR, c[1] + ".c"), c[2], c[3])
        if out is None: print("INTERNAL-ERROR:", err); return 2
        if not quiet: sys.stdout.write(out)
        bad = bool(clientmatrix.wrong_lines(out))
        if not quiet: print("VERDICT violation" if bad else "VERDICT ok")
        return 1 if bad else 0
    if case.startswith("watch "):
        c = case.split(); ip = os.path.join(ROOT, "build", "c18", "inplace"); common.cc(ip, [os.path.join(ROOT, "engine", "c18", "inplace.c")], ["-O1", "-g", "-w", "-ldl"])
        r = subprocess.run([ip, "replay"] + c[2:], capture_output=True, text=True, env=dict(os.environ, CAT_LIB=vbuild.build(c[1]), C12_WATCH="1"))
    elif case.startswith("replay "):
        r = subprocess.run([BIN, "quick"] + case.split(), capture_output=True, text=True, env=env)
    elif case.startswith("footprint "):
        r = subprocess.run([BIN, "quick", "footprint"], capture_output=True, text=True, env=env)
        r.returncode = 1 if kv["signature"] in r.stdout else 0
    else:
        r = subprocess.run([catcheck.CAT, "replay", "C12", "prod", "C", case[4:]], capture_output=True, text=True, env=env)
    if not quiet:
        sys.stdout.write(r.stdout); sys.stderr.write(r.stderr)
    return r.returncode
