/* trapvm.h - scheduling / tracing by page protection of the library's own writable static storage.
 * Every load or store to libsafec's .data/.bss raises SIGSEGV; the handler is a scheduling point
 * (scheduler mode) or a log entry (log mode); the instruction is then single-stepped with the
 * x86 trap flag and the segment re-protected. */
#ifndef TRAPVM_H
#define TRAPVM_H
#include <stddef.h>
#include <stdint.h>

typedef struct { void *addr; void *pc; int write; int tid; } TvAccess;

int  tv_init(const char *libname_substr);          /* locate the segment; 0 = ok */
unsigned char *tv_seg_start(void);
size_t tv_seg_size(void);
const char *tv_symbolize(void *addr, char *buf, size_t n);   /* static-storage symbol+offset */
const char *tv_symbolize_pc(void *pc, char *buf, size_t n);

/* ---- log mode (single thread): protect, run, unprotect */
void tv_log_begin(void);
int  tv_log_end(TvAccess **out);                   /* number of accesses; *out valid until next begin */
void tv_snapshot(void);                            /* remember the segment bytes */
int  tv_diff(size_t *first_off, size_t *nbytes);   /* compare with the snapshot: number of differing bytes */
void tv_restore(void);                             /* write the snapshot back */

/* ---- scheduler mode */
#define TV_MAXT 4
#define TV_MAXPOINTS 20000
typedef void (*tv_body)(int tid, void *arg);
typedef struct {
    int npoints;
    unsigned char nen[TV_MAXPOINTS];      /* number of enabled threads at the point */
    unsigned char run_en[TV_MAXPOINTS];   /* running thread still enabled at the point */
    unsigned char choice[TV_MAXPOINTS];   /* index taken (canonical order: running first, then ascending) */
    unsigned char tid_chosen[TV_MAXPOINTS];
    uint64_t state[TV_MAXPOINTS];         /* state hash before the choice */
    int hang;                             /* no progress: harness deadlock */
    int naccess;                          /* static accesses observed */
    int infeasible;                       /* a replayed prefix choice was out of range */
} TvTrace;
/* runs nthreads bodies under the serialising scheduler; choices beyond the prefix default to 0 */
int tv_run(int nthreads, tv_body *bodies, void **args, const unsigned char *prefix, int nprefix, TvTrace *tr);
#endif
