/* c12.c - C12 reentrancy: (1) footprint of each op in the library's static storage, (2) exhaustive
 * preemption-bounded exploration of all interleavings of op pairs/triples at static-access granularity.
 * usage: c12 <tier> [pair <a> <b> | replay <a> <b> <choices-hex> | list]
 * env CAT_LIB = path of libsafec.so (prod variant) */
#define _GNU_SOURCE
#include "trapvm.h"
#include <stdio.h>
#include <stdlib.h>
#include <string.h>
#include <dlfcn.h>
#include <wchar.h>
#include <time.h>
#include <errno.h>
#include <stdarg.h>
#include <unistd.h>

#define BOSU ((size_t)-1)
typedef struct { int v; unsigned char out[600]; int outn; long rc; } OpCtx;
typedef void (*OpFn)(OpCtx *);
static void put(OpCtx *c, const void *p, size_t n) { if (c->outn + n > sizeof c->out) n = sizeof c->out - c->outn; memcpy(c->out + c->outn, p, n); c->outn += n; }

static void *L;
static __thread OpCtx *cur_op;
static void h_probe(const char *msg, void *ptr, int err) { (void)msg; (void)ptr; if (cur_op) { unsigned char b[2] = { 0xC5, (unsigned char)(err & 0xff) }; put(cur_op, b, 2); } }
#define SYM(name) static __typeof__(name##_t) *name##_p
#define LOAD(name, sym) name##_p = dlsym(L, sym); if (!name##_p) { fprintf(stderr, "missing %s\n", sym); exit(2); }
typedef int qsort_t(void *, size_t, size_t, int (*)(const void *, const void *, void *), void *, size_t);
typedef int asctime_t(char *, size_t, const struct tm *, size_t);
typedef int ctime_t(char *, size_t, const time_t *, size_t);
typedef int sprintf_t(char *, size_t, size_t, const char *, ...);
typedef int swprintf_t(wchar_t *, size_t, size_t, const wchar_t *, ...);
typedef int tmpfile_t(FILE **);
typedef int strcpy_t(char *, size_t, const char *, size_t);
typedef int memcpy_t(void *, size_t, const void *, size_t, size_t, size_t);
typedef struct tm *localtime_t(const time_t *, struct tm *);
typedef int fopen_t(FILE **, const char *, const char *);
typedef char *strtok_t(char *, size_t *, const char *, char **, size_t);
typedef int strerror_t(char *, size_t, int, size_t);
typedef int wcsnorm_t(wchar_t *, size_t, const wchar_t *, int, size_t *, size_t);
typedef struct tm *gmtime_t(const time_t *, struct tm *);
typedef int getenv_t(size_t *, char *, size_t, const char *, size_t);
typedef void *bsearch_t(const void *, const void *, size_t, size_t, int (*)(const void *, const void *, void *), void *, size_t);
typedef int wcsicmp_t(const wchar_t *, size_t, const wchar_t *, size_t, int *, size_t, size_t);
typedef int snprintf_t(char *, size_t, size_t, const char *, ...);
typedef int vswprintf_dummy_t(void);
SYM(qsort); SYM(asctime); SYM(ctime); SYM(sprintf); SYM(swprintf); SYM(tmpfile); SYM(strcpy); SYM(memcpy);
SYM(localtime); SYM(fopen); SYM(strtok); SYM(strerror); SYM(wcsnorm); SYM(gmtime); SYM(getenv); SYM(bsearch); SYM(wcsicmp); SYM(snprintf);
static swprintf_t *snwprintf_p;
static int (*mbstowcs_p)(size_t *, wchar_t *, size_t, const char *, size_t, size_t);
static int (*wcstombs_p)(size_t *, char *, size_t, const wchar_t *, size_t, size_t);
static int (*wctomb_p)(int *, char *, size_t, wchar_t, size_t);

static int cmp_int(const void *a, const void *b, void *ctx) { (void)ctx; int x = *(const int *)a, y = *(const int *)b; return (x > y) - (x < y); }
static int cmp_big(const void *a, const void *b, void *ctx) { (void)ctx; return memcmp(a, b, 4); }

static void op_qsort_int(OpCtx *c) { int a[7] = { 50 + c->v, 40, 30 + c->v, 20, 10 + c->v, 45, 5 }; c->rc = qsort_p(a, 7, sizeof(int), cmp_int, NULL, BOSU); put(c, a, sizeof a); }
static void op_qsort_big(OpCtx *c) {
    static __thread unsigned char a[3][300];
    for (int i = 0; i < 3; i++) memset(a[i], (3 - i) * 16 + c->v, 300);
    c->rc = qsort_p(a, 3, 300, cmp_big, NULL, BOSU); put(c, a, 600);
}
static void mk_tm(struct tm *t, int v) { memset(t, 0, sizeof *t); t->tm_year = 100 + v * 7; t->tm_mon = 3 + v; t->tm_mday = 5 + v; t->tm_hour = 1 + v; t->tm_wday = (2 + v) % 7; }
#include "../denylist.h"
static void op_asctime26(OpCtx *c) { char d[26]; struct tm t; mk_tm(&t, c->v); memset(d, 0x55, sizeof d); c->rc = asctime_p(d, 26, &t, BOSU); put(c, d, 26); }
static void op_asctime130(OpCtx *c) { char d[130]; struct tm t; mk_tm(&t, c->v); memset(d, 0x55, sizeof d); c->rc = asctime_p(d, 130, &t, BOSU); put(c, d, 130); }
static void op_ctime(OpCtx *c) { char d[26]; time_t t = 1000000000 + c->v * 86400 * 400; memset(d, 0x55, sizeof d); c->rc = ctime_p(d, 26, &t, BOSU); put(c, d, 26); }
static void op_ctime_far(OpCtx *c) { char d[64]; time_t t = 253402300800LL + 86400LL * 400 * (c->v + 1); memset(d, 0x55, sizeof d); c->rc = ctime_p(d, 64, &t, BOSU); put(c, d, 64); }
static void op_localtime(OpCtx *c) { struct tm tmv; time_t t = 1000000000 + c->v * 86400 * 400; memset(&tmv, 0x55, sizeof tmv); void *r = localtime_p(&t, &tmv); c->rc = r != NULL; put(c, &tmv.tm_year, sizeof(int)); put(c, &tmv.tm_yday, sizeof(int)); }
static void op_fopen_w(OpCtx *c) { char path[256]; snprintf(path, sizeof path, "%s/c12-fopen-%d-%d.tmp", getenv("C12_TMPDIR") ? getenv("C12_TMPDIR") : ".", (int)getpid(), c->v); FILE *f = NULL; c->rc = fopen_p(&f, path, "w"); struct stat st; int mode = -1; if (f) { fclose(f); if (!stat(path, &st)) mode = st.st_mode & 0777; unlink(path); } put(c, &mode, sizeof mode); }
static void op_sprintf_Lf(OpCtx *c) { char d[64]; memset(d, 0x55, 64); c->rc = sprintf_p(d, 64, BOSU, "%Lf|%d", (long double)(1.5 + c->v), 7 + c->v); put(c, d, 64); }
static void op_sprintf_a(OpCtx *c) { char d[64]; memset(d, 0x55, 64); c->rc = sprintf_p(d, 64, BOSU, "%a|%d", 1.5 + c->v, 7 + c->v); put(c, d, 64); }
static void op_sprintf_big(OpCtx *c) { char d[64]; memset(d, 0x55, 64); c->rc = sprintf_p(d, 64, BOSU, "%f|", 1e10 + 12345.0 * (c->v + 1)); put(c, d, 64); }
static void op_sprintf_e(OpCtx *c) { char d[64]; memset(d, 0x55, 64); c->rc = sprintf_p(d, 64, BOSU, "%e|%g", 1234.5 + c->v, 0.0001 * (c->v + 1)); put(c, d, 64); }
static void op_sprintf_d(OpCtx *c) { char d[64]; memset(d, 0x55, 64); c->rc = sprintf_p(d, 64, BOSU, "%d %s %x", 12345 + c->v, c->v ? "two" : "one", 0xabc + c->v); put(c, d, 64); }
static void op_sprintf_ls(OpCtx *c) { char d[64]; memset(d, 0x55, 64); c->rc = sprintf_p(d, 64, BOSU, "<%ls>", c->v ? L"wxyz" : L"abc"); put(c, d, 64); }
static void op_swprintf_small(OpCtx *c) { wchar_t d[4]; memset(d, 0x55, sizeof d); c->rc = swprintf_p(d, 4, BOSU, L"%d", 123456 + c->v); put(c, d, sizeof d); }
static void op_swprintf_ok(OpCtx *c) { wchar_t d[16]; memset(d, 0x55, sizeof d); c->rc = swprintf_p(d, 16, BOSU, L"%d-%ls", 77 + c->v, c->v ? L"q" : L"r"); put(c, d, sizeof d); }
static void op_snwprintf_small(OpCtx *c) { wchar_t d[4]; memset(d, 0x55, sizeof d); c->rc = snwprintf_p(d, 4, BOSU, L"%d", 123456 + c->v); put(c, d, sizeof d); }
static void op_tmpfile(OpCtx *c) { FILE *f = NULL; c->rc = tmpfile_p(&f); int ok = f != NULL; if (f) fclose(f); put(c, &ok, sizeof ok); }
static void op_strcpy(OpCtx *c) { char d[16]; memset(d, 0x55, 16); c->rc = strcpy_p(d, 16, c->v ? "second" : "first", BOSU); put(c, d, 16); }
static void op_strcpy_fail(OpCtx *c) { char d[4]; memset(d, 0x55, 4); c->rc = strcpy_p(d, 4, c->v ? "second" : "first", BOSU); put(c, d, 4); }
static void op_memcpy_fail(OpCtx *c) { char d[4]; memset(d, 0x55, 4); c->rc = memcpy_p(d, 4, c->v ? "0123456789" : "abcdefghij", 10, BOSU, BOSU); put(c, d, 4); }
static void op_memcpy(OpCtx *c) { char d[16]; memset(d, 0x55, 16); c->rc = memcpy_p(d, 16, c->v ? "0123456789" : "abcdefghij", 10, BOSU, BOSU); put(c, d, 16); }
static void op_strtok(OpCtx *c) {
    char s[24]; strcpy(s, c->v ? "x,yy;zzz" : "aa;b,cc,d"); size_t n = sizeof s; char *p = NULL; char *t;
    t = strtok_p(s, &n, ",;", &p, BOSU);
    while (t) { put(c, t, strlen(t) + 1); t = strtok_p(NULL, &n, ",;", &p, BOSU); }
    c->rc = n;
}
static void op_strerror(OpCtx *c) { char d[64]; memset(d, 0x55, 64); c->rc = strerror_p(d, 64, c->v ? 404 : 2, BOSU); put(c, d, 64); }
static void op_wcsnorm(OpCtx *c) { wchar_t d[16]; size_t len = 0; memset(d, 0x55, sizeof d); c->rc = wcsnorm_p(d, 16, c->v ? L"e\x0301" L"x" : L"\x00e9" L"y", c->v ? 1 : 0, &len, BOSU); put(c, d, sizeof d); put(c, &len, sizeof len); }
static void op_gmtime(OpCtx *c) { struct tm t; time_t tt = 86400 * (365 + c->v * 1000); memset(&t, 0, sizeof t); struct tm *r = gmtime_p(&tt, &t); c->rc = r != NULL; put(c, &t.tm_year, sizeof(int)); put(c, &t.tm_yday, sizeof(int)); }
static void op_getenv(OpCtx *c) { char d[32]; size_t len = 0; memset(d, 0x55, 32); c->rc = getenv_p(&len, d, 32, c->v ? "VERIF_ENV_B" : "VERIF_ENV_A", BOSU); put(c, d, 32); put(c, &len, sizeof len); }
static void op_bsearch(OpCtx *c) { int a[5] = { 1, 3, 5, 7, 9 }; int k = c->v ? 7 : 4; int *r = bsearch_p(&k, a, 5, sizeof(int), cmp_int, NULL, BOSU); c->rc = r ? r - a : -1; }
static void op_wcsicmp(OpCtx *c) { int r = 99; c->rc = wcsicmp_p(c->v ? L"HeLLo wOrld" : L"abcDEF ghij", 12, c->v ? L"hello World" : L"ABCdef GHIK", 12, &r, BOSU, BOSU); put(c, &r, sizeof r); }
static void op_snprintf_trunc(OpCtx *c) { char d[8]; memset(d, 0x55, 8); c->rc = snprintf_p(d, 8, BOSU, "%s-%d", c->v ? "longer-text" : "other-words", 5 + c->v); put(c, d, 8); }

static void op_sprintf_lc(OpCtx *c) { char d[32]; memset(d, 0x55, 32); c->rc = sprintf_p(d, 32, BOSU, "<%lc|%c>", (wint_t)(c->v ? L'q' : L'r'), 'x' + c->v); put(c, d, 32); }
static void op_mbstowcs(OpCtx *c) { wchar_t d[12]; size_t r = 0; memset(d, 0x55, sizeof d); c->rc = mbstowcs_p(&r, d, 12, c->v ? "second str" : "first", 12, BOSU); put(c, d, sizeof d); put(c, &r, sizeof r); }
static void op_mbstowcs_count(OpCtx *c) { size_t r = 0; c->rc = mbstowcs_p(&r, NULL, 0, c->v ? "second str" : "first", 0, BOSU); put(c, &r, sizeof r); }
static void op_wcstombs(OpCtx *c) { char d[12]; size_t r = 0; memset(d, 0x55, sizeof d); c->rc = wcstombs_p(&r, d, 12, c->v ? L"second str" : L"first", 12, BOSU); put(c, d, sizeof d); put(c, &r, sizeof r); }
static void op_wctomb(OpCtx *c) { char d[8]; int r = 0; memset(d, 0x55, sizeof d); c->rc = wctomb_p(&r, d, 8, c->v ? L'q' : L'r', BOSU); put(c, d, sizeof d); put(c, &r, sizeof r); }

static struct { const char *name; OpFn fn; } ops[] = {
    { "qsort_int", op_qsort_int }, { "qsort_big", op_qsort_big }, { "asctime26", op_asctime26 }, { "asctime130", op_asctime130 },
    { "ctime", op_ctime }, { "ctime_far", op_ctime_far }, { "localtime", op_localtime }, { "fopen_w", op_fopen_w }, { "sprintf_Lf", op_sprintf_Lf }, { "sprintf_a", op_sprintf_a }, { "sprintf_big", op_sprintf_big },
    { "sprintf_e", op_sprintf_e }, { "sprintf_d", op_sprintf_d }, { "sprintf_ls", op_sprintf_ls }, { "swprintf_small", op_swprintf_small },
    { "swprintf_ok", op_swprintf_ok }, { "snwprintf_small", op_snwprintf_small }, { "tmpfile", op_tmpfile }, { "strcpy", op_strcpy },
    { "strcpy_fail", op_strcpy_fail }, { "memcpy_fail", op_memcpy_fail }, { "memcpy", op_memcpy }, { "strtok", op_strtok }, { "strerror", op_strerror },
    { "wcsnorm", op_wcsnorm }, { "gmtime", op_gmtime }, { "getenv", op_getenv }, { "bsearch", op_bsearch }, { "wcsicmp", op_wcsicmp },
    { "snprintf_trunc", op_snprintf_trunc }, { "sprintf_lc", op_sprintf_lc }, { "mbstowcs", op_mbstowcs }, { "mbstowcs_count", op_mbstowcs_count }, { "wcstombs", op_wcstombs }, { "wctomb", op_wctomb },
};
#define NOPS ((int)(sizeof ops / sizeof ops[0]))

/* ---------------------------------------------------------------- thread bodies */
#define MAXSEQ 2
typedef struct { int nops; int op[MAXSEQ]; int v; OpCtx res[MAXSEQ]; } Body;
static void body(int tid, void *arg) {
    (void)tid; Body *b = arg;
    for (int i = 0; i < b->nops; i++) { OpCtx *c = &b->res[i]; memset(c, 0, sizeof *c); c->v = b->v; cur_op = c; ops[b->op[i]].fn(c); cur_op = NULL; }
}
static OpCtx solo[NOPS][TV_MAXT];   /* expected result of op x with variant v, run alone */

/* ---------------------------------------------------------------- explorer */
static long n_sched, n_points_max, n_states, n_trans, n_pruned;
static int bound = 1;
#define VIS_BITS 22
static uint64_t *vis_key; static unsigned char *vis_val;   /* open addressing: state -> min preemptions used when expanded */
static int vis_check_insert(uint64_t k, int used) {   /* 1 = already expanded with <= used */
    if (!k) k = 1;
    size_t m = ((size_t)1 << VIS_BITS) - 1, i = (k * 0x9E3779B97F4A7C15ULL) >> (64 - VIS_BITS);
    for (;;) {
        if (!vis_key[i]) { vis_key[i] = k; vis_val[i] = used; n_states++; return 0; }
        if (vis_key[i] == k) { if (vis_val[i] <= used) return 1; vis_val[i] = used; return 0; }
        i = (i + 1) & m;
    }
}
static int nthreads; static Body bodies_[TV_MAXT]; static tv_body bfn[TV_MAXT]; static void *bargs[TV_MAXT];
static char viol_sig[256]; static unsigned char viol_choices[TV_MAXPOINTS]; static int viol_n; static int have_viol;
static long outcome_hashes[64]; static int n_outcomes;

static TvTrace *cur_tr; static char cur_names[256]; static int cur_n, cur_per;
#include <signal.h>
static void on_crash(int sig) {
    /* a fault outside the static segment while exploring: the interleaving corrupted memory */
    char hx[TV_MAXPOINTS + 1]; int n = cur_tr ? cur_tr->npoints : 0; for (int i = 0; i < n; i++) hx[i] = '0' + cur_tr->choice[i]; hx[n] = 0;
    char buf[TV_MAXPOINTS + 600];
    int l = snprintf(buf, sizeof buf, "{\"t\":\"viol\",\"sig\":\"C12|interleave|crash-signal-%d|%s\",\"case\":\"replay %d %d %s %s\"}\n", sig, cur_names, cur_n, cur_per, cur_names, hx);
    if (write(1, buf, l)) {}
    _exit(4);
}
static int run_once(const unsigned char *prefix, int np, TvTrace *tr) {
    cur_tr = tr;
    tv_restore();
    if (tv_run(nthreads, bfn, bargs, prefix, np, tr) < 0) { printf("{\"t\":\"internal\",\"msg\":\"harness deadlock (hang)\"}\n"); fflush(stdout); _exit(3); }
    if (tr->infeasible) { printf("{\"t\":\"internal\",\"msg\":\"infeasible replay choice\"}\n"); fflush(stdout); _exit(3); }
    n_sched++;
    if (tr->npoints > n_points_max) n_points_max = tr->npoints;
    /* oracle: every op result equals its solo result */
    long oh = 0;
    for (int t = 0; t < nthreads; t++) for (int i = 0; i < bodies_[t].nops; i++) {
        OpCtx *got = &bodies_[t].res[i], *want = &solo[bodies_[t].op[i]][bodies_[t].v];
        oh = oh * 31 + got->rc; for (int k = 0; k < got->outn; k++) oh = oh * 131 + got->out[k];
        if (got->rc != want->rc || got->outn != want->outn || memcmp(got->out, want->out, got->outn)) {
            if (!have_viol) {
                have_viol = 1;
                /* culprit: the other thread's op */
                snprintf(viol_sig, sizeof viol_sig, "C12|interleave|victim=%s|with=%s", ops[bodies_[t].op[i]].name,
                         ops[bodies_[(t + 1) % nthreads].op[0]].name);
                viol_n = tr->npoints; memcpy(viol_choices, tr->choice, tr->npoints);
            }
        }
    }
    int k; for (k = 0; k < n_outcomes; k++) if (outcome_hashes[k] == oh) break;
    if (k == n_outcomes && n_outcomes < 64) outcome_hashes[n_outcomes++] = oh;
    return 0;
}

static void explore(const unsigned char *prefix, int np) {
    static TvTrace trs[8]; static int depth;
    TvTrace *tr;
    if (depth < 8) tr = &trs[depth]; else tr = malloc(sizeof *tr);
    depth++;
    run_once(prefix, np, tr);
    /* preemptions used before each point */
    int used = 0;
    unsigned char *pfx = malloc(tr->npoints + 1);
    for (int i = 0; i < tr->npoints; i++) {
        int cost_here = (tr->run_en[i] && tr->choice[i] != 0) ? 1 : 0;
        if (i >= np) {
            if (vis_check_insert(tr->state[i] ^ ((uint64_t)i << 48), used)) { n_pruned++; break; }   /* state already expanded with as much budget */
            for (int alt = 1; alt < tr->nen[i]; alt++) {
                int cost = used + (tr->run_en[i] ? 1 : 0);
                if (cost > bound) continue;
                memcpy(pfx, tr->choice, i); pfx[i] = alt;
                n_trans++;
                explore(pfx, i + 1);
                if (have_viol) goto out;
            }
        }
        used += cost_here;
    }
out:
    free(pfx);
    depth--;
    if (depth >= 8) free(tr);
}

static void run_solo_all(void) {
    for (int o = 0; o < NOPS; o++) for (int v = 0; v < TV_MAXT; v++) { OpCtx *c = &solo[o][v]; memset(c, 0, sizeof *c); c->v = v; tv_restore(); cur_op = c; ops[o].fn(c); cur_op = NULL; }
    tv_restore();
}

static void footprint(void) {
    char b1[128], b2[128];
    for (int o = 0; o < NOPS; o++) for (int v = 0; v < 2; v++) {
        OpCtx c; memset(&c, 0, sizeof c); c.v = v;
        tv_restore();
        TvAccess *al;
        deny_hit = NULL; in_op = 1;
        tv_log_begin(); ops[o].fn(&c); int n = tv_log_end(&al);
        in_op = 0;
        if (deny_hit && !strcmp(ops[o].name, "wctomb") && !strcmp(deny_hit, "wctomb")) deny_hit = NULL;   /* wctomb_s is specified (K.3.6.4.1) as the non-restartable converter with an internal state: that one use is its interface, not hidden state */
        if (deny_hit) printf("{\"t\":\"viol\",\"sig\":\"C12|process-wide-state|%s|calls-%s\",\"case\":\"footprint %s %d\"}\n", ops[o].name, deny_hit, ops[o].name, v);
        size_t first, nb; int d = tv_diff(&first, &nb);
        int nw = 0; char wsym[128] = "";
        for (int i = 0; i < n; i++) if (al[i].write) { if (!nw) { tv_symbolize(al[i].addr, wsym, sizeof wsym); char *plus = strchr(wsym, '+'); if (plus) *plus = 0; } nw++; }
        printf("{\"t\":\"fp\",\"op\":\"%s\",\"v\":%d,\"accesses\":%d,\"writes\":%d,\"first_written\":\"%s\",\"changed_bytes\":%zu}\n", ops[o].name, v, n, nw, wsym, d ? nb : 0);
        if (d) {
            tv_symbolize(tv_seg_start() + first, b1, sizeof b1); char *plus = strchr(b1, '+'); if (plus) *plus = 0;
            printf("{\"t\":\"viol\",\"sig\":\"C12|footprint|%s|changed=%s\",\"case\":\"footprint %s %d\"}\n", ops[o].name, b1, ops[o].name, v);
        } else if (nw) {
            (void)b2;
            printf("{\"t\":\"viol\",\"sig\":\"C12|static-scratch|%s|written=%s\",\"case\":\"footprint %s %d\"}\n", ops[o].name, wsym, ops[o].name, v);
        }
    }
    tv_restore();
}

static int opidx(const char *n) { for (int i = 0; i < NOPS; i++) if (!strcmp(ops[i].name, n)) return i; fprintf(stderr, "unknown op %s\n", n); exit(2); }

static void setup_threads(int n, const int *opl, int per) {
    nthreads = n;
    for (int t = 0; t < n; t++) { bodies_[t].nops = per; for (int i = 0; i < per; i++) bodies_[t].op[i] = opl[t * per + i]; bodies_[t].v = t; bfn[t] = body; bargs[t] = &bodies_[t]; }
}

int main(int argc, char **argv) {
    setvbuf(stdout, NULL, _IOLBF, 0);
    setenv("TZ", "UTC", 1); setenv("VERIF_ENV_A", "alpha", 1); setenv("VERIF_ENV_B", "bravo-bravo", 1);
    if (argc >= 2 && !strcmp(argv[1], "list")) { for (int i = 0; i < NOPS; i++) printf("%s\n", ops[i].name); return 0; }
    L = dlopen(getenv("CAT_LIB"), RTLD_NOW | RTLD_GLOBAL);
    if (!L) { fprintf(stderr, "cannot load CAT_LIB: %s\n", dlerror()); return 2; }
    LOAD(qsort, "_qsort_s_chk"); LOAD(asctime, "_asctime_s_chk"); LOAD(ctime, "_ctime_s_chk"); LOAD(sprintf, "_sprintf_s_chk");
    LOAD(swprintf, "_swprintf_s_chk"); LOAD(tmpfile, "tmpfile_s"); LOAD(strcpy, "_strcpy_s_chk"); LOAD(memcpy, "_memcpy_s_chk");
    LOAD(localtime, "localtime_s"); LOAD(fopen, "fopen_s"); LOAD(strtok, "_strtok_s_chk"); LOAD(strerror, "_strerror_s_chk"); LOAD(wcsnorm, "_wcsnorm_s_chk"); LOAD(gmtime, "gmtime_s");
    LOAD(getenv, "_getenv_s_chk"); LOAD(bsearch, "_bsearch_s_chk"); LOAD(wcsicmp, "_wcsicmp_s_chk"); LOAD(snprintf, "_snprintf_s_chk");
    snwprintf_p = dlsym(L, "_snwprintf_s_chk"); if (!snwprintf_p) { fprintf(stderr, "missing snwprintf\n"); return 2; }
    mbstowcs_p = dlsym(L, "_mbstowcs_s_chk"); wcstombs_p = dlsym(L, "_wcstombs_s_chk"); wctomb_p = dlsym(L, "_wctomb_s_chk");
    if (!mbstowcs_p || !wcstombs_p || !wctomb_p) { fprintf(stderr, "missing converters\n"); return 2; }
    {   /* counting handlers through the public API: each thread's invocations are part of its result */
        void *(*ss)(void *) = dlsym(L, "set_str_constraint_handler_s"); void *(*sm)(void *) = dlsym(L, "set_mem_constraint_handler_s");
        if (!ss || !sm) { fprintf(stderr, "missing handler registration\n"); return 2; }
        ss((void *)h_probe); sm((void *)h_probe);
    }
    signal(SIGSEGV, on_crash); signal(SIGBUS, on_crash); signal(SIGABRT, on_crash);
    if (tv_init("libsafec")) { fprintf(stderr, "cannot locate the library's writable segment\n"); return 2; }
    tzset();
    /* warm up lazily initialised libc state (locale, tz, stdio) so it is not part of any execution */
    for (int o = 0; o < NOPS; o++) { OpCtx c; memset(&c, 0, sizeof c); ops[o].fn(&c); }
    tv_snapshot();
    const char *cmd = argc >= 3 ? argv[2] : "";
    bound = !strcmp(argv[1], "thorough") ? 2 : 1;
    if (getenv("C12_BOUND")) bound = atoi(getenv("C12_BOUND"));
    vis_key = calloc((size_t)1 << VIS_BITS, 8); vis_val = calloc((size_t)1 << VIS_BITS, 1);
    run_solo_all();
    if (!strcmp(cmd, "footprint")) { footprint(); return 0; }
    if (!strcmp(cmd, "pair") || !strcmp(cmd, "replay")) {
        int n = 0, opl[TV_MAXT * MAXSEQ], per = 1;
        int a = 3;
        if (!strcmp(cmd, "replay")) {
            /* argv: replay <nthreads> <per> <ops...> <hexchoices> */
            n = atoi(argv[3]); per = atoi(argv[4]);
            for (int i = 0; i < n * per; i++) opl[i] = opidx(argv[5 + i]);
            const char *hx = argv[5 + n * per]; int nc = strlen(hx);
            unsigned char ch[TV_MAXPOINTS]; for (int i = 0; i < nc; i++) ch[i] = hx[i] - '0';
            setup_threads(n, opl, per);
            for (int i = 0; i < n * per; i++) { strcat(cur_names, argv[5 + i]); strcat(cur_names, i + 1 < n * per ? " " : ""); }
            cur_n = n; cur_per = per;
            TvTrace *tr = malloc(sizeof *tr);
            for (int rep = 0; rep < 2; rep++) {
                have_viol = 0; run_once(ch, nc, tr);
                printf("REPLAY run %d: points=%d accesses=%d %s\n", rep, tr->npoints, tr->naccess, have_viol ? viol_sig : "results equal the solo runs");
                for (int t = 0; t < n; t++) for (int i = 0; i < per; i++) {
                    OpCtx *g = &bodies_[t].res[i], *w = &solo[bodies_[t].op[i]][t];
                    printf("  thread %d op %s rc=%ld (solo %ld) out=", t, ops[bodies_[t].op[i]].name, g->rc, w->rc);
                    for (int k = 0; k < g->outn && k < 40; k++) printf("%02x", g->out[k]);
                    printf(" solo="); for (int k = 0; k < w->outn && k < 40; k++) printf("%02x", w->out[k]);
                    printf("\n");
                }
            }
            printf(have_viol ? "VERDICT violation %s\n" : "VERDICT ok\n", viol_sig);
            return have_viol ? 1 : 0;
        }
        n = atoi(argv[a++]); per = atoi(argv[a++]);
        for (int i = 0; i < n * per; i++) opl[i] = opidx(argv[a++]);
        setup_threads(n, opl, per);
        char names[256] = ""; for (int i = 0; i < n * per; i++) { strcat(names, ops[opl[i]].name); strcat(names, i + 1 < n * per ? " " : ""); }
        strcpy(cur_names, names); cur_n = n; cur_per = per;
        explore(NULL, 0);
        if (have_viol) {
            char hx[TV_MAXPOINTS + 1]; for (int i = 0; i < viol_n; i++) hx[i] = '0' + viol_choices[i]; hx[viol_n] = 0;
            printf("{\"t\":\"viol\",\"sig\":\"%s\",\"case\":\"replay %d %d %s %s\"}\n", viol_sig, n, per, names, hx);
        }
        printf("{\"t\":\"stat\",\"ops\":\"%s\",\"threads\":%d,\"bound\":%d,\"schedules\":%ld,\"states\":%ld,\"transitions\":%ld,\"pruned\":%ld,\"max_points\":%ld,\"outcomes\":%d}\n",
               names, n, bound, n_sched, n_states, n_trans, n_pruned, n_points_max, n_outcomes);
        return 0;
    }
    fprintf(stderr, "usage: c12 <tier> footprint | pair <n> <per> ops... | replay ...\n");
    return 2;
}
