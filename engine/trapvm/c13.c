/* c13.c - C13 constraint-handler registration: per-thread override of a global.
 * (1) BFS over all registration/violation/spawn histories up to a depth with up to 3 real threads,
 *     every step executed on the real library and compared with a small reference model;
 * (2) all interleavings at static-access granularity (trapvm) of 2 threads x <=2 ops, checked for
 *     linearizability against the same model.
 * usage: c13 bfs <depth> <nhandlers> [shard nshards] | c13 lin <bound> | c13 replay-hist <hist> | c13 replay-lin <ops0> <ops1> <choices>
 * env CAT_LIB */
#define _GNU_SOURCE
#include "trapvm.h"
#include <stdio.h>
#include <stdlib.h>
#include <string.h>
#include <dlfcn.h>
#include <pthread.h>
#include <unistd.h>
#include <sys/syscall.h>
#include <linux/futex.h>
#include <setjmp.h>
#include <wchar.h>

typedef void (*handler_t)(const char *, void *, int);
static handler_t (*set_str)(handler_t), (*set_mem)(handler_t), (*tset_str)(handler_t), (*tset_mem)(handler_t);
static int (*strcpy_chk)(char *, size_t, const char *, size_t);
static int (*memcpy_chk)(void *, size_t, const void *, size_t, size_t, size_t);

/* ---- probes: which handler ran, on which thread, with which code */
static __thread int my_id = -1;
static __thread struct { int hid, tid, code; } last_inv[8]; static __thread int n_inv;   /* per thread: the handler runs on the violating thread */
static void rec(int hid, int code) { if (n_inv < 8) { last_inv[n_inv].hid = hid; last_inv[n_inv].tid = my_id; last_inv[n_inv].code = code; } n_inv++; }
/* the library's default handler, pre-empted by this definition (exported from the executable) */
void ignore_handler_s(const char *msg, void *ptr, int err) { (void)msg; (void)ptr; rec(1, err); }
static void H1(const char *msg, void *ptr, int err) { (void)msg; (void)ptr; rec(2, err); }
static void H2(const char *msg, void *ptr, int err) { (void)msg; (void)ptr; rec(3, err); }
/* a handler that does not return: it leaves through longjmp into the code that made the violating call */
static __thread sigjmp_buf hj_buf; static __thread int hj_armed;
/* the library's abort handler, pre-empted like the default one: registering it is legitimate, and whether it runs is observed instead of the process dying */
void abort_handler_s(const char *msg, void *ptr, int err) { (void)msg; (void)ptr; rec(5, err); }
static void HJ(const char *msg, void *ptr, int err) { (void)msg; (void)ptr; rec(4, err); if (hj_armed) { hj_armed = 0; siglongjmp(hj_buf, 1); } }
static handler_t hfn(int id) { return id == 0 ? NULL : id == 1 ? ignore_handler_s : id == 2 ? H1 : id == 4 ? HJ : id == 5 ? abort_handler_s : H2; }
static int hid_of(handler_t h) { return h == NULL ? 0 : h == ignore_handler_s ? 1 : h == H1 ? 2 : h == H2 ? 3 : h == HJ ? 4 : h == abort_handler_s ? 5 : 9; }
/* calls that violate nothing (op 4): they must neither invoke a handler nor touch any registration */
static int (*wcsnatcmp_chk)(const wchar_t *, size_t, const wchar_t *, size_t, int, int *, size_t, size_t);
static int (*wcsicmp_chk)(const wchar_t *, size_t, const wchar_t *, size_t, int *, size_t, size_t);
static int (*sprintf_chk)(char *, size_t, size_t, const char *, ...);
static int (*wcsnorm_chk)(wchar_t *, size_t, const wchar_t *, int, size_t *, size_t);
static int (*strtok_chk)(char *, size_t *, const char *, char **, size_t);
static int (*memset_chk)(void *, size_t, int, size_t, size_t);
static const char *CALLN[] = { "wcsnatcmp_s+fold", "sprintf_s", "wcsicmp_s", "wcsnorm_s", "strcpy_s", "memset_s" };
static int benign_call(int c) {
    int d = 0; wchar_t wb[16]; char cb[16]; size_t l = 0;
    switch (c) {
    case 0: return wcsnatcmp_chk(L"File10", 7, L"file9", 6, 1, &d, (size_t)-1, (size_t)-1);
    case 1: return sprintf_chk(cb, 16, (size_t)-1, "%d|%s", 5, "ab") < 0;
    case 2: return wcsicmp_chk(L"Ab", 3, L"aB", 3, &d, (size_t)-1, (size_t)-1);
    case 3: return wcsnorm_chk(wb, 16, L"e\x301", 1, &l, (size_t)-1);
    case 4: return strcpy_chk(cb, 16, "ok", (size_t)-1);
    default: return memset_chk(cb, 16, 0, 8, (size_t)-1);
    }
}

/* ---- op encoding: kind(0 str,1 mem); op: 0 set, 1 thrd_set, 2 violate, 3 spawn; arg handler id (0 NULL,2 H1,3 H2) */
typedef struct { int t, op, kind, h; } Step;
static int step_str(const Step *s, char *b) {
    static const char *hn[] = { "NULL", "DEF", "H1", "H2", "HJ(longjmp)", "abort_handler_s" };
    switch (s->op) {
    case 0: return sprintf(b, "T%d:set_%s(%s)", s->t, s->kind ? "mem" : "str", hn[s->h]);
    case 1: return sprintf(b, "T%d:thrd_set_%s(%s)", s->t, s->kind ? "mem" : "str", hn[s->h]);
    case 2: return sprintf(b, "T%d:violate_%s", s->t, s->kind ? "mem" : "str");
    case 4: return sprintf(b, "T%d:call(%s)", s->t, CALLN[s->h]);
    default: return sprintf(b, "T%d:spawn", s->t);
    }
}
typedef struct { int ret_hid; int ninv; int inv_hid, inv_tid, inv_code; } Obs;

static void do_op(const Step *s, Obs *o) {
    memset(o, 0, sizeof *o); o->ret_hid = -1; n_inv = 0;
    if (s->op == 0) o->ret_hid = hid_of((s->kind ? set_mem : set_str)(hfn(s->h)));
    else if (s->op == 1) o->ret_hid = hid_of((s->kind ? tset_mem : tset_str)(hfn(s->h)));
    else if (s->op == 2) {
        if (sigsetjmp(hj_buf, 0) == 0) { hj_armed = 1; if (s->kind == 0) strcpy_chk(NULL, 4, "x", (size_t)-1); else memcpy_chk(NULL, 4, "x", 1, (size_t)-1, (size_t)-1); }
        hj_armed = 0;
    }
    else if (s->op == 4) o->ret_hid = benign_call(s->h) ? -2 : -1;
    o->ninv = n_inv; if (n_inv) { o->inv_hid = last_inv[0].hid; o->inv_tid = last_inv[0].tid; o->inv_code = last_inv[0].code; }
}

/* ---- reference model */
#define MAXT 3
typedef struct { int g[2]; int tl[MAXT][2]; int maybe[MAXT][2]; int nt; int jumped[MAXT][2], called[MAXT]; } Model;   /* maybe: inherited value allowed besides tl; jumped/called: history facts the registration state must not depend on (kept to tell such histories apart when de-duplicating) */
static void model_init(Model *m) { memset(m, 0, sizeof *m); m->nt = 1; }
/* returns 0 if the observation is consistent with the model (and advances the model) */
static int model_step(Model *m, const Step *s, const Obs *o, char *why) {
    int t = s->t, k = s->kind;
    if (s->op == 0) {
        int exp = m->g[k];
        if (!(o->ret_hid == exp || (exp == 0 && o->ret_hid == 1))) { sprintf(why, "set returned handler %d, previous was %d", o->ret_hid, exp); return 1; }
        m->g[k] = s->h ? s->h : 1;
        if (o->ninv) { sprintf(why, "registration invoked a handler"); return 1; }
    } else if (s->op == 1) {
        int exp = m->tl[t][k], alt = m->maybe[t][k];
        if (!(o->ret_hid == exp || (exp == 0 && o->ret_hid == 1) || (alt && o->ret_hid == alt))) { sprintf(why, "thrd_set returned handler %d, previous thread-local was %d", o->ret_hid, exp); return 1; }
        m->tl[t][k] = s->h ? s->h : 1; m->maybe[t][k] = 0;
        if (o->ninv) { sprintf(why, "registration invoked a handler"); return 1; }
    } else if (s->op == 2) {
        int exp = m->tl[t][k] ? m->tl[t][k] : m->g[k] ? m->g[k] : 1;
        int alt = (!m->tl[t][k] && m->maybe[t][k]) ? m->maybe[t][k] : 0;
        if (o->ninv != 1) { sprintf(why, "violation invoked %d handlers", o->ninv); return 1; }
        if (o->inv_tid != t) { sprintf(why, "handler ran on thread %d for a violation on thread %d", o->inv_tid, t); return 1; }
        if (o->inv_hid != exp && o->inv_hid != alt) { sprintf(why, "handler %d ran, expected %d (tl=%d global=%d)", o->inv_hid, exp, m->tl[t][k], m->g[k]); return 1; }
        if (o->inv_code != 400) { sprintf(why, "handler got code %d", o->inv_code); return 1; }
        if (alt && alt == exp) { /* the global and the possibly inherited handler are the same function: the observation settles nothing */ }
        else if (alt && o->inv_hid == alt) { m->tl[t][k] = alt; m->maybe[t][k] = 0; } else m->maybe[t][k] = 0;   /* inheritance question settled by observation */
        if (o->inv_hid == 4) m->jumped[t][k] = 1;
    } else if (s->op == 4) {
        if (o->ret_hid == -2) { sprintf(why, "a call that violates nothing failed"); return 1; }
        if (o->ninv) { sprintf(why, "a call that violates nothing invoked handler %d", o->inv_hid); return 1; }
        m->called[t] |= 1 << s->h;
    } else {
        int u = m->nt++;
        for (int kk = 0; kk < 2; kk++) { m->tl[u][kk] = 0; m->maybe[u][kk] = m->tl[t][kk]; }   /* a child of the registering thread may inherit (left open) */
    }
    return 0;
}
static void model_key(const Model *m, char *b) {
    char *p = b; p += sprintf(p, "g%d%d n%d", m->g[0], m->g[1], m->nt);
    for (int t = 0; t < m->nt; t++) p += sprintf(p, " t%d%d%d%d j%d%d c%d", m->tl[t][0], m->tl[t][1], m->maybe[t][0], m->maybe[t][1], m->jumped[t][0], m->jumped[t][1], m->called[t]);
}

/* ---- worker threads driven step by step (op-level histories) */
static struct { volatile int go, done; Step step; Obs obs; int quit; } W[MAXT];
static pthread_t wth[MAXT]; static int nworkers;
static void fw(volatile int *w) { while (!__atomic_load_n(w, __ATOMIC_ACQUIRE)) syscall(SYS_futex, w, FUTEX_WAIT, 0, NULL, NULL, 0); __atomic_store_n(w, 0, __ATOMIC_RELEASE); }
static void fk(volatile int *w) { __atomic_store_n(w, 1, __ATOMIC_RELEASE); syscall(SYS_futex, w, FUTEX_WAKE, 1, NULL, NULL, 0); }
static void *worker(void *a) {
    int id = (int)(intptr_t)a; my_id = id;
    for (;;) {
        fw(&W[id].go);
        if (W[id].quit) break;
        if (W[id].step.op == 3) { int u = nworkers++; W[u].quit = 0; pthread_create(&wth[u], NULL, worker, (void *)(intptr_t)u); memset(&W[id].obs, 0, sizeof(Obs)); W[id].obs.ret_hid = -1; }
        else do_op(&W[id].step, &W[id].obs);
        fk(&W[id].done);
    }
    return NULL;
}
static void workers_start(void) { nworkers = 1; memset(W, 0, sizeof W); pthread_create(&wth[0], NULL, worker, (void *)0); }
static void workers_stop(void) { for (int i = 0; i < nworkers; i++) { W[i].quit = 1; fk(&W[i].go); } for (int i = 0; i < nworkers; i++) pthread_join(wth[i], NULL); nworkers = 0; }

static uint64_t fnv64(const void *p, size_t n) { const unsigned char *b = p; uint64_t h = 0xcbf29ce484222325ULL; for (size_t i = 0; i < n; i++) { h ^= b[i]; h *= 0x100000001b3ULL; } return h; }

/* run a history on the real library from the pristine state; returns index of the failing step or -1 */
static int run_history(const Step *hs, int n, Model *m, char *why, uint64_t *libhash, int verbose) {
    tv_restore();
    workers_start();
    model_init(m);
    int bad = -1;
    for (int i = 0; i < n; i++) {
        const Step *s = &hs[i];
        if (s->t >= nworkers) { bad = -2; break; }   /* not enabled */
        W[s->t].step = *s; fk(&W[s->t].go); fw(&W[s->t].done);
        if (verbose) { char b[64]; step_str(s, b); printf("  step %d %s -> ret=%d handlers_run=%d handler=%d on_thread=%d code=%d\n", i, b, W[s->t].obs.ret_hid, W[s->t].obs.ninv, W[s->t].obs.inv_hid, W[s->t].obs.inv_tid, W[s->t].obs.inv_code); }
        if (model_step(m, s, &W[s->t].obs, why)) { bad = i; break; }
    }
    if (libhash) *libhash = fnv64(tv_seg_start(), tv_seg_size());
    workers_stop();
    return bad;
}

/* ---- BFS over histories with de-duplication on (model state, library static bytes) */
#define MAXD 8
typedef struct { Step s[MAXD]; int n; } Hist;
static Hist *frontier, *next_f; static long nfront, nnext, capn;
#define SEEN_BITS 20
static uint64_t *seen;
static int seen_add(uint64_t k) { if (!k) k = 1; size_t m = ((size_t)1 << SEEN_BITS) - 1, i = (k * 0x9E3779B97F4A7C15ULL) >> (64 - SEEN_BITS); for (;;) { if (!seen[i]) { seen[i] = k; return 1; } if (seen[i] == k) return 0; i = (i + 1) & m; } }
static void hist_str(const Hist *h, char *b) { char *p = b; for (int i = 0; i < h->n; i++) { p += step_str(&h->s[i], p); *p++ = ' '; } *p = 0; }
static void hist_enc(const Hist *h, char *b) { char *p = b; for (int i = 0; i < h->n; i++) p += sprintf(p, "%d%d%d%d", h->s[i].t, h->s[i].op, h->s[i].kind, h->s[i].h); }

static int g_alpha2, g_maxt = MAXT, g_ncalls;   /* second alphabet: handlers NULL, HJ, H1 (, H2), calls that violate nothing, fewer threads */
static int bfs(int depth, int nh, long shard, long nshards) {
    long states = 0, trans = 0, hists = 0; int viol = 0;
    seen = calloc((size_t)1 << SEEN_BITS, 8);
    capn = 1 << 18; frontier = malloc(capn * sizeof(Hist)); next_f = malloc(capn * sizeof(Hist));
    nfront = 1; frontier[0].n = 0; states = 1;
    int hv[4] = { 0, 2, 3, 1 };   /* handler argument values: NULL, H1, H2 (, explicit default) */
    if (g_alpha2 == 1) { hv[1] = 4; hv[2] = 2; hv[3] = 3; }
    if (g_alpha2 == 2) { hv[1] = 5; hv[2] = 2; hv[3] = 1; }      /* NULL, the abort handler, H1 (, the ignore handler named explicitly) */
    char samples[4][400]; int nsamp = 0;
    for (int d = 0; d < depth; d++) {
        nnext = 0;
        for (long fi = 0; fi < nfront; fi++) {
            Hist *h = &frontier[fi];
            /* threads alive after h */
            int nt = 1; for (int i = 0; i < h->n; i++) if (h->s[i].op == 3) nt++;
            for (int t = 0; t < nt; t++) for (int op = 0; op < (g_alpha2 == 1 ? 5 : 4); op++) for (int k = 0; k < 2; k++) for (int a = 0; a < (op == 4 ? g_ncalls : nh); a++) {
                if ((op == 2 || op == 3) && a) continue;
                if (op == 3 && (k || nt >= g_maxt)) continue;
                if (op == 4 && k) continue;
                if (d == 0 && (trans % nshards) != shard && nshards > 1) { trans++; continue; }   /* shard on the first step */
                Hist nh_ = *h; nh_.s[nh_.n].t = t; nh_.s[nh_.n].op = op; nh_.s[nh_.n].kind = k; nh_.s[nh_.n].h = op == 4 ? a : hv[a]; nh_.n++;
                Model m; char why[200] = ""; uint64_t lh;
                int bad = run_history(nh_.s, nh_.n, &m, why, &lh, 0);
                trans++; hists++;
                if (nsamp < 4 && d >= 2 && (hists % 37) == 0) hist_str(&nh_, samples[nsamp++]);
                if (bad >= 0) {
                    char hs[600], he[64]; hist_str(&nh_, hs); hist_enc(&nh_, he);
                    char sb[64]; step_str(&nh_.s[bad], sb); char *colon = strchr(sb, ':');
                    printf("{\"t\":\"viol\",\"sig\":\"C13|history|%s|%s\",\"case\":\"hist %s\",\"text\":\"%s\"}\n", colon ? colon + 1 : sb, why, he, hs);
                    if (++viol > 50) goto done;
                    continue;
                }
                char mk[128]; model_key(&m, mk);
                uint64_t key = fnv64(mk, strlen(mk)) ^ (lh * 0x9E3779B97F4A7C15ULL);
                if (seen_add(key)) { states++; if (nnext < capn) next_f[nnext++] = nh_; }
            }
        }
        Hist *tmp = frontier; frontier = next_f; next_f = tmp; nfront = nnext;
        if (!nfront) break;
    }
done:
    for (int i = 0; i < nsamp; i++) printf("{\"t\":\"sample\",\"hist\":\"%s\"}\n", samples[i]);
    printf("{\"t\":\"stat\",\"mode\":\"%s\",\"depth\":%d,\"states\":%ld,\"transitions\":%ld,\"histories\":%ld}\n", g_alpha2 == 1 ? "bfs2" : g_alpha2 == 2 ? "bfs3" : "bfs", depth, states, trans, hists);
    return 0;
}

/* ---- access-level interleavings + linearizability */
#define MAXSEQ 2
typedef struct { int n; Step s[MAXSEQ]; Obs o[MAXSEQ]; long t_start[MAXSEQ], t_end[MAXSEQ]; } TB;
static TB tb[2]; static volatile long lclock;
static void lin_body(int tid, void *arg) {
    TB *b = arg; my_id = tid;
    for (int i = 0; i < b->n; i++) { b->t_start[i] = ++lclock; do_op(&b->s[i], &b->o[i]); b->t_end[i] = ++lclock; }
}
/* is there a sequential order, consistent with program order and real time, that the model accepts? */
static int lin_ok(char *why) {
    int n0 = tb[0].n, n1 = tb[1].n, tot = n0 + n1;
    for (unsigned mask = 0; mask < (1u << tot); mask++) {
        if (__builtin_popcount(mask) != n1) continue;
        int i0 = 0, i1 = 0, ok = 1; Model m; model_init(&m); m.nt = 2;
        int order_t[4], order_i[4];
        for (int p = 0; p < tot; p++) { int t = (mask >> p) & 1; order_t[p] = t; order_i[p] = t ? i1++ : i0++; }
        /* real-time: if a ended before b started then a must precede b */
        for (int p = 0; p < tot && ok; p++) for (int q = p + 1; q < tot; q++) {
            TB *bp = &tb[order_t[p]], *bq = &tb[order_t[q]];
            if (bq->t_end[order_i[q]] < bp->t_start[order_i[p]]) { ok = 0; break; }
        }
        for (int p = 0; p < tot && ok; p++) { TB *b = &tb[order_t[p]]; char w[200]; if (model_step(&m, &b->s[order_i[p]], &b->o[order_i[p]], w)) { ok = 0; strcpy(why, w); } }
        if (ok) return 1;
    }
    return 0;
}
static long l_sched, l_states, l_trans, l_maxp; static int l_bound = 2;
static int l_viol; static char l_sig[300]; static unsigned char l_ch[TV_MAXPOINTS]; static int l_nch;
static uint64_t *lv_key; static unsigned char *lv_val;
static int lv_check(uint64_t k, int used) { if (!k) k = 1; size_t m = ((size_t)1 << 14) - 1, i = (k * 0x9E3779B97F4A7C15ULL) >> 50; for (;;) { if (!lv_key[i]) { lv_key[i] = k; lv_val[i] = used; l_states++; return 0; } if (lv_key[i] == k) { if (lv_val[i] <= used) return 1; lv_val[i] = used; return 0; } i = (i + 1) & m; } }
static void lin_run(const unsigned char *pfx, int np, TvTrace *tr) {
    tv_restore(); lclock = 0;
    tv_body bf[2] = { lin_body, lin_body }; void *ba[2] = { &tb[0], &tb[1] };
    if (tv_run(2, bf, ba, pfx, np, tr) < 0 || tr->infeasible) { printf("{\"t\":\"internal\",\"msg\":\"hang or infeasible replay\"}\n"); fflush(stdout); _exit(3); }
    l_sched++; if (tr->npoints > l_maxp) l_maxp = tr->npoints;
    char why[200] = "";
    if (!lin_ok(why) && !l_viol) {
        l_viol = 1; char a[64], b[64]; step_str(&tb[0].s[0], a); step_str(&tb[1].s[0], b);
        char *ca = strchr(a, ':'), *cb = strchr(b, ':');
        snprintf(l_sig, sizeof l_sig, "C13|not-linearizable|%s|%s", ca ? ca + 1 : a, cb ? cb + 1 : b);
        l_nch = tr->npoints; memcpy(l_ch, tr->choice, tr->npoints);
    }
}
static void lin_explore(const unsigned char *pfx, int np) {
    TvTrace *tr = malloc(sizeof *tr);
    lin_run(pfx, np, tr);
    int used = 0; unsigned char *p2 = malloc(tr->npoints + 1);
    for (int i = 0; i < tr->npoints && !l_viol; i++) {
        if (i >= np) {
            if (lv_check(tr->state[i] ^ ((uint64_t)i << 48), used)) break;
            for (int alt = 1; alt < tr->nen[i]; alt++) {
                if (used + (tr->run_en[i] ? 1 : 0) > l_bound) continue;
                memcpy(p2, tr->choice, i); p2[i] = alt; l_trans++;
                lin_explore(p2, i + 1);
                if (l_viol) break;
            }
        }
        used += (tr->run_en[i] && tr->choice[i]) ? 1 : 0;
    }
    free(p2); free(tr);
}
static void parse_steps(const char *enc, TB *b, int t) { b->n = strlen(enc) / 3; for (int i = 0; i < b->n; i++) { b->s[i].t = t; b->s[i].op = enc[3 * i] - '0'; b->s[i].kind = enc[3 * i + 1] - '0'; b->s[i].h = enc[3 * i + 2] - '0'; } }

int main(int argc, char **argv) {
    setvbuf(stdout, NULL, _IOLBF, 0);
    void *L = dlopen(getenv("CAT_LIB"), RTLD_NOW | RTLD_GLOBAL);
    if (!L) { fprintf(stderr, "cannot load CAT_LIB: %s\n", dlerror()); return 2; }
    set_str = dlsym(L, "set_str_constraint_handler_s"); set_mem = dlsym(L, "set_mem_constraint_handler_s");
    tset_str = dlsym(L, "thrd_set_str_constraint_handler_s"); tset_mem = dlsym(L, "thrd_set_mem_constraint_handler_s");
    strcpy_chk = dlsym(L, "_strcpy_s_chk"); memcpy_chk = dlsym(L, "_memcpy_s_chk");
    if (!set_str || !set_mem || !tset_str || !tset_mem || !strcpy_chk || !memcpy_chk) { fprintf(stderr, "missing symbols\n"); return 2; }
    if (tv_init("libsafec")) { fprintf(stderr, "cannot locate static segment\n"); return 2; }
    tv_snapshot();
    if (argc < 2) return 2;
    wcsnatcmp_chk = dlsym(L, "_wcsnatcmp_s_chk"); wcsicmp_chk = dlsym(L, "_wcsicmp_s_chk"); sprintf_chk = dlsym(L, "_sprintf_s_chk"); wcsnorm_chk = dlsym(L, "_wcsnorm_s_chk"); strtok_chk = dlsym(L, "_strtok_s_chk"); memset_chk = dlsym(L, "_memset_s_chk");
    if (!wcsnatcmp_chk || !wcsicmp_chk || !sprintf_chk || !wcsnorm_chk || !memset_chk) { fprintf(stderr, "missing symbols\n"); return 2; }
    /* bfs2 <depth> <nhandlers> <ncalls> <maxthreads> <shard> <nshards> */
    /* bfs3 <depth> <nhandlers> <maxthreads> <shard> <nshards>: the library's own handlers as registered values */
    if (!strcmp(argv[1], "bfs3")) { g_alpha2 = 2; g_maxt = atoi(argv[4]); return bfs(atoi(argv[2]), atoi(argv[3]), atol(argv[5]), atol(argv[6])); }
    if (!strcmp(argv[1], "bfs2")) { g_alpha2 = 1; g_ncalls = atoi(argv[4]); g_maxt = atoi(argv[5]); return bfs(atoi(argv[2]), atoi(argv[3]), atol(argv[6]), atol(argv[7])); }
    if (!strcmp(argv[1], "bfs")) return bfs(atoi(argv[2]), atoi(argv[3]), argc > 5 ? atol(argv[4]) : 0, argc > 5 ? atol(argv[5]) : 1);
    if (!strcmp(argv[1], "replay-hist")) {
        Hist h; const char *e = argv[2]; h.n = strlen(e) / 4;
        for (int i = 0; i < h.n; i++) { h.s[i].t = e[4 * i] - '0'; h.s[i].op = e[4 * i + 1] - '0'; h.s[i].kind = e[4 * i + 2] - '0'; h.s[i].h = e[4 * i + 3] - '0'; }
        int bad = -1; char why[200] = "";
        for (int rep = 0; rep < 2; rep++) { Model m; printf("REPLAY run %d\n", rep); bad = run_history(h.s, h.n, &m, why, NULL, 1); }
        if (bad >= 0) { printf("VERDICT violation at step %d: %s\n", bad, why); return 1; }
        printf("VERDICT ok\n"); return 0;
    }
    if (!strcmp(argv[1], "lin") || !strcmp(argv[1], "replay-lin")) {
        lv_key = calloc((size_t)1 << 20, 8); lv_val = calloc((size_t)1 << 20, 1);
        if (!strcmp(argv[1], "replay-lin")) {
            parse_steps(argv[2], &tb[0], 0); parse_steps(argv[3], &tb[1], 1);
            const char *hx = argv[4]; int nc = strlen(hx); unsigned char ch[4096]; for (int i = 0; i < nc; i++) ch[i] = hx[i] - '0';
            TvTrace *tr = malloc(sizeof *tr);
            for (int rep = 0; rep < 2; rep++) {
                l_viol = 0; lin_run(ch, nc, tr);
                printf("REPLAY run %d: points=%d\n", rep, tr->npoints);
                for (int t = 0; t < 2; t++) for (int i = 0; i < tb[t].n; i++) { char b[64]; step_str(&tb[t].s[i], b); printf("  %s [%ld,%ld] -> ret=%d handler=%d\n", b, tb[t].t_start[i], tb[t].t_end[i], tb[t].o[i].ret_hid, tb[t].o[i].inv_hid); }
            }
            printf(l_viol ? "VERDICT violation %s\n" : "VERDICT ok\n", l_sig); return l_viol;
        }
        l_bound = atoi(argv[2]); int per = argc > 3 ? atoi(argv[3]) : 1;
        /* alphabet for the access-level pass */
        Step alpha[10]; int na = 0;
        for (int k = 0; k < 2; k++) { for (int h = 0; h < 4; h++) { if (h == 1) continue; alpha[na].op = 0; alpha[na].kind = k; alpha[na].h = h; na++; } alpha[na].op = 2; alpha[na].kind = k; alpha[na].h = 0; na++; }
        long combos = 0; int nv = 0;
        long nseq = per == 1 ? na : na * na;
        for (long a = 0; a < nseq; a++) for (long b = a; b < nseq; b++) {
            tb[0].n = tb[1].n = per;
            for (int i = 0; i < per; i++) { tb[0].s[i] = alpha[i ? a / na : a % na]; tb[0].s[i].t = 0; tb[1].s[i] = alpha[i ? b / na : b % na]; tb[1].s[i].t = 1; }
            if (per == 2 && tb[0].s[0].kind != tb[1].s[0].kind && tb[0].s[1].kind != tb[1].s[1].kind && tb[0].s[0].kind != tb[1].s[1].kind) continue;
            memset(lv_key, 0, 8 << 14); l_viol = 0;
            lin_explore(NULL, 0); combos++;
            if (l_viol) {
                char e0[16] = "", e1[16] = "", hx[4100];
                for (int i = 0; i < per; i++) { sprintf(e0 + 3 * i, "%d%d%d", tb[0].s[i].op, tb[0].s[i].kind, tb[0].s[i].h); sprintf(e1 + 3 * i, "%d%d%d", tb[1].s[i].op, tb[1].s[i].kind, tb[1].s[i].h); }
                for (int i = 0; i < l_nch; i++) hx[i] = '0' + l_ch[i];
                hx[l_nch] = 0;
                printf("{\"t\":\"viol\",\"sig\":\"%s\",\"case\":\"lin %s %s %s\"}\n", l_sig, e0, e1, hx);
                if (++nv > 40) break;
            }
        }
        printf("{\"t\":\"stat\",\"mode\":\"lin\",\"bound\":%d,\"ops_per_thread\":%d,\"op_sets\":%ld,\"schedules\":%ld,\"states\":%ld,\"transitions\":%ld,\"max_points\":%ld}\n", l_bound, per, combos, l_sched, l_states, l_trans, l_maxp);
        return 0;
    }
    return 2;
}
