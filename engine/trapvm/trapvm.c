/* trapvm.c - see trapvm.h */
#define _GNU_SOURCE
#include "trapvm.h"
#include <link.h>
#include <dlfcn.h>
#include <signal.h>
#include <ucontext.h>
#include <sys/mman.h>
#include <sys/syscall.h>
#include <linux/futex.h>
#include <unistd.h>
#include <string.h>
#include <stdio.h>
#include <stdlib.h>
#include <pthread.h>
#include <time.h>
#include <errno.h>

#define PG 4096UL
static unsigned char *seg, *snap;
static size_t segsz;
static uintptr_t lib_base;
static char lib_path[512];
static volatile int mode;            /* 0 off, 1 log, 2 scheduler */
static struct sigaction old_segv, old_trap;
static __thread int my_tid = 0;

/* access log */
static TvAccess *alog; static int nalog, caplog;

/* single-step state (only one thread runs at a time) */
static volatile int stepping; static unsigned char *step_addr; static int step_w;

/* dirty pages */
static unsigned char dirty[256];

static uint64_t fnv(uint64_t h, const void *p, size_t n) {
    const unsigned char *b = p; for (size_t i = 0; i < n; i++) { h ^= b[i]; h *= 0x100000001b3ULL; } return h;
}

/* ---------------------------------------------------------------- segment discovery */
static const char *want_name;
static int phdr_cb(struct dl_phdr_info *info, size_t sz, void *data) {
    (void)sz; (void)data;
    if (!info->dlpi_name || !strstr(info->dlpi_name, want_name)) return 0;
    uintptr_t relro_end = 0, w_start = 0, w_end = 0;
    for (int i = 0; i < info->dlpi_phnum; i++) {
        const ElfW(Phdr) *ph = &info->dlpi_phdr[i];
        if (ph->p_type == PT_GNU_RELRO) relro_end = info->dlpi_addr + ph->p_vaddr + ph->p_memsz;
        if (ph->p_type == PT_LOAD && (ph->p_flags & PF_W)) { w_start = info->dlpi_addr + ph->p_vaddr; w_end = w_start + ph->p_memsz; }
    }
    if (!w_end) return 0;
    uintptr_t s = relro_end ? (relro_end & ~(PG - 1)) : (w_start & ~(PG - 1));
    if (s < (w_start & ~(PG - 1))) s = w_start & ~(PG - 1);
    uintptr_t e = (w_end + PG - 1) & ~(PG - 1);
    seg = (unsigned char *)s; segsz = e - s; lib_base = info->dlpi_addr;
    strncpy(lib_path, info->dlpi_name, sizeof lib_path - 1);
    return 1;
}

/* ---------------------------------------------------------------- symbolisation (nm once) */
typedef struct { uintptr_t a; size_t sz; char name[48]; char kind; } Sym;
static Sym *syms; static int nsyms;
static void load_syms(void) {
    char cmd[700]; snprintf(cmd, sizeof cmd, "nm -S --defined-only '%s' 2>/dev/null", lib_path);
    FILE *p = popen(cmd, "r"); if (!p) return;
    char ln[512]; int cap = 0;
    while (fgets(ln, sizeof ln, p)) {
        unsigned long a, sz; char k; char nm[256]; char t1[64], t2[64], t3[64];
        if (sscanf(ln, "%63s %63s %63s %255s", t1, t2, t3, nm) == 4 && strlen(t2) == 16 && strlen(t3) == 1) {
            a = strtoul(t1, 0, 16); sz = strtoul(t2, 0, 16); k = t3[0];
            if (nsyms == cap) { cap = cap ? cap * 2 : 1024; syms = realloc(syms, cap * sizeof *syms); }
            syms[nsyms].a = a; syms[nsyms].sz = sz; syms[nsyms].kind = k; strncpy(syms[nsyms].name, nm, 47); syms[nsyms].name[47] = 0; nsyms++;
        }
    }
    pclose(p);
}
static const char *symb(void *addr, char *buf, size_t n, int code) {
    uintptr_t off = (uintptr_t)addr - lib_base;
    for (int i = 0; i < nsyms; i++) {
        int iscode = syms[i].kind == 't' || syms[i].kind == 'T';
        if (iscode != code) continue;
        if (!code && !syms[i].sz) continue;
        if (off >= syms[i].a && off < syms[i].a + (syms[i].sz ? syms[i].sz : 1)) {
            snprintf(buf, n, "%s+%lu", syms[i].name, (unsigned long)(off - syms[i].a)); return buf; }
    }
    snprintf(buf, n, "?+0x%lx", (unsigned long)off); return buf;
}
const char *tv_symbolize(void *addr, char *buf, size_t n) { return symb(addr, buf, n, 0); }
const char *tv_symbolize_pc(void *pc, char *buf, size_t n) {
    uintptr_t off = (uintptr_t)pc - lib_base;
    if (off > 0x10000000UL) { Dl_info di; if (dladdr(pc, &di) && di.dli_sname) { snprintf(buf, n, "libc:%s", di.dli_sname); return buf; } snprintf(buf, n, "extern:%p", pc); return buf; }
    return symb(pc, buf, n, 1);
}

/* ---------------------------------------------------------------- scheduler state */
static struct {
    int n;
    volatile int turn[TV_MAXT];
    volatile int done;
    int finished[TV_MAXT];
    int running;
    const unsigned char *prefix; int nprefix;
    TvTrace *tr;
    uint64_t rhist[TV_MAXT];
    int pts[TV_MAXT];
    tv_body *bodies; void **args;
} S;

static void fwait(volatile int *w) {
    while (!__atomic_load_n(w, __ATOMIC_ACQUIRE)) syscall(SYS_futex, w, FUTEX_WAIT, 0, NULL, NULL, 0);
    __atomic_store_n(w, 0, __ATOMIC_RELEASE);
}
static void fwake(volatile int *w) { __atomic_store_n(w, 1, __ATOMIC_RELEASE); syscall(SYS_futex, w, FUTEX_WAKE, 1, NULL, NULL, 0); }

static uint64_t state_hash(int running) {
    uint64_t h = 0xcbf29ce484222325ULL;
    for (size_t p = 0; p < segsz / PG && p < sizeof dirty; p++)
        if (dirty[p]) { h = fnv(h, &p, sizeof p); h = fnv(h, seg + p * PG, PG); }
    for (int t = 0; t < S.n; t++) { h = fnv(h, &S.finished[t], sizeof(int)); h = fnv(h, &S.pts[t], sizeof(int)); h = fnv(h, &S.rhist[t], 8); }
    h = fnv(h, &running, sizeof running);
    return h;
}

/* returns the thread to run next, -1 when none is enabled; the segment must be readable when called */
static int choose(int running) {
    int order[TV_MAXT], nen = 0;
    if (running >= 0 && !S.finished[running]) order[nen++] = running;
    for (int t = 0; t < S.n; t++) if (!S.finished[t] && t != running) order[nen++] = t;
    if (nen == 0) return -1;
    if (nen == 1) return order[0];
    TvTrace *tr = S.tr; int i = tr->npoints;
    if (i >= TV_MAXPOINTS) return order[0];
    int c = i < S.nprefix ? S.prefix[i] : 0;
    if (c >= nen) { tr->infeasible = 1; c = 0; }
    tr->nen[i] = nen; tr->run_en[i] = (running >= 0 && !S.finished[running]); tr->choice[i] = c; tr->tid_chosen[i] = order[c];
    tr->state[i] = state_hash(running);
    tr->npoints = i + 1;
    return order[c];
}

/* called with the segment PROT_NONE; returns with it PROT_NONE and this thread scheduled */
static void sched_point(int tid) {
    S.pts[tid]++;
    mprotect(seg, segsz, PROT_READ);          /* readable for the state hash only */
    int next = choose(tid);
    mprotect(seg, segsz, PROT_NONE);
    if (next != tid) { S.running = next; fwake(&S.turn[next]); fwait(&S.turn[tid]); }
}

static void *thread_main(void *a) {
    int tid = (int)(intptr_t)a;
    my_tid = tid;
    fwait(&S.turn[tid]);
    S.bodies[tid](tid, S.args[tid]);
    /* finished: hand over (segment is protected here; make it readable for hashing) */
    S.finished[tid] = 1;
    mprotect(seg, segsz, PROT_READ);
    int next = choose(tid);
    mprotect(seg, segsz, PROT_NONE);
    if (next < 0) fwake(&S.done); else { S.running = next; fwake(&S.turn[next]); }
    return NULL;
}

/* ---------------------------------------------------------------- signal handlers */
static void chain(struct sigaction *old, int sig, siginfo_t *si, void *uc) {
    if (old->sa_flags & SA_SIGINFO) { if (old->sa_sigaction) { old->sa_sigaction(sig, si, uc); return; } }
    else if (old->sa_handler != SIG_DFL && old->sa_handler != SIG_IGN) { old->sa_handler(sig); return; }
    signal(sig, SIG_DFL);   /* default action on return (re-fault) */
}
static void on_segv(int sig, siginfo_t *si, void *ucv) {
    unsigned char *a = si->si_addr;
    ucontext_t *uc = ucv;
    if (mode && a >= seg && a < seg + segsz) {
        int w = (uc->uc_mcontext.gregs[REG_ERR] & 2) != 0;
        if (nalog < caplog) { alog[nalog].addr = a; alog[nalog].pc = (void *)uc->uc_mcontext.gregs[REG_RIP]; alog[nalog].write = w; alog[nalog].tid = my_tid; }
        nalog++;
        if (mode == 2) { if (S.tr) S.tr->naccess++; sched_point(my_tid); }
        mprotect(seg, segsz, PROT_READ | PROT_WRITE);   /* private window: only this thread runs */
        uc->uc_mcontext.gregs[REG_EFL] |= 0x100;
        stepping = 1; step_addr = a; step_w = w;
        return;
    }
    chain(&old_segv, sig, si, ucv);
}
static void on_trap(int sig, siginfo_t *si, void *ucv) {
    ucontext_t *uc = ucv;
    if (stepping) {
        stepping = 0;
        uc->uc_mcontext.gregs[REG_EFL] &= ~0x100UL;
        if (mode == 2) {
            uint64_t v = 0; size_t off = step_addr - seg; size_t n = segsz - off < 8 ? segsz - off : 8;
            memcpy(&v, step_addr, n);
            uint64_t h = S.rhist[my_tid]; h = fnv(h ? h : 0xcbf29ce484222325ULL, &off, sizeof off); h = fnv(h, &v, 8); S.rhist[my_tid] = h;
        }
        if (step_w) { size_t p = (step_addr - seg) / PG; if (p < sizeof dirty) dirty[p] = 1; if (p + 1 < sizeof dirty && ((uintptr_t)step_addr & (PG - 1)) > PG - 64) dirty[p + 1] = 1; }
        if (mode) mprotect(seg, segsz, PROT_NONE);
        return;
    }
    chain(&old_trap, sig, si, ucv);
}

int tv_init(const char *name) {
    want_name = name;
    if (!dl_iterate_phdr(phdr_cb, NULL) || !seg) return -1;
    snap = malloc(segsz);
    load_syms();
    caplog = 1 << 20; alog = malloc(caplog * sizeof *alog);
    struct sigaction sa; memset(&sa, 0, sizeof sa);
    sa.sa_sigaction = on_segv; sa.sa_flags = SA_SIGINFO | SA_NODEFER;
    sigaction(SIGSEGV, &sa, &old_segv);
    sa.sa_sigaction = on_trap;
    sigaction(SIGTRAP, &sa, &old_trap);
    return 0;
}
unsigned char *tv_seg_start(void) { return seg; }
size_t tv_seg_size(void) { return segsz; }

void tv_snapshot(void) { memcpy(snap, seg, segsz); }
int tv_diff(size_t *first, size_t *nbytes) {
    size_t n = 0, f = 0;
    for (size_t i = 0; i < segsz; i++) if (seg[i] != snap[i]) { if (!n) f = i; n++; }
    if (first) *first = f;
    if (nbytes) *nbytes = n;
    return n != 0;
}
void tv_restore(void) { memcpy(seg, snap, segsz); }

void tv_log_begin(void) { nalog = 0; mode = 1; mprotect(seg, segsz, PROT_NONE); }
int tv_log_end(TvAccess **out) { mode = 0; mprotect(seg, segsz, PROT_READ | PROT_WRITE); if (out) *out = alog; return nalog < caplog ? nalog : caplog; }

int tv_run(int n, tv_body *bodies, void **args, const unsigned char *prefix, int nprefix, TvTrace *tr) {
    memset(&S, 0, sizeof S);
    S.n = n; S.bodies = bodies; S.args = args; S.prefix = prefix; S.nprefix = nprefix; S.tr = tr;
    tr->npoints = 0; tr->hang = 0; tr->naccess = 0; tr->infeasible = 0;
    memset(dirty, 0, sizeof dirty);
    nalog = 0;
    pthread_t th[TV_MAXT];
    for (int t = 0; t < n; t++) pthread_create(&th[t], NULL, thread_main, (void *)(intptr_t)t);
    mode = 2;
    int first = choose(-1);
    mprotect(seg, segsz, PROT_NONE);
    S.running = first;
    fwake(&S.turn[first]);
    /* wait for completion with a watchdog */
    struct timespec ts = { 20, 0 };
    while (!__atomic_load_n(&S.done, __ATOMIC_ACQUIRE)) {
        long r = syscall(SYS_futex, &S.done, FUTEX_WAIT, 0, &ts, NULL, 0);
        if (r < 0 && errno == ETIMEDOUT) { tr->hang = 1; break; }
    }
    mode = 0;
    mprotect(seg, segsz, PROT_READ | PROT_WRITE);
    if (tr->hang) return -1;
    for (int t = 0; t < n; t++) pthread_join(th[t], NULL);
    return 0;
}
