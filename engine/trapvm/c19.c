/* c19.c - C19 timingsafe comparisons: result vs memcmp and data independence of the executed
 * instruction sequence and of every data address touched (instructions single-stepped with the x86
 * trap flag; operands, the library's data and the stack the call runs on are PROT_NONE so that every
 * data access faults and is logged), compared as a hash across all contents for a fixed n.
 * usage: c19 <fn> <n> <shard> <nshards> [replay <hexA> <hexB>]     env CAT_LIB */
#define _GNU_SOURCE
#include <stdio.h>
#include <stdlib.h>
#include <string.h>
#include <signal.h>
#include <ucontext.h>
#include <sys/mman.h>
#include <dlfcn.h>
#include <link.h>
#include <unistd.h>
#include <stdint.h>

#define PG 4096UL
typedef int (*cmpfn)(const void *, const void *, size_t, size_t, size_t);
static cmpfn fn;

/* protected regions */
typedef struct { unsigned char *a; size_t n; int id; } Reg;
static Reg regs[8]; static int nregs;
static uintptr_t harness_lo, harness_hi;     /* this executable's text: events from here are not part of the trace */
static volatile int tracing;
static uint64_t th;                           /* running trace hash */
static long n_instr, n_data;
static int verbose; static FILE *vout;
static int pending = -1;                      /* region unprotected for the instruction in flight */
static uintptr_t lib_base;

static inline void mix(uint64_t v) { th ^= v; th *= 0x100000001b3ULL; th ^= th >> 29; }

static void on_sig(int sig, siginfo_t *si, void *ucv) {
    ucontext_t *uc = ucv;
    uintptr_t rip = uc->uc_mcontext.gregs[REG_RIP];
    int inh = rip >= harness_lo && rip < harness_hi;
    if (sig == SIGSEGV) {
        unsigned char *a = si->si_addr;
        for (int i = 0; i < nregs; i++) if (a >= regs[i].a && a < regs[i].a + regs[i].n) {
            if (tracing && !inh) {
                int w = (uc->uc_mcontext.gregs[REG_ERR] & 2) != 0;
                mix(0xD000000000000000ULL | ((uint64_t)regs[i].id << 48) | ((uint64_t)w << 47) | (uint64_t)(a - regs[i].a));
                n_data++;
                if (verbose) fprintf(vout, "  data %s region %d off %ld\n", w ? "W" : "R", regs[i].id, (long)(a - regs[i].a));
            }
            mprotect(regs[i].a, regs[i].n, PROT_READ | PROT_WRITE);
            pending = i;
            uc->uc_mcontext.gregs[REG_EFL] |= 0x100;
            return;
        }
        static const char m[] = "{\"t\":\"internal\",\"msg\":\"stray fault in tracer\"}\n";
        if (write(1, m, sizeof m - 1)) {}
        _exit(3);
    }
    /* SIGTRAP: one instruction completed */
    if (pending >= 0) { mprotect(regs[pending].a, regs[pending].n, PROT_NONE); pending = -1; }
    if (!tracing) { uc->uc_mcontext.gregs[REG_EFL] &= ~0x100UL; return; }
    if (!inh) {
        mix(rip - lib_base); n_instr++;
        if (verbose) fprintf(vout, " pc lib+0x%lx\n", (unsigned long)(rip - lib_base));
    }
}

static int cb(struct dl_phdr_info *info, size_t sz, void *d) {
    (void)sz; (void)d;
    if (info->dlpi_name && strstr(info->dlpi_name, "libsafec")) {
        lib_base = info->dlpi_addr;
        for (int i = 0; i < info->dlpi_phnum; i++) {
            const ElfW(Phdr) *ph = &info->dlpi_phdr[i];
            if (ph->p_type == PT_LOAD && !(ph->p_flags & PF_X)) {
                uintptr_t s = (info->dlpi_addr + ph->p_vaddr) & ~(PG - 1), e = (info->dlpi_addr + ph->p_vaddr + ph->p_memsz + PG - 1) & ~(PG - 1);
                /* skip the first R segment (ELF headers, dynsym: needed by nobody at run time but harmless to leave) */
                if (ph->p_offset == 0) continue;
                regs[nregs].a = (unsigned char *)s; regs[nregs].n = e - s; regs[nregs].id = 4 + nregs; nregs++;
            }
        }
    } else if (!info->dlpi_name || !info->dlpi_name[0]) {
        for (int i = 0; i < info->dlpi_phnum; i++) {
            const ElfW(Phdr) *ph = &info->dlpi_phdr[i];
            if (ph->p_type == PT_LOAD && (ph->p_flags & PF_X)) { harness_lo = info->dlpi_addr + ph->p_vaddr; harness_hi = harness_lo + ph->p_memsz; }
        }
    }
    return 0;
}

/* the traced call runs on its own stack (a protected region) */
static unsigned char *opA, *opB, *stk; static size_t stk_sz = 16 * PG;
static ucontext_t main_ctx, co_ctx;
static size_t cur_n; static volatile int result;
static void co_body(void) {
    /* protect everything, switch the trap flag on, call, switch it off */
    for (int i = 0; i < nregs; i++) mprotect(regs[i].a, regs[i].n, PROT_NONE);
    tracing = 1;
    __asm__ volatile("pushfq\n\torq $0x100,(%%rsp)\n\tpopfq" ::: "memory", "cc");
    int r = fn(opA, opB, cur_n, (size_t)-1, (size_t)-1);
    __asm__ volatile("pushfq\n\tandq $~0x100,(%%rsp)\n\tpopfq" ::: "memory", "cc");
    tracing = 0;
    for (int i = 0; i < nregs; i++) mprotect(regs[i].a, regs[i].n, PROT_READ | PROT_WRITE);
    result = r;
}
static uint64_t traced_call(const unsigned char *a, const unsigned char *b, size_t n, int *res) {
    memcpy(opA, a, n); memcpy(opB, b, n);
    th = 0xcbf29ce484222325ULL; n_instr = n_data = 0; cur_n = n;
    getcontext(&co_ctx);
    co_ctx.uc_stack.ss_sp = stk; co_ctx.uc_stack.ss_size = stk_sz; co_ctx.uc_link = &main_ctx;
    makecontext(&co_ctx, co_body, 0);
    swapcontext(&main_ctx, &co_ctx);
    *res = result;
    return th;
}
static int sgn(int v) { return v < 0 ? -1 : v > 0; }
/* contents family for n >= 5: equal up to pos (pos -1: equal throughout), the first difference in one of three byte orders, then one of three suffix classes */
static void fam_fill(unsigned char *a, unsigned char *b, int n, int pos, int ord, int suf) {
    for (int i = 0; i < n; i++) { a[i] = 0x41 + i; b[i] = 0x41 + i; }
    if (pos >= 0) {
        a[pos] = ord == 0 ? 0x10 : ord == 1 ? 0x80 : 0xff; b[pos] = ord == 0 ? 0x90 : ord == 1 ? 0x7f : 0x00;
        for (int i = pos + 1; i < n; i++) { a[i] = suf == 0 ? 0 : suf == 1 ? 0xff : i; b[i] = suf == 0 ? 0xff : suf == 1 ? 0 : i; }
    }
}

int main(int argc, char **argv) {
    setvbuf(stdout, NULL, _IOLBF, 0);
    if (argc < 5) { fprintf(stderr, "usage\n"); return 2; }
    const char *fname = argv[1]; int n = atoi(argv[2]); long shard = atol(argv[3]), nsh = atol(argv[4]);
    void *L = dlopen(getenv("CAT_LIB"), RTLD_NOW | RTLD_GLOBAL);
    if (!L) { fprintf(stderr, "cannot load CAT_LIB: %s\n", dlerror()); return 2; }
    char sym[64]; snprintf(sym, sizeof sym, "_%s_chk", fname);
    fn = (cmpfn)dlsym(L, sym); if (!fn) { fprintf(stderr, "missing %s\n", sym); return 2; }
    int isb = strstr(fname, "bcmp") != NULL;
    if (argc >= 6 && !strcmp(argv[5], "alldiff")) {
        /* result only: regions of 2^n bytes in which EVERY byte pair differs by the same value x, with x * 2^n a multiple of 2^32 (and of 2^16, 2^8):
         * an implementation that adds the differences up instead of or-ing them sees its sum wrap to zero.  x = 2^(32-n) for n <= 31, else x = 1 and 0xff. */
        size_t nn = (size_t)1 << n, win = 32u << 20, span = (nn + win - 1) / win * win; long nviol = 0;
        int xs[2] = { n <= 31 ? 1 << (32 - n) : 1, n <= 31 ? 0 : 0xff };
        if (xs[0] > 0xff) { fprintf(stderr, "n too small: the difference has to be a byte value\n"); return 2; }
        for (int xi = 0; xi < 2 && xs[xi]; xi++) {
            int fa = memfd_create("a", 0), fb = memfd_create("b", 0);
            if (fa < 0 || fb < 0 || ftruncate(fa, win) || ftruncate(fb, win)) { fprintf(stderr, "memfd failed\n"); return 2; }
            unsigned char *wb = mmap(NULL, win, PROT_READ | PROT_WRITE, MAP_SHARED, fb, 0); memset(wb, xs[xi], win);
            unsigned char *r1 = mmap(NULL, span, PROT_NONE, MAP_PRIVATE | MAP_ANONYMOUS | MAP_NORESERVE, -1, 0), *r2 = mmap(NULL, span, PROT_NONE, MAP_PRIVATE | MAP_ANONYMOUS | MAP_NORESERVE, -1, 0);
            if (r1 == MAP_FAILED || r2 == MAP_FAILED) { fprintf(stderr, "cannot reserve %zu bytes twice\n", span); return 2; }
            for (size_t off = 0; off < span; off += win) if (mmap(r1 + off, win, PROT_READ, MAP_SHARED | MAP_FIXED, fa, 0) == MAP_FAILED || mmap(r2 + off, win, PROT_READ, MAP_SHARED | MAP_FIXED, fb, 0) == MAP_FAILED) { fprintf(stderr, "window map failed\n"); return 2; }
            size_t bos = nn > ((size_t)256 << 20) ? nn : (size_t)-1;      /* above RSIZE_MAX_MEM only with the object sizes known */
            for (int sw = 0; sw < 2; sw++) {
                int r = sw ? fn(r2, r1, nn, bos, bos) : fn(r1, r2, nn, bos, bos); int w = sw ? 1 : -1;
                int bad = isb ? r == 0 : sgn(r) != w;
                if (argc >= 7) printf("%s(%s, %s, n=2^%d) with every byte pair 0x00 / 0x%02x -> %d (expected %s)\n", fname, sw ? "b2" : "b1", sw ? "b1" : "b2", n, xs[xi], r, isb ? "non-zero" : w < 0 ? "negative" : "positive");
                if (bad) { nviol++; if (nviol == 1 && argc < 7) printf("{\"t\":\"viol\",\"sig\":\"C19|%s|wrong-result|n=2^%d,every-byte-differs\",\"case\":\"%s %d alldiff -\"}\n", fname, n, fname, n); }
            }
            munmap(r1, span); munmap(r2, span); munmap(wb, win); close(fa); close(fb);
        }
        if (argc >= 7) { printf(nviol ? "VERDICT violation\n" : "VERDICT ok\n"); return nviol ? 1 : 0; }
        printf("{\"t\":\"stat\",\"fn\":\"%s\",\"n\":%d,\"contents\":2,\"traced\":2,\"distinct_traces\":1,\"instructions\":0,\"data_accesses\":0,\"violating\":%ld}\n", fname, n, nviol);
        return 0;
    }
    if (argc >= 6 && !strcmp(argv[5], "huge")) {
        /* result only (no trace): regions of n = 2^31 + 4096 / 2^32 + 4096 bytes whose first difference lies in the last page.  The object sizes are
         * known to the library (unknown ones are limited to RSIZE_MAX_MEM).  Both regions are windows onto one 32 MiB memory file, the last window of the
         * second region onto a copy with one byte changed. */
        size_t nn = (n == 31 ? (size_t)1 << 31 : (size_t)1 << 32) + 4096, win = 32u << 20, span = (nn + win - 1) / win * win;
        int fa = memfd_create("a", 0), fb = memfd_create("b", 0);
        if (fa < 0 || fb < 0 || ftruncate(fa, win) || ftruncate(fb, win)) { fprintf(stderr, "memfd failed\n"); return 2; }
        unsigned char *wa = mmap(NULL, win, PROT_READ | PROT_WRITE, MAP_SHARED, fa, 0), *wb = mmap(NULL, win, PROT_READ | PROT_WRITE, MAP_SHARED, fb, 0);
        for (size_t i = 0; i < win; i++) wa[i] = wb[i] = (unsigned char)(i * 131 + (i >> 12));
        size_t last = span - win, diff_at = nn - 1000; wb[diff_at - last] ^= 0x81;      /* b2 differs from b1 at offset n - 1000 only */
        unsigned char *r1 = mmap(NULL, span, PROT_NONE, MAP_PRIVATE | MAP_ANONYMOUS | MAP_NORESERVE, -1, 0), *r2 = mmap(NULL, span, PROT_NONE, MAP_PRIVATE | MAP_ANONYMOUS | MAP_NORESERVE, -1, 0);
        if (r1 == MAP_FAILED || r2 == MAP_FAILED) { fprintf(stderr, "cannot reserve %zu bytes twice\n", span); return 2; }
        for (size_t off = 0; off < span; off += win) {
            if (mmap(r1 + off, win, PROT_READ, MAP_SHARED | MAP_FIXED, fa, 0) == MAP_FAILED || mmap(r2 + off, win, PROT_READ, MAP_SHARED | MAP_FIXED, off == last ? fb : fa, 0) == MAP_FAILED) { fprintf(stderr, "window map failed\n"); return 2; } }
        int want = wa[diff_at - last] < wb[diff_at - last] ? -1 : 1; long nviol = 0;
        for (int sw = 0; sw < 2; sw++) {
            int r = sw ? fn(r2, r1, nn, nn, nn) : fn(r1, r2, nn, nn, nn); int w = sw ? -want : want;
            int bad = isb ? r == 0 : sgn(r) != w;
            if (argc >= 7) printf("%s(%s, %s, n=%zu) with the only difference at offset %zu -> %d (expected %s)\n", fname, sw ? "b2" : "b1", sw ? "b1" : "b2", nn, diff_at, r, isb ? "non-zero" : w < 0 ? "negative" : "positive");
            if (bad) { nviol++; if (nviol == 1 && argc < 7) printf("{\"t\":\"viol\",\"sig\":\"C19|%s|wrong-result|n=2^%d+4096\",\"case\":\"%s %d huge -\"}\n", fname, n, fname, n); }
        }
        /* and equal regions */
        { int r = fn(r1, r1 + 0, nn, nn, nn); if (r != 0) { nviol++; if (argc < 7) printf("{\"t\":\"viol\",\"sig\":\"C19|%s|wrong-result|n=2^%d+4096,equal\",\"case\":\"%s %d huge -\"}\n", fname, n, fname, n); } }
        if (argc >= 7) { printf(nviol ? "VERDICT violation\n" : "VERDICT ok\n"); return nviol ? 1 : 0; }
        printf("{\"t\":\"stat\",\"fn\":\"%s\",\"n\":%d,\"contents\":3,\"traced\":3,\"distinct_traces\":1,\"instructions\":0,\"data_accesses\":0,\"violating\":%ld}\n", fname, n, nviol);
        return 0;
    }
    /* operands: each at the end of its own page pair; stack region */
    /* each operand region is 4 pages; the operand ends 1 page before the region's end (n <= 3 pages) */
    unsigned char *m = mmap(NULL, 12 * PG + stk_sz, PROT_READ | PROT_WRITE, MAP_PRIVATE | MAP_ANONYMOUS, -1, 0);
    if (n > (int)(3 * PG)) { fprintf(stderr, "n too large\n"); return 2; }
    opA = m + 3 * PG - ((size_t)n + 15) / 16 * 16 + (n > 16 ? 3 : 0); opB = m + 7 * PG - ((size_t)n + 15) / 16 * 16 + (n > 16 ? 5 : 0); stk = m + 10 * PG;
    if (n <= 16) { opA = m + PG; opB = m + 5 * PG; }
    regs[nregs].a = m; regs[nregs].n = 4 * PG; regs[nregs].id = 1; nregs++;
    regs[nregs].a = m + 4 * PG; regs[nregs].n = 4 * PG; regs[nregs].id = 2; nregs++;
    regs[nregs].a = stk; regs[nregs].n = stk_sz; regs[nregs].id = 3; nregs++;
    dl_iterate_phdr(cb, NULL);
    static char alt[1 << 16]; stack_t ss = { .ss_sp = alt, .ss_size = sizeof alt }; sigaltstack(&ss, NULL);
    struct sigaction sa; memset(&sa, 0, sizeof sa); sa.sa_sigaction = on_sig; sa.sa_flags = SA_SIGINFO | SA_ONSTACK | SA_NODEFER;
    sigaction(SIGSEGV, &sa, NULL); sigaction(SIGTRAP, &sa, NULL);
    static unsigned char a[3 * PG + 16], b[3 * PG + 16];
    if (argc >= 8 && !strcmp(argv[5], "replay")) {
        verbose = 1; vout = stdout;
        if (argv[6][0] == '@') { int pos, ord, suf; if (sscanf(argv[6], "@%d,%d,%d", &pos, &ord, &suf) != 3) return 2; fam_fill(a, b, n, pos, ord, suf); printf("contents: family first-difference-at %d, order %d, suffix class %d\n", pos, ord, suf); }
        else for (int i = 0; i < n; i++) { unsigned v; sscanf(argv[6] + 2 * i, "%2x", &v); a[i] = v; sscanf(argv[7] + 2 * i, "%2x", &v); b[i] = v; }
        if (n > 64) verbose = -1;
        int r; uint64_t h0, h1; static unsigned char z[3 * PG + 16];
        verbose = 0; h0 = traced_call(z, z, n, &r); long i0 = n_instr, d0 = n_data;
        printf("reference contents (all zero): trace hash %016lx instructions %ld data accesses %ld\n", (unsigned long)h0, i0, d0);
        if (verbose == -1) { verbose = 0; printf("(trace listing omitted for n > 64)\n"); } else { verbose = 1; printf("trace of the replayed contents:\n"); } h1 = traced_call(a, b, n, &r);
        printf("replayed contents: trace hash %016lx instructions %ld data accesses %ld result %d (memcmp sign %d)\n", (unsigned long)h1, n_instr, n_data, r, sgn(memcmp(a, b, n)));
        int bad = h0 != h1 || (isb ? (r == 0) != (memcmp(a, b, n) == 0) : sgn(r) != sgn(memcmp(a, b, n)));
        printf(bad ? "VERDICT violation\n" : "VERDICT ok\n"); return bad;
    }
    /* enumeration of contents for this n */
    static const unsigned char al5[] = { 0x00, 0x01, 0x7f, 0x80, 0xff }, al3[] = { 0x00, 0x80, 0xff };
    const unsigned char *al; int na;
    if (n <= 1) { al = NULL; na = 256; } else if (n <= 3) { al = al5; na = 5; } else if (n == 4) { al = al3; na = 3; } else { al = NULL; na = 0; }
    long total = 0, done = 0, nviol = 0; uint64_t h_ref = 0; int have_ref = 0; int distinct = 0;
    uint64_t seenh[8]; int nseen = 0;
    if (n == 0) { int r; h_ref = traced_call(a, b, 0, &r); total = done = 1; have_ref = 1; distinct = 1; if (r != 0) { printf("{\"t\":\"viol\",\"sig\":\"C19|%s|wrong-result|n=0\",\"case\":\"%s 0 - -\"}\n", fname, fname); } }
    else if (na) {
        long combos = 1; for (int i = 0; i < 2 * n; i++) combos *= na;
        for (long c = 0; c < combos; c++) {
            total++;
            if ((c % nsh) != shard && c != 0) continue;     /* c == 0 (reference contents) runs in every shard */
            long t = c; for (int i = 0; i < n; i++) { a[i] = al ? al[t % na] : t % na; t /= na; } for (int i = 0; i < n; i++) { b[i] = al ? al[t % na] : t % na; t /= na; }
            int r; uint64_t h = traced_call(a, b, n, &r); done++;
            if (!have_ref) { h_ref = h; have_ref = 1; }
            int k; for (k = 0; k < nseen; k++) if (seenh[k] == h) break;
            if (k == nseen && nseen < 8) seenh[nseen++] = h;
            int wrong = isb ? (r == 0) != (memcmp(a, b, n) == 0) : sgn(r) != sgn(memcmp(a, b, n));
            if ((h != h_ref || wrong) && nviol < 3) {
                char ha[40], hb[40]; for (int i = 0; i < n; i++) { sprintf(ha + 2 * i, "%02x", a[i]); sprintf(hb + 2 * i, "%02x", b[i]); }
                printf("{\"t\":\"viol\",\"sig\":\"C19|%s|%s|n=%d\",\"case\":\"%s %d %s %s\"}\n", fname, wrong ? "wrong-result" : "trace-depends-on-contents", n, fname, n, ha, hb);
            }
            if (h != h_ref || wrong) nviol++;
        }
        distinct = nseen;
    } else {
        /* n >= 5: first difference at each position, each ordering, equal prefix / arbitrary suffix classes */
        for (int pos = -1; pos < n; pos++) {
            if (n > 64) {       /* long operands: positions at the borders of 16, 64 and 4096-byte blocks, the middle and the ends; C19_LITE: the block borders only */
                static const int P[] = { -1, 0, 4095, 4096, -2 /* n-1 */, 1, 15, 16, 63, 64, -3 /* n/2 */, 4097, -4 /* n-2 */ };
                int np = getenv("C19_LITE") ? 5 : 13, keep = 0;
                for (int i = 0; i < np; i++) { int q = P[i] == -2 ? n - 1 : P[i] == -3 ? n / 2 : P[i] == -4 ? n - 2 : P[i]; if (q == pos) keep = 1; }
                if (!keep) continue;
            }
            for (int ord = 0; ord < 3; ord++) for (int suf = 0; suf < 3; suf++) {
            if (n > 64 && (ord == 1 || suf == 1)) continue;
            total++;
            if ((total % nsh) != shard && total != 1) continue;
            fam_fill(a, b, n, pos, ord, suf);
            int r; uint64_t h = traced_call(a, b, n, &r); done++;
            if (!have_ref) { h_ref = h; have_ref = 1; }
            int k; for (k = 0; k < nseen; k++) if (seenh[k] == h) break;
            if (k == nseen && nseen < 8) seenh[nseen++] = h;
            int wrong = isb ? (r == 0) != (memcmp(a, b, n) == 0) : sgn(r) != sgn(memcmp(a, b, n));
            if ((h != h_ref || wrong) && nviol < 3)
                printf("{\"t\":\"viol\",\"sig\":\"C19|%s|%s|n=%d\",\"case\":\"%s %d @%d,%d,%d -\"}\n", fname, wrong ? "wrong-result" : "trace-depends-on-contents", n, fname, n, pos, ord, suf);
            if (h != h_ref || wrong) nviol++;
        } }
        distinct = nseen;
    }
    printf("{\"t\":\"stat\",\"fn\":\"%s\",\"n\":%d,\"contents\":%ld,\"traced\":%ld,\"distinct_traces\":%d,\"instructions\":%ld,\"data_accesses\":%ld,\"violating\":%ld}\n",
           fname, n, total, done, distinct, n_instr, n_data, nviol);
    return 0;
}
