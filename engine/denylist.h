/* denylist.h - libc functions that keep or hand out process-wide state by contract.  They are defined in the harness
 * executable so that calls coming out of the shared library resolve to them (link with -rdynamic); each records that it
 * was called while deny_on is set and forwards to the real function.  State kept outside the library's own static
 * segment (libc's localtime buffer, the process umask, libc's hidden multibyte conversion state) is visible to the
 * checks only through this list.  Included by trapvm/c12.c and cat/cat.c. */
#ifndef DENYLIST_H
#define DENYLIST_H
#include <dlfcn.h>
#include <time.h>
#include <string.h>
#include <stdlib.h>
#include <stdio.h>
#include <wchar.h>
#include <sys/stat.h>
static const char *deny_hit; static volatile int in_op;
#define REAL(name) static __typeof__(name) *real; if (!real) real = (__typeof__(name) *)dlsym(RTLD_NEXT, #name)
struct tm *localtime(const time_t *t) { REAL(localtime); if (in_op) deny_hit = "localtime"; return real(t); }
struct tm *gmtime(const time_t *t) { REAL(gmtime); if (in_op) deny_hit = "gmtime"; return real(t); }
char *asctime(const struct tm *t) { REAL(asctime); if (in_op) deny_hit = "asctime"; return real(t); }
char *ctime(const time_t *t) { REAL(ctime); if (in_op) deny_hit = "ctime"; return real(t); }
char *strtok(char *a, const char *b) { REAL(strtok); if (in_op) deny_hit = "strtok"; return real(a, b); }
int rand(void) { REAL(rand); if (in_op) deny_hit = "rand"; return real(); }
mode_t umask(mode_t m) { REAL(umask); if (in_op) deny_hit = "umask"; return real(m); }
char *tmpnam(char *b) { REAL(tmpnam); if (in_op) deny_hit = "tmpnam"; return real(b); }
/* multibyte conversion with the conversion state hidden inside libc: the stateless-looking forms, and the restartable forms given a null state */
int wctomb(char *d, wchar_t w) { REAL(wctomb); if (in_op) deny_hit = "wctomb"; return real(d, w); }
int mbtowc(wchar_t *d, const char *s, size_t n) { REAL(mbtowc); if (in_op) deny_hit = "mbtowc"; return real(d, s, n); }
int mblen(const char *s, size_t n) { REAL(mblen); if (in_op) deny_hit = "mblen"; return real(s, n); }
size_t mbrlen(const char *s, size_t n, mbstate_t *ps) { REAL(mbrlen); if (in_op && !ps) deny_hit = "mbrlen(ps=NULL)"; return real(s, n, ps); }
size_t mbrtowc(wchar_t *d, const char *s, size_t n, mbstate_t *ps) { REAL(mbrtowc); if (in_op && !ps) deny_hit = "mbrtowc(ps=NULL)"; return real(d, s, n, ps); }
size_t wcrtomb(char *d, wchar_t w, mbstate_t *ps) { REAL(wcrtomb); if (in_op && !ps) deny_hit = "wcrtomb(ps=NULL)"; return real(d, w, ps); }
size_t mbsrtowcs(wchar_t *d, const char **s, size_t n, mbstate_t *ps) { REAL(mbsrtowcs); if (in_op && !ps) deny_hit = "mbsrtowcs(ps=NULL)"; return real(d, s, n, ps); }
size_t wcsrtombs(char *d, const wchar_t **s, size_t n, mbstate_t *ps) { REAL(wcsrtombs); if (in_op && !ps) deny_hit = "wcsrtombs(ps=NULL)"; return real(d, s, n, ps); }
size_t mbsnrtowcs(wchar_t *d, const char **s, size_t m, size_t n, mbstate_t *ps) { REAL(mbsnrtowcs); if (in_op && !ps) deny_hit = "mbsnrtowcs(ps=NULL)"; return real(d, s, m, n, ps); }
size_t wcsnrtombs(char *d, const wchar_t **s, size_t m, size_t n, mbstate_t *ps) { REAL(wcsnrtombs); if (in_op && !ps) deny_hit = "wcsnrtombs(ps=NULL)"; return real(d, s, m, n, ps); }
#endif
