"""C18: secure erase really erases, in every build configuration of the caller.
Part 1: a fixed set of caller programs (erased buffer dead afterwards: stack, heap-then-free, static) is compiled in every
configuration of the matrix compiler x optimisation level x linkage (shared, static archive, link-time optimisation with
the library's own IR) and the erased bytes are inspected out of band (private stack searched after return, heap block
inspected inside free(), writable segments searched).  Part 2: all n x alignments x fill values through the library's
entry points, for the library built at several optimisation levels: exactly the addressed bytes change."""
import os, sys, json, time, subprocess, re
from concurrent.futures import ThreadPoolExecutor
from . import vbuild, common, crosspass
ROOT = common.ROOT
SRCD = os.path.join(ROOT, "engine", "c18")
OUT = os.path.join(ROOT, "build", "c18")
REPO = vbuild.REPO
OPTS = ["-O0", "-O1", "-O2", "-O3", "-Os"]


def matrix(tier):
    """(name, cc, opt, linkage, library variant)"""
    m = []
    if tier == "quick":
        for opt in ("-O0", "-O2", "-O3"):
            m += [("gcc", opt, "shared", "prod"), ("gcc", opt, "static", "O2"), ("gcc", opt, "lto", "ltogcc")]
        m += [("clang", "-O2", "shared", "prod"), ("clang", "-O2", "lto", "ltoclang"), ("clang", "-O3", "static", "clangO2")]
    else:
        for opt in OPTS:
            m += [("gcc", opt, "shared", "prod"), ("gcc", opt, "static", "O2"), ("gcc", opt, "static", "O3"), ("gcc", opt, "lto", "ltogcc"), ("gcc", opt, "lto", "ltogccO3"),
                  ("clang", opt, "shared", "prod"), ("clang", opt, "static", "clangO2"), ("clang", opt, "static", "clangO3"), ("clang", opt, "lto", "ltoclang"), ("clang", opt, "lto", "ltoclangO3"),
                  ("gcc", opt, "static", "clangO2"), ("clang", opt, "static", "O3")]
    return [(f"{cc}{opt}-{link}-{lib}", cc, opt, link, lib) for cc, opt, link, lib in m]


def sh(cmd, **kw):
    return subprocess.run(cmd, capture_output=True, text=True, errors="replace", **kw)


def build_inspect():
    os.makedirs(OUT, exist_ok=True)
    o = os.path.join(OUT, "inspect.o")
    common.cc(o, [os.path.join(SRCD, "inspect.c")], ["-O1", "-g", "-c", "-fno-lto", "-I" + SRCD], deps=[os.path.join(SRCD, "c18.h")])
    return o


def build_config(cfg, insp):
    name, cc, opt, link, lib = cfg
    d = os.path.join(OUT, name); os.makedirs(d, exist_ok=True)
    inc = ["-I" + SRCD, "-I" + os.path.join(REPO, "include"), "-I" + REPO]
    cobj = os.path.join(d, "client.o"); exe = os.path.join(d, "run")
    flags = [opt, "-g", "-fno-strict-aliasing"] + (["-flto"] if link == "lto" else [])
    r = sh([cc] + flags + inc + ["-c", os.path.join(SRCD, "client.c"), "-o", cobj])
    if r.returncode: return None, "client does not compile: " + r.stderr[-1500:]
    so = vbuild.build(lib); libdir = os.path.dirname(so)
    if link == "shared":
        cmd = [cc, opt, "-o", exe, insp, cobj, so, "-Wl,-rpath," + libdir, "-Wl,-z,now"]
    elif link == "static":
        cmd = [cc, opt, "-o", exe, insp, cobj, os.path.join(libdir, "libsafec.a"), "-Wl,-z,now"]
    else:
        objs = vbuild.objects(lib)
        cmd = [cc, opt, "-flto" + ("=4" if cc == "gcc" else ""), "-o", exe, insp, cobj] + objs + ["-Wl,-z,now"] + (["-fuse-ld=lld"] if cc == "clang" else [])
    r = sh(cmd)
    if r.returncode: return None, "link failed: " + r.stderr[-1500:]
    # secondary observation: is a call to the erase function still in each caller?  (not an oracle; reported in the evidence)
    calls = None
    if link != "lto":
        dis = sh(["objdump", "-dr", "--no-show-raw-insn", cobj]).stdout
        calls = {}
        for m in re.finditer(r"<f_(\w+)>:\n(.*?)(?=\n\n|\Z)", dis, re.S):
            calls[m.group(1)] = bool(re.search(r"_(mem(set|zero)(16|32)?|strzero)_s_chk", m.group(2)))
    return exe, calls


def run(tier, deadline):
    t0 = time.time(); insp = build_inspect()
    cfgs = matrix(tier)
    # libraries first (serial per variant, each 16-way inside)
    for lib in sorted(set(c[4] for c in cfgs)): vbuild.build(lib)
    viol = {}; internal = []; cov_cfg = {}; nscen = 0; nrun = 0; materialised = 0; elided = {}
    def one(cfg):
        exe, info = build_config(cfg, insp)
        if exe is None: return cfg, None, info, None
        r = sh([exe], timeout=120)
        return cfg, r, None, info
    with ThreadPoolExecutor(16) as ex:
        for cfg, r, err, calls in ex.map(one, cfgs):
            name = cfg[0]
            if r is None: internal.append(f"{name}: {err}"); continue
            if r.returncode != 0: internal.append(f"{name}: exit {r.returncode} {r.stderr[-300:]}"); continue
            rows = [json.loads(l) for l in r.stdout.splitlines() if l.startswith("{")]
            nscen = len(rows); ok = 0
            for o in rows:
                nrun += 1; scn = o["scn"]; n = o["n"]
                cls = f"{cfg[1]}{cfg[2]},{cfg[3]},{cfg[4]}"
                case = f"scenario {name} {scn}"
                if o["control"]:
                    # the inspection must find an un-erased secret, otherwise it proves nothing in this configuration
                    thr = 17 if o["kind"] == "s" else 8      # the same thresholds the verdict uses (the way back from the private stack may overwrite the frame's top)
                    if o["residue"] < thr: internal.append(f"{name}: control {scn} not found by the inspection (residue {o['residue']} of {n})")
                    continue
                if o["rc"] != 0: internal.append(f"{name}: {scn} returned {o['rc']}"); continue
                if o["kind"] == "s":
                    if o["fill_run"] >= n: materialised += 1
                    bad = o["residue"] >= 17 and o["fill_run"] < n
                elif o["kind"] == "h":
                    if o["heap_blocks_seen"] < 1: internal.append(f"{name}: {scn}: free() never saw the block"); continue
                    materialised += 1
                    bad = o["residue"] >= 8 or o["fill_run"] < n
                else:
                    materialised += 1
                    bad = o["residue"] >= 8
                if bad:
                    sig = f"C18|{scn}|secret-still-in-memory-after-erase|{cls}"
                    e = viol.setdefault(sig, [0, case]); e[0] += 1
                else: ok += 1
            cov_cfg[name] = ok
            if calls:
                for k, v in calls.items():
                    if not v and not k.startswith("control") and "control" not in k: elided.setdefault(k, []).append(name)
    # part 2: in-place enumeration through the library at several optimisation levels
    ip = os.path.join(OUT, "inplace"); common.cc(ip, [os.path.join(SRCD, "inplace.c")], ["-O1", "-g", "-w", "-ldl"])
    libs2 = ["prod", "O2", "clangO2"] if tier == "quick" else ["prod", "O1", "O2", "O3", "clangO2", "clangO3", "ltogcc", "ltoclang"]
    nmax = "130" if tier == "quick" else "700"
    calls2 = 0
    def two(lib):
        e2 = dict(os.environ, CAT_LIB=vbuild.build(lib))
        if lib in ("prod", "O2"): e2["C18_HUGE"] = "1"        # sizes around 4 GiB (about 4 s each)
        return lib, sh([ip, nmax], env=e2, timeout=max(30, deadline - (time.time() - t0)))
    with ThreadPoolExecutor(8) as ex:
        for lib, r in ex.map(two, libs2):
            if r.returncode != 0: internal.append(f"inplace {lib}: exit {r.returncode} {r.stderr[-300:]}"); continue
            for ln in r.stdout.splitlines():
                if not ln.startswith("{"): continue
                o = json.loads(ln)
                if o["t"] == "viol":
                    sig = o["sig"] + "|lib=" + lib; e = viol.setdefault(sig, [0, f"inplace {lib} {o['case']}"]); e[0] += o["n"]
                else: calls2 += o["calls"]
    # borrowed passes: the erase entry points as macros of the public headers (each argument evaluated once) and their footprint in the library's static storage (a cached fill block would be shared state)
    ER = ("memset_s", "memset16_s", "memset32_s", "memzero_s", "memzero16_s", "memzero32_s", "strzero_s", "wmemset_s")
    xv, xn, xi = crosspass.hdr("C18", lambda n: n in ER, tier); internal += xi
    fv, fn_, fi = crosspass.footprint("C18", list(ER), tier, 600); internal += fi
    for sig, case, n in xv + fv: e = viol.setdefault(sig, [0, case]); e[0] += n
    if internal:
        for m in internal[:10]: print("INTERNAL-ERROR:", m, file=sys.stderr)
        return 2
    violations = [common.Violation(sig, "", f"property=C18\nsignature={sig}\ncase={case}\n", n) for sig, (n, case) in sorted(viol.items())]
    def confirm(v):
        kv = dict(l.split("=", 1) for l in v.replay_text.strip().splitlines()); return replay(kv, quiet=True) == 1
    cov = {"evaluations": nrun + calls2, "distinct_nontrivial": materialised + calls2,
           "rule": "part 1: " + str(nscen) + " caller programs (memzero_s with constant sizes 24/32/64/65/200, with a run-time size, memset_s with zero and 0x5a and a run-time n, the 16- and 32-bit variants, strzero_s on a password, a key at an odd offset in a record, heap blocks erased and then freed, static objects; three controls that erase nothing) derive a secret in place from run-time data, use it through run-time indices, erase it and never read it again; each is compiled in every configuration of " + ("gcc {O0,O2,O3} x {shared, static archive, LTO} + three clang configurations" if tier == "quick" else "{gcc,clang} x {O0,O1,O2,O3,Os} x {shared O0 library, static archives built by gcc -O2/-O3 and clang -O2/-O3 (also cross-compiler), link-time optimisation against library IR built at -O2 and -O3}") + " and run on a private stack; afterwards the whole private stack, the freed heap block (inside the executable's own free) and the executable's writable segments are searched for the secret. Violation: 17 or more consecutive secret bytes on the stack while no run of n fill bytes exists (stack), any 8 secret bytes or a non-fill byte in the freed block (heap), 8 secret bytes in the writable segments (static). Every control must be found, otherwise the configuration is reported as an internal error. part 2: memset_s, memzero_s, memset16_s, memset32_s, memzero16_s, memzero32_s, strzero_s for every n in 1.." + nmax + ", every dest offset 0..15 (multiples of the element size), fill values {0, 0x5a.., a mixed pattern}, dmax = n and n+3, plus sizes around 256/512/1024/2000, plus (libraries prod and O2) memset_s/memzero_s with n of 1 GiB, 4 GiB-1, 4 GiB and 4 GiB+1 MiB and the object size known: refused or really erased (samples every 65521 bytes), against libraries " + ", ".join(libs2) + ": return EOK, every addressed byte holds the fill, every other byte of a 4 KiB arena is unchanged",
           "samples": ["gcc-O2-lto-ltogcc strzero_32", "clang-O3-static-clangO2 memzero_64", "gcc-O3-shared-prod heap_memset_s_48", "inplace memset_s n=13 offset=3 value=0x5a dmax=n+3"],
           "build_configurations": len(cfgs), "scenarios_per_configuration": nscen, "stack_scenarios_with_the_fill_visible": materialised,
           "callers_without_a_call_to_the_library_in_their_object_code": {k: len(v) for k, v in elided.items()}, "inplace_calls": calls2}
    return common.finish("C18", tier, t0, cov, violations,
                         ["x86-64, gcc 12 and clang 14 as callers' compilers; the set of caller programs is fixed (the property ranges over all programs: the check decides it for these callers in every configuration of the matrix, not for arbitrary callers)",
                          "a copy of the secret that the compiler itself made outside the addressed bytes (spill slot, saved vector register) is not the library's to erase: a stack scenario is judged violated only when the secret is present and no run of n fill bytes is"],
                         confirm=confirm, exhaustive=True)


def replay(kv, quiet=False):
    if crosspass.is_cross(kv["case"]): return crosspass.replay(kv, quiet)
    c = kv["case"].split()
    if c[0] == "scenario":
        name = c[1]; tier = "thorough"
        cfg = [x for x in matrix("thorough") + matrix("quick") if x[0] == name]
        if not cfg: print("unknown configuration", name); return 2
        exe, info = build_config(cfg[0], build_inspect())
        if exe is None: print(info); return 2
        r = sh([exe, c[2]])
        if not quiet: sys.stdout.write(r.stdout)
        for l in r.stdout.splitlines():
            if l.startswith("{"):
                o = json.loads(l); n = o["n"]
                bad = (o["residue"] >= 17 and o["fill_run"] < n) if o["kind"] == "s" else (o["residue"] >= 8 or o["fill_run"] < n) if o["kind"] == "h" else o["residue"] >= 8
                if not quiet: print("VERDICT", "violation: the secret is still in memory" if bad else "ok")
                return 1 if bad else 0
        return 2
    ip = os.path.join(OUT, "inplace"); common.cc(ip, [os.path.join(SRCD, "inplace.c")], ["-O1", "-g", "-w", "-ldl"])
    r = sh([ip, "replay"] + c[2:], env=dict(os.environ, CAT_LIB=vbuild.build(c[1])))
    if not quiet: sys.stdout.write(r.stdout); sys.stderr.write(r.stderr)
    return r.returncode
