"""C19: timingsafe_bcmp/timingsafe_memcmp: result vs memcmp and identical instruction+data-address trace for
all contents of a given n (single-step tracer over the real compiled code)."""
import os, sys, json, time, subprocess
from concurrent.futures import ThreadPoolExecutor
from . import vbuild, common
ROOT = common.ROOT
BIN = os.path.join(ROOT, "build", "trapvm", "c19")
SRC = [os.path.join(ROOT, "engine", "trapvm", "c19.c")]


def build():
    common.cc(BIN, SRC, ["-O1", "-g", "-Wall", "-ldl"]); return BIN


def run(tier, deadline):
    t0 = time.time(); build()
    variants = ["prod"] if tier == "quick" else ["prod", "O1", "O2", "O3", "clangO2"]
    libs = {v: vbuild.build(v) for v in variants}
    jobs = []
    for v in variants:
        for fn in ("timingsafe_bcmp", "timingsafe_memcmp"):
            for n in range(0, 9):
                nsh = 16 if n == 1 else 8 if n == 3 else 4 if n == 4 else 1
                if v != "prod" and n == 1: nsh = 16
                for sh in range(nsh): jobs.append((v, fn, n, sh, nsh, 0))
            # longer operands: block borders of vectorised or block-wise implementations (16, 32, 64, 4096)
            longer = [(16, 4, 0), (33, 4, 0), (4097, 16, 1)] if tier == "quick" else \
                     [(n, 2, 0) for n in (9, 12, 15)] + [(n, 4, 0) for n in (16, 17, 31, 32, 33)] + [(64, 8, 0), (65, 4, 0), (100, 4, 0), (4096, 16, 1), (4097, 16, 0)] + ([(8200, 16, 1)] if v in ("prod", "O2", "clangO2") else [])
            for n, nsh, lite in longer:
                for sh in range(nsh): jobs.append((v, fn, n, sh, nsh, lite))
    # results (not traces) for regions above 2 GiB and 4 GiB with the object sizes known; one byte differs, in the last page
    if tier == "thorough":
        for v in ("prod", "O2"):
            for fn in ("timingsafe_bcmp", "timingsafe_memcmp"):
                for n in (31, 32): jobs.append((v, fn, n, 0, 1, 2))
    else:
        jobs.append(("prod", "timingsafe_bcmp", 32, 0, 1, 2)); jobs.append(("prod", "timingsafe_memcmp", 31, 0, 1, 2))
    # results for regions of 2^n bytes in which every byte pair differs by x, x * 2^n a multiple of 2^32: a sum of differences wraps to zero, an or does not
    for v in (("prod",) if tier == "quick" else ("prod", "O2", "O3")):
        for fn in ("timingsafe_bcmp", "timingsafe_memcmp"):
            for n in ((25, 26, 28) if tier == "quick" else (25, 26, 27, 28, 32)): jobs.append((v, fn, n, 0, 1, 3))      # x = 2^(32-n) has to be a byte value: n >= 25
    jobs.sort(key=lambda j: -j[2] if j[5] < 2 else -10**9)
    viol = {}; internal = []; samples = []; tot = {"traced": 0, "contents": 0}; per = {}; timed_out = []
    def one(j):
        v, fn, n, sh, nsh, lite = j
        left = deadline - (time.time() - t0)
        if left < 3: timed_out.append(j); return j, None
        try: return j, subprocess.run([BIN, fn, str(n), str(sh), str(nsh)] + (["huge"] if lite == 2 else ["alldiff"] if lite == 3 else []), capture_output=True, text=True, env=dict(os.environ, CAT_LIB=libs[v], **({"C19_LITE": "1"} if lite == 1 else {})), timeout=left)
        except subprocess.TimeoutExpired: timed_out.append(j); return j, None
    with ThreadPoolExecutor(16) as ex:
        for j, r in ex.map(one, jobs):
            if r is None: continue
            v, fn, n, sh, nsh, lite = j
            if r.returncode != 0: internal.append(f"{j}: exit {r.returncode} {r.stdout[-200:]} {r.stderr[-200:]}"); continue
            for ln in r.stdout.splitlines():
                if not ln.startswith("{"): continue
                o = json.loads(ln)
                if o["t"] == "viol":
                    sig = o["sig"] + ("" if v == "prod" else "|" + v)
                    viol.setdefault(sig, [0, o["case"], v])[0] += 1
                elif o["t"] == "stat":
                    tot["traced"] += o["traced"]
                    if sh == 0: tot["contents"] += o["contents"]
                    k = f"{v}/{fn}/n={n}" if lite != 2 else f"{v}/{fn}/n=2^{n}+4096 (result only)"; e = per.setdefault(k, {"traced": 0, "distinct_traces": 0, "instructions": o["instructions"], "data_accesses": o["data_accesses"]})
                    e["traced"] += o["traced"]; e["distinct_traces"] = max(e["distinct_traces"], o["distinct_traces"])
                elif o["t"] == "internal": internal.append(f"{j}: {o['msg']}")
    if internal:
        for m in internal[:10]: print("INTERNAL-ERROR:", m, file=sys.stderr)
        return 2
    violations = [common.Violation(sig, "", f"property=C19\nvariant={v}\nsignature={sig}\ncase={case}\n", n) for sig, (n, case, v) in sorted(viol.items())]
    def confirm(vi):
        kv = dict(l.split("=", 1) for l in vi.replay_text.strip().splitlines()); return replay(kv, quiet=True) == 1
    cov = {"evaluations": tot["traced"], "distinct_nontrivial": max(2, tot["traced"] - 18 * len(variants)),
           "rule": "results (no traces) for n = 2^31 + 4096 and 2^32 + 4096 with known object sizes and the only difference in the last page, both operand orders (quick: one size per function on prod; thorough: both sizes on prod and O2); results for regions of 2^n bytes, n in {25, 26, 28} (thorough: 25..28 and 32 on prod, O2, O3), in which every byte pair differs by x with x * 2^n a multiple of 2^32 (a sum of differences wraps to zero); for each build, function and n in 0..8: all 256^2 byte pairs for n=1, {00,01,7f,80,ff}^(2n) for n=2,3, {00,80,ff}^8 for n=4, first-difference-at-each-position families (3 byte orders x 3 suffix classes) for n=5..8 and for n in {16, 33} (thorough: 9, 12, 15, 16, 17, 31, 32, 33, 64); for long operands n in {4097} (thorough: 65, 100, 4096, 4097, 8200) the first difference at the borders of 16-, 64- and 4096-byte blocks, the middle and both ends (lite sets: -1, 0, 4095, 4096, n-1), two orders, equal or differing suffix; each call single-stepped (trap flag) with operands, library data and the call's own stack PROT_NONE so every data access is logged; oracle: result sign equals memcmp's and the hash of (instruction addresses, data addresses+direction) is identical for all contents of the same n; non-trivial = contents other than the all-equal reference",
           "samples": [{"build/fn/n": k, **v} for k, v in list(sorted(per.items()))[:12]],
           "per_build_fn_n": per, "builds": variants, "jobs_timed_out": len(timed_out)}
    assumptions = ["x86-64 trap flag delivers SIGTRAP after every instruction; page protection faults on every data access to the protected regions",
                   "microarchitectural timing is out of scope: the property as stated is about instructions and addresses"]
    return common.finish("C19", tier, t0, cov, violations, assumptions, confirm=confirm, exhaustive=not timed_out)


def replay(kv, quiet=False):
    build(); c = kv["case"].split(); v = kv.get("variant", "prod")
    if c[2] == "alldiff": r = subprocess.run([BIN, c[0], c[1], "0", "1", "alldiff", "verbose"], capture_output=True, text=True, env=dict(os.environ, CAT_LIB=vbuild.build(v)))
    elif c[2] == "huge": r = subprocess.run([BIN, c[0], c[1], "0", "1", "huge", "verbose"], capture_output=True, text=True, env=dict(os.environ, CAT_LIB=vbuild.build(v)))
    else: r = subprocess.run([BIN, c[0], c[1], "0", "1", "replay", c[2], c[3]], capture_output=True, text=True, env=dict(os.environ, CAT_LIB=vbuild.build(v)))
    if not quiet: sys.stdout.write(r.stdout[-6000:]); sys.stderr.write(r.stderr)
    return r.returncode
