/* cat.h - catalogue harness: role-driven bounded exhaustive exploration of safeclib entry points */
#ifndef CAT_H
#define CAT_H
#define _GNU_SOURCE
#include <stddef.h>
#include <stdint.h>
#include <stdio.h>
#include <string.h>
#include <stdlib.h>
#include <wchar.h>

/* library constants (checked at start-up against the headers by static asserts in cat.c) */
#define L_STR   4096UL
#define L_WSTR  1024UL
#define L_MEM   (256UL << 20)
#define BOSU    ((size_t)-1)

enum { EOK_ = 0, ESNULLP_ = 400, ESZEROL_ = 401, ESLEMIN_ = 402, ESLEMAX_ = 403, ESOVRLP_ = 404,
       ESEMPTY_ = 405, ESNOSPC_ = 406, ESUNTERM_ = 407, ESNODIFF_ = 408, ESNOTFND_ = 409,
       ESLEWRNG_ = 410, EOVERFLOW_ = 75 };

/* function attributes */
#define F_SP    0x0001  /* string-producing (C03) */
#define F_CE    0x0002  /* clears dest on error (C04) */
#define F_SL    0x0004  /* documented to null the slack (C08) */
#define F_OV    0x0008  /* forbids overlap (C07) */
#define F_MEMH  0x0010  /* reports through the mem handler */
#define F_DSTR  0x0020  /* dest must already hold a string (cat / in-place) */
#define F_QRY   0x0040  /* read-only query: contents enumerated over an alphabet */
#define F_NOSL0 0x0080  /* slen==0 is a documented no-op/shortcut (strncat: nothing appended) */
#define F_ERRNO 0x0100  /* reports only through errno: no code comparison (C05) */
#define F_WIDE  0x0200  /* wide/multibyte: run in both locales */
#define F_CE1   0x0400
#define F_NONULL 0x1000  /* the API documents no null-pointer constraint (timingsafe_*): NULL is never passed */
#define F_LAX    0x2000  /* the API documents no runtime-constraint reporting: C05 iv/v not demanded */
#define F_DMAX0OK 0x4000 /* dmax == 0 is not by itself a documented violation (memset family) */
#define F_SAMELEN 0x0800 /* the src operand has exactly dmax elements (no separate length) */  /* on error only dest[0] is documented to be cleared (not all dmax) */

enum { RT_E, RT_P, RT_B, RT_Z, RT_I, RT_V };   /* RT_V: plain int value, no failure indication */           /* errno_t / pointer+errp / bool / count / negative int */
enum { LIM_STR, LIM_WSTR, LIM_MEM, LIM_MEM16, LIM_MEM32, LIM_WMEM };

typedef struct Case Case;
typedef struct Ctx Ctx;
typedef struct Ref Ref;
typedef void (*RefFn)(const Ctx *, Ref *);

typedef struct Fn {
    const char *name, *sym, *sig;
    int w;            /* element width of the dest operand */
    int dunit;        /* bytes per unit of dmax */
    int sw;           /* element width of the src operand */
    int sunit;        /* bytes per unit of slen */
    int rt, lim;
    unsigned flags;
    RefFn ref;
    void *addr;       /* resolved symbol */
} Fn;

struct Case {
    int fn;
    int place;        /* 0 = R (flush against the following guard), 1 = L (flush against the preceding guard) */
    /* dest-like operand */
    int d_null;
    long d_obj;       /* object size in dmax units (truthful: >= dmax) */
    size_t dmax;
    int d_huge;       /* 0 ordinary, 1 = limit (truthful big object), 2 = limit+1 (PROT_NONE), 3 = SIZE_MAX (PROT_NONE) */
    int d_bos;        /* 0 unknown, 1 known = object bytes, 2 known but smaller than dmax (object really is that small) */
    int d_pk;         /* prior: 0 dirty 0xAA.., 1 string of d_pl elements + NUL then dirty, 2 explicit bytes dx */
    long d_pl;
    /* src-like operand */
    int s_null;
    long s_obj;       /* object size in elements */
    int s_k;          /* content: 0 pattern string, 2 explicit bytes sx */
    long s_len;       /* string length (elements before terminator) */
    int s_term;       /* terminator present */
    size_t slen;
    int s_huge;       /* as d_huge, for slen */
    int s_bos;        /* 0 unknown, 1 known = object bytes */
    long c, k;        /* char / count arguments */
    int o_null;       /* out-parameter passed as NULL */
    int alias;        /* the src argument is the dest pointer itself (same object) */
    int s_off;        /* source placed s_off bytes before the flush position (alignment sweep) */
    unsigned char dx[24], sx[24];
    int dxn, sxn;
};

/* explicit content bytes F0..F3 of a wide operand stand for characters with a multi-character case folding */
static inline unsigned long widen_x(unsigned char b) { return b == 0xF0 ? 0x390 : b == 0xF1 ? 0x3B0 : b == 0xF2 ? 0xDF : b == 0xF3 ? 0xFB03 :
    b == 0xF4 ? 0x80000000UL : b == 0xF5 ? 0xC0000000UL : b == 0xF6 ? 0xFFFFFFFFUL : b == 0xF7 ? 0x7FFFFFFFUL : b; }     /* F4..F7: 32-bit elements around the sign bit */
static inline unsigned long widen_e(unsigned char b, int w) { return w == 4 ? widen_x(b) : w == 2 ? (b == 0xF4 ? 0x8000UL : b == 0xF5 ? 0xC000UL : b == 0xF6 ? 0xFFFFUL : b == 0xF7 ? 0x7FFFUL : b) : b; }
#define MAXE 640      /* max elements of an ordinary operand in the lattice */

struct Ctx {
    const Fn *fn;
    const Case *c;
    /* materialised operands: pointers handed to the library (lib view) and harness views */
    unsigned char *dl, *dh;   /* dest: lib view / harness view (same bytes) */
    unsigned char *sl_, *sh;  /* src */
    size_t dbytes, sbytes;    /* object bytes */
    unsigned char dsnap[16384 + 64];     /* pre-call dest object (limit-sized operands fit) */
    unsigned char ssnap[16384 + 64];
    /* results */
    long rc;
    long out;                 /* value of the out parameter after the call (oI/oZ/oP/oE) */
    int out_set;
    int fault;                /* 0 none, 1 write, 2 read, 3 crash/abort, 4 hang */
    int fault_op;             /* which slot */
    long fault_off;           /* byte offset relative to the object start (negative: before) */
    void *fault_pc;
    int h_n;                  /* handler invocations */
    int h_code[4];
    int h_kind[4];            /* 0 str 1 mem */
};

enum { V_ANY, V_OK, V_FAIL };
struct Ref {
    int verdict, code;        /* code: expected error code when V_FAIL (0 = unspecified) */
    int has_dest;             /* dest[] holds the expected object prefix of dn elements */
    long dn;
    unsigned char dest[MAXE * 4 + 64];
    int dest_is_str;          /* expected result is a string: compare up to and including terminator */
    int has_out; long out;    /* expected out-parameter (index or value); for oP: element index into dest, -1 = NULL */
    int has_rc;  long rc;     /* expected return for RT_Z / RT_B / RT_P(index) */
    int plain;                /* success may also be a plain status code (ESNOTFND/ESNODIFF) with this value */
    int sign_only;            /* compare only the sign of out */
    int tail_prior_or_zero;   /* behind the dn expected elements dest holds what it held before, or zeros (nulled slack): nothing else of the source */
};

extern Fn fntab[];
extern int nfn;

static inline unsigned long eget(const void *p, int w, long i) {
    switch (w) { case 1: return ((const uint8_t *)p)[i]; case 2: return ((const uint16_t *)p)[i];
                 default: return ((const uint32_t *)p)[i]; }
}
static inline void eset(void *p, int w, long i, unsigned long v) {
    switch (w) { case 1: ((uint8_t *)p)[i] = v; break; case 2: ((uint16_t *)p)[i] = v; break;
                 default: ((uint32_t *)p)[i] = v; }
}
size_t fn_limit(const Fn *f);   /* limit of dmax in dmax units */
size_t fn_slimit(const Fn *f);  /* limit of slen in slen units */
#endif
