/* fntab.c - the catalogue: one row per entry point (signature roles + attributes transcribed from
 * the doc comments) and the small reference models used by C05/C06/C08/C10. */
#include "cat.h"
#include <dlfcn.h>
#include <ctype.h>
#include <strings.h>

/* ---- helpers over the pre-call snapshots */
#define NEL(x)  ((long)((x)->c->dmax * (x)->fn->dunit / (x)->fn->w))        /* declared dest elements */
#define DP(x,i) eget((x)->dsnap, (x)->fn->w, (i))
#define SP(x,i) eget((x)->ssnap, (x)->fn->sw, (i))
static long s_elems(const Ctx *x) { return (long)(x->sbytes / x->fn->sw); }
/* length of the prior dest string within the declared elements, -1 if unterminated */
static long dlen_prior(const Ctx *x) { long n = NEL(x); for (long i = 0; i < n; i++) if (!DP(x, i)) return i; return -1; }
/* length of the src string within its object, -1 if no terminator inside the object */
static long slen_obj(const Ctx *x) { long n = s_elems(x); for (long i = 0; i < n; i++) if (!SP(x, i)) return i; return -1; }
static void rset(Ref *r, long i, unsigned long v, int w) { eset(r->dest, w, i, v); }
static void r_ok_str(Ref *r) { r->verdict = V_OK; r->has_dest = 1; r->dest_is_str = 1; }
static void r_fail(Ref *r, int code) { r->verdict = V_FAIL; r->code = code; }
static int sbos_ovf(const Ctx *x) { return x->c->s_bos && x->c->slen * x->fn->sunit > x->sbytes; }

/* ---- copy / cat family */
static void ref_cpy(const Ctx *x, Ref *r) {           /* strcpy_s wcscpy_s stpcpy_s */
    long L = slen_obj(x), n = NEL(x); int w = x->fn->w;
    if (L < 0) { r->verdict = V_ANY; return; }
    if (L + 1 > n) { r_fail(r, ESNOSPC_); return; }
    r_ok_str(r);
    for (long i = 0; i <= L; i++) rset(r, i, SP(x, i), w);
    if (x->fn->rt == RT_P) { r->has_rc = 1; r->rc = L; r->has_out = 1; r->out = 0; }
}
static void ref_cat(const Ctx *x, Ref *r) {           /* strcat_s wcscat_s */
    long p = dlen_prior(x), L = slen_obj(x), n = NEL(x); int w = x->fn->w;
    if (p < 0) { r_fail(r, ESUNTERM_); return; }
    if (L < 0) { r->verdict = V_ANY; return; }
    if (p + L + 1 > n) { r_fail(r, ESNOSPC_); return; }
    r_ok_str(r);
    for (long i = 0; i < p; i++) rset(r, i, DP(x, i), w);
    for (long i = 0; i <= L; i++) rset(r, p + i, SP(x, i), w);
}
static long eff_src(const Ctx *x) {                   /* min(strlen(src), slen) within the object */
    long L = slen_obj(x);
    long m = L < 0 ? s_elems(x) : L;
    if ((size_t)m > x->c->slen) m = x->c->slen;
    return m;
}
static void ref_ncpy(const Ctx *x, Ref *r) {          /* strncpy_s wcsncpy_s stpncpy_s */
    long n = NEL(x); int w = x->fn->w;
    long m = eff_src(x);
    if (x->c->slen == 0 && x->fn->rt != RT_P) { r_ok_str(r); rset(r, 0, 0, w); return; }
    if (m + 1 > n) { r_fail(r, ESNOSPC_); return; }
    r_ok_str(r);
    for (long i = 0; i < m; i++) rset(r, i, SP(x, i), w);
    rset(r, m, 0, w);
    if (x->fn->rt == RT_P) { r->has_rc = 1; r->rc = m; r->has_out = 1; r->out = 0; }
}
static void ref_ncat(const Ctx *x, Ref *r) {          /* strncat_s wcsncat_s */
    long p = dlen_prior(x), n = NEL(x); int w = x->fn->w;
    if (p < 0) { r_fail(r, ESUNTERM_); return; }
    long m = eff_src(x);
    if (p + m + 1 > n) { r_fail(r, ESNOSPC_); return; }
    r_ok_str(r);
    for (long i = 0; i < p; i++) rset(r, i, DP(x, i), w);
    for (long i = 0; i < m; i++) rset(r, p + i, SP(x, i), w);
    rset(r, p + m, 0, w);
}

/* ---- memory family */
static void ref_memcpy(const Ctx *x, Ref *r) {        /* mem{cpy,move}{,16,32}_s wmem{cpy,move}_s */
    const Fn *f = x->fn; const Case *c = x->c;
    size_t dbytes = c->dmax * f->dunit, sb = c->slen * f->sunit;
    if (c->slen == 0) { r->verdict = V_OK; r->has_dest = 1; r->dn = 0; return; }   /* documented: EOK when slen = 0 */
    if (sb > dbytes) { r_fail(r, ESNOSPC_); return; }
    r->verdict = V_OK; r->has_dest = 1; r->dn = sb / f->w;
    memcpy(r->dest, x->ssnap, sb);
}
static void ref_memset(const Ctx *x, Ref *r) {        /* memset_s(dest,dmax,value,n) */
    const Fn *f = x->fn; const Case *c = x->c;
    size_t cnt = (size_t)c->k;                           /* n in elements */
    size_t delems = c->dmax * f->dunit / f->w;
    if (cnt == 0) { r->verdict = V_OK; r->has_dest = 1; r->dn = 0; return; }            /* documented: EOK when n = 0 */
    if (f->w == 1 && c->c > 255) { r_fail(r, ESLEMAX_); return; }
    if (cnt > fn_limit(f) * f->dunit / f->w) { r_fail(r, 0); return; }      /* above the limit: ESLEMAX is documented, ESNOSPC (n > dmax) is true as well */
    if (cnt > delems) { r_fail(r, ESNOSPC_); return; }
    r->verdict = V_OK; r->has_dest = 1; r->dn = cnt;
    unsigned long v = f->w == 1 ? (c->c & 0xff) : f->w == 2 ? (c->c & 0xffff) : (unsigned long)(uint32_t)c->c;
    for (size_t i = 0; i < cnt; i++) eset(r->dest, f->w, i, v);
}
static void ref_memzero(const Ctx *x, Ref *r) {
    const Fn *f = x->fn; long n = NEL(x);
    r->verdict = V_OK; r->has_dest = 1; r->dn = n;
    for (long i = 0; i < n; i++) eset(r->dest, f->w, i, 0);
}

/* ---- length */
static void ref_nlen(const Ctx *x, Ref *r) {          /* strnlen_s wcsnlen_s: never fails on valid input */
    long p = dlen_prior(x);
    r->verdict = V_OK; r->has_rc = 1; r->rc = p < 0 ? NEL(x) : p;
}


/* ---- in-place / fill string functions */
static void ref_fld(const Ctx *x, Ref *r) {            /* strcpyfld_s: copies slen chars, no termination */
    const Case *c = x->c; long n = NEL(x);
    if (c->slen == 0) { r->verdict = V_OK; r->has_dest = 1; r->dn = 0; return; }
    if ((long)c->slen > n) { r_fail(r, ESNOSPC_); return; }
    r->verdict = V_OK; r->has_dest = 1; r->dn = c->slen; memcpy(r->dest, x->ssnap, c->slen);
}
static void ref_fldin(const Ctx *x, Ref *r) {          /* strcpyfldin_s: string in, null-padded field out */
    const Case *c = x->c; long n = NEL(x);
    if (c->slen == 0) { r->verdict = V_ANY; return; }
    if ((long)c->slen > n) { r_fail(r, ESNOSPC_); return; }
    long m = eff_src(x);
    r->verdict = V_OK; r->has_dest = 1; r->dn = n; memset(r->dest, 0, n); memcpy(r->dest, x->ssnap, m);
}
static void ref_fldout(const Ctx *x, Ref *r) {         /* strcpyfldout_s: slen chars + NUL */
    const Case *c = x->c; long n = NEL(x);
    if (c->slen == 0) { r->verdict = V_ANY; return; }
    if ((long)c->slen > n) { r_fail(r, ESNOSPC_); return; }
    if ((long)c->slen == n) { r->verdict = V_ANY; return; }
    r->verdict = V_OK; r->has_dest = 1; r->dn = c->slen + 1; memcpy(r->dest, x->ssnap, c->slen); r->dest[c->slen] = 0;
}
static void ref_set(const Ctx *x, Ref *r) {            /* strset_s wcsset_s strnset_s wcsnset_s */
    const Fn *f = x->fn; const Case *c = x->c; long p = dlen_prior(x), n = NEL(x);
    int hask = strstr(f->sig, " k ") != NULL;
    if (c->c == 0 || p < 0) { r->verdict = V_ANY; return; }
    if (f->w == 1 && c->c > 255) { r_fail(r, ESLEMAX_); return; }
    if (f->w == 1 && c->c < 0) { r->verdict = V_ANY; return; }      /* 'value shall not be greater than 255': a negative value (a plain char above 0x7f) is neither clearly allowed nor clearly a violation */
    if (hask && c->k > n) { r_fail(r, ESNOSPC_); return; }
    long m = hask && c->k < p ? c->k : p;
    r_ok_str(r);
    for (long i = 0; i < p; i++) rset(r, i, i < m ? (unsigned long)(f->w == 1 ? (c->c & 0xff) : c->c) : DP(x, i), f->w);
    rset(r, p, 0, f->w);
    if (hask) { r->has_dest = 0; r->verdict = V_OK; }   /* strnset_s: what follows the n set characters is not specified here */
}
static void ref_zero(const Ctx *x, Ref *r) { r_ok_str(r); rset(r, 0, 0, x->fn->w); }   /* strzero_s */
static void ref_case(const Ctx *x, Ref *r) {           /* strto{lower,upper}case_s wcslwr_s wcsupr_s (ASCII alphabet) */
    const Fn *f = x->fn; long n = NEL(x); int up = strstr(f->name, "upper") || strstr(f->name, "upr");
    r->verdict = V_OK; r->has_dest = 1; r->dn = 0;
    for (long i = 0; i < n; i++) {
        unsigned long v = DP(x, i);
        if (v >= 0x80) { r->verdict = V_ANY; return; }
        rset(r, i, v ? (unsigned long)(up ? toupper((int)v) : tolower((int)v)) : 0, f->w); r->dn = i + 1;
        if (!v) break;
    }
}
static int is_ws(unsigned long v) { return v == ' ' || v == '\t'; }
static void ref_ljust(const Ctx *x, Ref *r) {
    long p = dlen_prior(x); if (NEL(x) <= 1) { r->verdict = V_ANY; return; } if (p < 0) { r_fail(r, ESUNTERM_); return; }
    long i = 0; while (i < p && is_ws(DP(x, i))) i++;
    r_ok_str(r); long k = 0; for (; i < p; i++) rset(r, k++, DP(x, i), 1); rset(r, k, 0, 1);
}
static void ref_rmws(const Ctx *x, Ref *r) {
    long p = dlen_prior(x); if (NEL(x) <= 1) { r->verdict = V_ANY; return; } if (p < 0) { r_fail(r, ESUNTERM_); return; }
    long i = 0, e = p; while (i < p && is_ws(DP(x, i))) i++; while (e > i && is_ws(DP(x, e - 1))) e--;
    r_ok_str(r); long k = 0; for (; i < e; i++) rset(r, k++, DP(x, i), 1); rset(r, k, 0, 1);
}
static void ref_nterm(const Ctx *x, Ref *r) {          /* strnterminate_s */
    long p = dlen_prior(x), n = NEL(x);
    r->verdict = V_OK; r->has_rc = 1; r->rc = p < 0 ? n - 1 : p;
}

/* ---- query references: operands as bounded element arrays */
typedef struct { unsigned long d[MAXE], s[MAXE]; long dn, sn; int dterm, sterm; } QO;
static void qo(const Ctx *x, QO *q) {
    long n = NEL(x); q->dn = 0; q->dterm = 0;
    for (long i = 0; i < n && i < MAXE; i++) { unsigned long v = DP(x, i); if (!v) { q->dterm = 1; break; } q->d[q->dn++] = v; }
    long m = s_elems(x); if (strstr(x->fn->sig, " l ") && (size_t)m > x->c->slen) m = x->c->slen;
    q->sn = 0; q->sterm = 0;
    for (long i = 0; i < m && i < MAXE; i++) { unsigned long v = SP(x, i); if (!v) { q->sterm = 1; break; } q->s[q->sn++] = v; }
}
static unsigned long fold(unsigned long v) { return v < 0x80 ? (unsigned long)tolower((int)v) : v; }
static int sgn(long v) { return v < 0 ? -1 : v > 0; }
static void r_out(Ref *r, long v) { r->verdict = V_OK; r->has_out = 1; r->out = v; }
static void r_notfound(Ref *r, int st) { r->verdict = V_OK; r->plain = st; }

static void ref_cmp(const Ctx *x, Ref *r) {            /* strcmp_s strcasecmp_s strcoll_s wcscmp_s wcsicmp_s wcscoll_s */
    QO q; qo(x, &q); const Fn *f = x->fn;
    int ci = strstr(f->name, "case") || strstr(f->name, "icmp");
    if (!q.sterm) { r->verdict = V_ANY; return; }
    /* the folding compare works on Unicode text: an operand holding values above U+10FFFF (the dirty fill of an unterminated
     * operand) may be rejected, as wcsfc_s documents, or compared */
    if (ci && (f->flags & F_WIDE) && !q.dterm) { r->verdict = V_ANY; return; }   /* wcsicmp_s folds whole strings: an operand without terminator inside dmax is rejected (ESNOSPC, pinned by its test) */
    if (ci && (f->flags & F_WIDE)) { for (long k = 0; k < q.dn; k++) if (q.d[k] > 0x10FFFF) { r->verdict = V_ANY; return; } for (long k = 0; k < q.sn; k++) if (q.s[k] > 0x10FFFF) { r->verdict = V_ANY; return; } }
    if (ci && (f->flags & F_WIDE)) {       /* full case folding: some characters fold to two or three */
        static unsigned long fa[3 * MAXE + 4], fb[3 * MAXE + 4]; long na = 0, nb = 0;
        for (int w = 0; w < 2; w++) { unsigned long *o = w ? fb : fa; long *n = w ? &nb : &na; const unsigned long *in = w ? q.s : q.d; long len = w ? q.sn : q.dn;
            for (long k = 0; k < len; k++) { unsigned long v = in[k];
                if (v == 0x390) { o[(*n)++] = 0x3b9; o[(*n)++] = 0x308; o[(*n)++] = 0x301; } else if (v == 0x3b0) { o[(*n)++] = 0x3c5; o[(*n)++] = 0x308; o[(*n)++] = 0x301; }
                else if (v == 0xdf) { o[(*n)++] = 's'; o[(*n)++] = 's'; } else if (v == 0xfb03) { o[(*n)++] = 'f'; o[(*n)++] = 'f'; o[(*n)++] = 'i'; } else o[(*n)++] = fold(v); }
            o[*n] = 0; }
        long k = 0; while (fa[k] && fa[k] == fb[k]) k++;
        r_out(r, sgn((long)fa[k] - (long)fb[k])); r->sign_only = 1; return;
    }
    long i = 0;
    for (;; i++) {
        if (!q.dterm && i >= q.dn) { r_out(r, 0); r->sign_only = 1; return; }   /* first dmax elements equal */
        unsigned long a = i < q.dn ? q.d[i] : 0, b = i < q.sn ? q.s[i] : 0;
        if (ci) { a = fold(a); b = fold(b); }
        if (a != b || !a) { r_out(r, sgn((long)a - (long)b)); r->sign_only = 1; return; }
    }
}
static void ref_natcmp(const Ctx *x, Ref *r) {         /* strnatcmp_s wcsnatcmp_s: for operands of ASCII letters only (no digit runs, no blanks) the natural order is the plain one, folded if asked */
    QO q; qo(x, &q); int ci = x->c->c != 0;
    if (!q.sterm || !q.dterm) { r->verdict = V_ANY; return; }
    for (long k = 0; k < q.dn; k++) if (!((q.d[k] | 0x20) >= 'a' && (q.d[k] | 0x20) <= 'z')) { r->verdict = V_ANY; return; }
    for (long k = 0; k < q.sn; k++) if (!((q.s[k] | 0x20) >= 'a' && (q.s[k] | 0x20) <= 'z')) { r->verdict = V_ANY; return; }
    for (long i = 0;; i++) {
        unsigned long a = i < q.dn ? q.d[i] : 0, b = i < q.sn ? q.s[i] : 0;
        if (ci) { a = fold(a); b = fold(b); }
        if (a != b || !a) { r_out(r, sgn((long)a - (long)b)); r->sign_only = 1; return; }
    }
}
static void ref_ncmp(const Ctx *x, Ref *r) {           /* wcsncmp_s: the sign wcsncmp gives over the first min(count, dmax, smax) elements */
    QO q; qo(x, &q); long cnt = x->c->k;
    for (long i = 0;; i++) {
        if (i >= cnt) { r_out(r, 0); r->sign_only = 1; return; }
        if ((!q.dterm && i >= q.dn) || (!q.sterm && i >= q.sn)) { if (!q.dterm && i >= q.dn) { r_out(r, 0); r->sign_only = 1; } else r->verdict = V_ANY; return; }   /* dmax elements equal; what a src that ends first without terminator compares as is not defined */
        unsigned long a = i < q.dn ? q.d[i] : 0, b = i < q.sn ? q.s[i] : 0;
        if (a != b || !a) { r_out(r, sgn((long)a - (long)b)); r->sign_only = 1; return; }
    }
}
static void ref_cmpfld(const Ctx *x, Ref *r) {         /* strcmpfld_s: dmax characters, NUL does not stop */
    long n = NEL(x);
    if (s_elems(x) < n) { r->verdict = V_ANY; return; }
    for (long i = 0; i < n; i++) if (DP(x, i) != SP(x, i)) { r_out(r, sgn((long)DP(x, i) - (long)SP(x, i))); r->sign_only = 1; return; }
    r_out(r, 0); r->sign_only = 1;
}
static void ref_str(const Ctx *x, Ref *r) {            /* strstr_s strcasestr_s wcsstr_s */
    QO q; qo(x, &q); int ci = strstr(x->fn->name, "case") != NULL;
    if (q.sn == 0) { r->verdict = V_ANY; return; }
    for (long i = 0; i + q.sn <= q.dn; i++) {
        long j = 0; for (; j < q.sn; j++) { unsigned long a = q.d[i + j], b = q.s[j]; if (ci) { a = fold(a); b = fold(b); } if (a != b) break; }
        if (j == q.sn) { r_out(r, i); return; }
    }
    r_notfound(r, ESNOTFND_);
}
static void ref_chr(const Ctx *x, Ref *r) {            /* strchr_s strrchr_s strfirstchar_s strlastchar_s */
    QO q; qo(x, &q); const Fn *f = x->fn; long ch = x->c->c;
    int last = strstr(f->name, "rchr") || strstr(f->name, "last");
    int isstd = strstr(f->name, "chr_s") != NULL;
    if (isstd && ch > 255) { r_fail(r, ESLEMAX_); return; }
    ch &= 0xff;
    if (ch == 0) { if (isstd && q.dterm) r_out(r, q.dn); else r->verdict = V_ANY; return; }
    long at = -1;
    for (long i = 0; i < q.dn; i++) if (q.d[i] == (unsigned long)ch) { at = i; if (!last) break; }
    if (at >= 0) r_out(r, at); else r_notfound(r, ESNOTFND_);
}
static void ref_pbrk(const Ctx *x, Ref *r) {
    QO q; qo(x, &q);
    if (q.sn == 0) { r->verdict = V_ANY; return; }
    for (long i = 0; i < q.dn; i++) for (long j = 0; j < q.sn; j++) if (q.d[i] == q.s[j]) { r_out(r, i); return; }
    r_notfound(r, ESNOTFND_);
}
static void ref_spn(const Ctx *x, Ref *r) {            /* strspn_s strcspn_s */
    QO q; qo(x, &q); int cs = strstr(x->fn->name, "cspn") != NULL;
    long i = 0;
    for (; i < q.dn; i++) { int in = 0; for (long j = 0; j < q.sn; j++) if (q.d[i] == q.s[j]) in = 1; if (in == cs) break; }
    r_out(r, i);
}
static void ref_diff(const Ctx *x, Ref *r) {           /* strfirstdiff_s strlastdiff_s strfirstsame_s strlastsame_s */
    QO q; qo(x, &q); const Fn *f = x->fn;
    int last = strstr(f->name, "last") != NULL, same = strstr(f->name, "same") != NULL;
    if (!q.sterm && q.sn < q.dn) { r->verdict = V_ANY; return; }
    long n = q.dn < q.sn ? q.dn : q.sn, at = -1;
    for (long i = 0; i < n; i++) if ((q.d[i] == q.s[i]) == same) { at = i; if (!last) break; }
    if (at >= 0) r_out(r, at); else r_notfound(r, same ? ESNOTFND_ : ESNODIFF_);
}
static void ref_prefix(const Ctx *x, Ref *r) {
    QO q; qo(x, &q);
    if (q.sn == 0 || !q.sterm) { r->verdict = V_ANY; return; }
    if (q.sn > q.dn) { r_notfound(r, ESNOTFND_); return; }
    for (long i = 0; i < q.sn; i++) if (q.d[i] != q.s[i]) { r_notfound(r, ESNOTFND_); return; }
    r->verdict = V_OK;
}
static void ref_is(const Ctx *x, Ref *r) {             /* stris*_s predicates (C locale) */
    QO q; qo(x, &q); const char *nm = x->fn->name;
    if (q.dn == 0) { r->verdict = V_ANY; return; }
    int all = 1, lo = 0, up = 0;
    for (long i = 0; i < q.dn; i++) {
        unsigned long v = q.d[i]; int ok;
        if (strstr(nm, "alphanumeric")) ok = v < 0x80 && isalnum((int)v);
        else if (strstr(nm, "ascii")) ok = v < 0x80;
        else if (strstr(nm, "digit")) ok = v >= '0' && v <= '9';
        else if (strstr(nm, "hex")) ok = v < 0x80 && isxdigit((int)v);
        else if (strstr(nm, "lowercase")) ok = v < 0x80 && islower((int)v);
        else if (strstr(nm, "uppercase")) ok = v < 0x80 && isupper((int)v);
        else { ok = v < 0x80 && isalpha((int)v); if (v < 0x80 && islower((int)v)) lo = 1; if (v < 0x80 && isupper((int)v)) up = 1; }
        if (!ok) all = 0;
    }
    if (strstr(nm, "mixed") && all && !(lo && up)) { r->verdict = V_ANY; return; }   /* 'mixed' is implemented as 'alphabetic': not demanded */
    r->verdict = V_OK; r->has_rc = 1; r->rc = all;
}
static void ref_memcmp(const Ctx *x, Ref *r) {         /* memcmp_s memcmp16_s memcmp32_s wmemcmp_s */
    const Case *c = x->c; const Fn *f = x->fn; long n = NEL(x);
    if (c->slen == 0) { r->verdict = V_ANY; return; }
    if ((long)c->slen > n) { r_fail(r, ESNOSPC_); return; }
    for (size_t i = 0; i < c->slen; i++) { unsigned long a = DP(x, i), b = SP(x, i);
        if (a != b) { long d = f->w == 4 && strstr(f->name, "wmem") ? ((int)a < (int)b ? -1 : 1) : (a < b ? -1 : 1); r_out(r, d); r->sign_only = 1; return; } }
    r_out(r, 0); r->sign_only = 1;
}
static void ref_memchr(const Ctx *x, Ref *r) {         /* memchr_s memrchr_s */
    long n = NEL(x), ch = x->c->c; int last = strstr(x->fn->name, "rchr") != NULL;
    if (ch > 255) { r_fail(r, ESLEMAX_); return; }
    long at = -1;
    for (long i = 0; i < n; i++) if (DP(x, i) == (unsigned long)(ch & 0xff)) { at = i; if (!last) break; }
    if (at >= 0) r_out(r, at); else r_notfound(r, ESNOTFND_);
}
static void ref_memccpy(const Ctx *x, Ref *r) {        /* memccpy_s(dest,dmax,src,c,n) */
    const Case *c = x->c; long n = NEL(x);
    if (c->slen == 0) { r->verdict = V_ANY; return; }
    if ((long)c->slen > n) { r_fail(r, ESNOSPC_); return; }
    r->verdict = V_OK; r->has_dest = 1; r->dn = 0;
    for (size_t i = 0; i < c->slen; i++) { r->dest[i] = SP(x, i); r->dn = i + 1; if (SP(x, i) == (unsigned long)(c->c & 0xff)) { r->tail_prior_or_zero = 1; break; } }   /* c is converted to unsigned char, as memccpy does; nothing behind the stop character is copied */
}
static void ref_tscmp(const Ctx *x, Ref *r) {          /* timingsafe_bcmp / timingsafe_memcmp */
    long n = NEL(x); int isb = strstr(x->fn->name, "bcmp") != NULL;
    r->verdict = V_OK; r->has_rc = 1; r->rc = 0;
    for (long i = 0; i < n; i++) if (DP(x, i) != SP(x, i)) { r->rc = isb ? 1 : (DP(x, i) < SP(x, i) ? -1 : 1); break; }
}

#define ROW(name, sig, w, dunit, sw, sunit, rt, lim, flags, ref) \
    { #name, "_" #name "_chk", sig, w, dunit, sw, sunit, rt, lim, flags, ref, 0 }

Fn fntab[] = {
    /* copy / concatenate */
    ROW(strcpy_s,   "D n S bd",          1, 1, 1, 1, RT_E, LIM_STR,  F_SP | F_CE | F_SL | F_OV, ref_cpy),
    ROW(strcat_s,   "D n S bd",          1, 1, 1, 1, RT_E, LIM_STR,  F_SP | F_CE | F_SL | F_OV | F_DSTR, ref_cat),
    ROW(strncpy_s,  "D n S l bd bs",     1, 1, 1, 1, RT_E, LIM_STR,  F_SP | F_CE | F_SL | F_OV, ref_ncpy),
    ROW(strncat_s,  "D n S l bd bs",     1, 1, 1, 1, RT_E, LIM_STR,  F_SP | F_CE | F_SL | F_OV | F_DSTR, ref_ncat),
    ROW(stpcpy_s,   "D n S oE bd bs",    1, 1, 1, 1, RT_P, LIM_STR,  F_SP | F_CE | F_SL | F_OV, ref_cpy),
    ROW(stpncpy_s,  "D n S l oE bd bs",  1, 1, 1, 1, RT_P, LIM_STR,  F_SP | F_CE | F_SL | F_OV, ref_ncpy),
    ROW(wcscpy_s,   "D n S bd",          4, 4, 4, 4, RT_E, LIM_WSTR, F_SP | F_CE | F_SL | F_OV | F_WIDE, ref_cpy),
    ROW(wcscat_s,   "D n S bd",          4, 4, 4, 4, RT_E, LIM_WSTR, F_SP | F_CE | F_SL | F_OV | F_DSTR | F_WIDE, ref_cat),
    ROW(wcsncpy_s,  "D n S l bd bs",     4, 4, 4, 4, RT_E, LIM_WSTR, F_SP | F_CE | F_SL | F_OV | F_WIDE, ref_ncpy),
    ROW(wcsncat_s,  "D n S l bd bs",     4, 4, 4, 4, RT_E, LIM_WSTR, F_SP | F_CE | F_SL | F_OV | F_DSTR | F_WIDE, ref_ncat),
    /* memory copy / fill */
    ROW(memcpy_s,    "M n T l bd bs",    1, 1, 1, 1, RT_E, LIM_MEM,   F_CE | F_OV | F_MEMH, ref_memcpy),
    ROW(memmove_s,   "M n T l bd bs",    1, 1, 1, 1, RT_E, LIM_MEM,   F_CE | F_MEMH, ref_memcpy),
    ROW(memcpy16_s,  "M n T l bd bs",    2, 1, 2, 2, RT_E, LIM_MEM16, F_CE | F_OV | F_MEMH, ref_memcpy),
    ROW(memmove16_s, "M n T l bd bs",    2, 1, 2, 2, RT_E, LIM_MEM16, F_CE | F_MEMH, ref_memcpy),
    ROW(memcpy32_s,  "M n T l bd bs",    4, 1, 4, 4, RT_E, LIM_MEM32, F_CE | F_OV | F_MEMH, ref_memcpy),
    ROW(memmove32_s, "M n T l bd bs",    4, 1, 4, 4, RT_E, LIM_MEM32, F_CE | F_MEMH, ref_memcpy),
    ROW(wmemcpy_s,   "M n T l bd bs",    4, 4, 4, 4, RT_E, LIM_WMEM,  F_CE | F_OV | F_MEMH, ref_memcpy),
    ROW(wmemmove_s,  "M n T l bd bs",    4, 4, 4, 4, RT_E, LIM_WMEM,  F_CE | F_MEMH, ref_memcpy),
    ROW(memset_s,    "M n c k bd",       1, 1, 1, 1, RT_E, LIM_MEM,   F_MEMH | F_DMAX0OK, ref_memset),
    ROW(memset16_s,  "M n c k bd",       2, 1, 2, 2, RT_E, LIM_MEM16, F_MEMH | F_DMAX0OK, ref_memset),
    ROW(memset32_s,  "M n c k bd",       4, 1, 4, 4, RT_E, LIM_MEM32, F_MEMH | F_DMAX0OK, ref_memset),
    ROW(memzero_s,   "M n bd",           1, 1, 1, 1, RT_E, LIM_MEM,   F_MEMH, ref_memzero),
    ROW(memzero16_s, "M n bd",           2, 2, 2, 2, RT_E, LIM_MEM16, F_MEMH, ref_memzero),
    ROW(memzero32_s, "M n bd",           4, 4, 4, 4, RT_E, LIM_MEM32, F_MEMH, ref_memzero),
    /* length */
    ROW(strnlen_s,   "Q n bd",           1, 1, 1, 1, RT_Z, LIM_STR,  F_QRY | F_LAX, ref_nlen),
    ROW(wcsnlen_s,   "Q n bd",           4, 4, 4, 4, RT_Z, LIM_WSTR, F_QRY | F_WIDE | F_LAX, ref_nlen),
    /* extension copy / fill / in-place */
    ROW(strcpyfld_s,    "D n T l bd",     1, 1, 1, 1, RT_E, LIM_STR, F_CE | F_OV, ref_fld),
    ROW(strcpyfldin_s,  "D n S l bd",     1, 1, 1, 1, RT_E, LIM_STR, F_CE | F_OV, ref_fldin),
    ROW(strcpyfldout_s, "D n T l bd",     1, 1, 1, 1, RT_E, LIM_STR, F_SP | F_CE | F_OV, ref_fldout),
    ROW(strset_s,       "D n c bd",       1, 1, 1, 1, RT_E, LIM_STR, F_SP | F_SL | F_DSTR, ref_set),
    ROW(strnset_s,      "D n c k bd",     1, 1, 1, 1, RT_E, LIM_STR, F_SP | F_SL | F_DSTR, ref_set),
    ROW(strzero_s,      "D n bd",         1, 1, 1, 1, RT_E, LIM_STR, F_SP | F_SL | F_DSTR, ref_zero),
    ROW(strtolowercase_s, "D n bd",       1, 1, 1, 1, RT_E, LIM_STR, F_DSTR, ref_case),
    ROW(strtouppercase_s, "D n bd",       1, 1, 1, 1, RT_E, LIM_STR, F_DSTR, ref_case),
    ROW(strljustify_s,  "D n bd",         1, 1, 1, 1, RT_E, LIM_STR, F_SP | F_DSTR, ref_ljust),
    ROW(strremovews_s,  "D n bd",         1, 1, 1, 1, RT_E, LIM_STR, F_SP | F_DSTR, ref_rmws),
    ROW(strnterminate_s,"D n bd",         1, 1, 1, 1, RT_Z, LIM_STR, F_SP | F_DSTR, ref_nterm),
    ROW(wcsset_s,       "D n c bd",       4, 4, 4, 4, RT_E, LIM_WSTR, F_SP | F_SL | F_DSTR | F_WIDE, ref_set),
    ROW(wcsnset_s,      "D n c k bd",     4, 4, 4, 4, RT_E, LIM_WSTR, F_SP | F_SL | F_DSTR | F_WIDE, ref_set),
    ROW(wcslwr_s,       "D n bd",         4, 4, 4, 4, RT_E, LIM_WSTR, F_DSTR | F_WIDE | F_DMAX0OK, ref_case),
    ROW(wcsupr_s,       "D n bd",         4, 4, 4, 4, RT_E, LIM_WSTR, F_DSTR | F_WIDE | F_DMAX0OK, ref_case),
    ROW(memccpy_s,      "M n T c l bd bs",1, 1, 1, 1, RT_E, LIM_MEM, F_CE | F_OV | F_MEMH, ref_memccpy),
    /* read-only queries */
    ROW(strcmp_s,       "Q n S oI bd bs", 1, 1, 1, 1, RT_E, LIM_STR, F_QRY, ref_cmp),
    ROW(strcasecmp_s,   "Q n S oI bd",    1, 1, 1, 1, RT_E, LIM_STR, F_QRY, ref_cmp),
    ROW(strcoll_s,      "Q n S oI bd",    1, 1, 1, 1, RT_E, LIM_STR, F_QRY, ref_cmp),
    ROW(strnatcmp_s,    "Q n S c oI bd bs", 1, 1, 1, 1, RT_E, LIM_STR, F_QRY, ref_natcmp),
    ROW(strcmpfld_s,    "Q n T oI bd",    1, 1, 1, 1, RT_E, LIM_STR, F_QRY | F_SAMELEN, ref_cmpfld),
    ROW(strstr_s,       "Q n S l oP bd bs", 1, 1, 1, 1, RT_E, LIM_STR, F_QRY, ref_str),
    ROW(strcasestr_s,   "Q n S l oP bd bs", 1, 1, 1, 1, RT_E, LIM_STR, F_QRY, ref_str),
    ROW(strchr_s,       "Q n c oP bd",    1, 1, 1, 1, RT_E, LIM_STR, F_QRY, ref_chr),
    ROW(strrchr_s,      "Q n c oP bd",    1, 1, 1, 1, RT_E, LIM_STR, F_QRY, ref_chr),
    ROW(strfirstchar_s, "Q n c oP bd",    1, 1, 1, 1, RT_E, LIM_STR, F_QRY, ref_chr),
    ROW(strlastchar_s,  "Q n c oP bd",    1, 1, 1, 1, RT_E, LIM_STR, F_QRY, ref_chr),
    ROW(strpbrk_s,      "Q n S l oP bd bs", 1, 1, 1, 1, RT_E, LIM_STR, F_QRY, ref_pbrk),
    ROW(strspn_s,       "Q n S l oZ bd bs", 1, 1, 1, 1, RT_E, LIM_STR, F_QRY, ref_spn),
    ROW(strcspn_s,      "Q n S l oZ bd bs", 1, 1, 1, 1, RT_E, LIM_STR, F_QRY, ref_spn),
    ROW(strfirstdiff_s, "Q n S oZ bd",    1, 1, 1, 1, RT_E, LIM_STR, F_QRY, ref_diff),
    ROW(strlastdiff_s,  "Q n S oZ bd",    1, 1, 1, 1, RT_E, LIM_STR, F_QRY, ref_diff),
    ROW(strfirstsame_s, "Q n S oZ bd",    1, 1, 1, 1, RT_E, LIM_STR, F_QRY, ref_diff),
    ROW(strlastsame_s,  "Q n S oZ bd",    1, 1, 1, 1, RT_E, LIM_STR, F_QRY, ref_diff),
    ROW(strprefix_s,    "Q n S bd",       1, 1, 1, 1, RT_E, LIM_STR, F_QRY, ref_prefix),
    ROW(strisalphanumeric_s, "Q n bd",    1, 1, 1, 1, RT_B, LIM_STR, F_QRY, ref_is),
    ROW(strisascii_s,   "Q n bd",         1, 1, 1, 1, RT_B, LIM_STR, F_QRY, ref_is),
    ROW(strisdigit_s,   "Q n bd",         1, 1, 1, 1, RT_B, LIM_STR, F_QRY, ref_is),
    ROW(strishex_s,     "Q n bd",         1, 1, 1, 1, RT_B, LIM_STR, F_QRY, ref_is),
    ROW(strislowercase_s, "Q n bd",       1, 1, 1, 1, RT_B, LIM_STR, F_QRY, ref_is),
    ROW(strismixedcase_s, "Q n bd",       1, 1, 1, 1, RT_B, LIM_STR, F_QRY, ref_is),
    ROW(strisuppercase_s, "Q n bd",       1, 1, 1, 1, RT_B, LIM_STR, F_QRY, ref_is),
    ROW(strispassword_s,  "Q n bd",       1, 1, 1, 1, RT_B, LIM_STR, F_QRY, NULL),
    ROW(memcmp_s,       "K n T l oI bd bs", 1, 1, 1, 1, RT_E, LIM_MEM,   F_QRY | F_MEMH, ref_memcmp),
    ROW(memcmp16_s,     "K n T l oI bd bs", 2, 2, 2, 2, RT_E, LIM_MEM16, F_QRY | F_MEMH, ref_memcmp),
    ROW(memcmp32_s,     "K n T l oI bd bs", 4, 4, 4, 4, RT_E, LIM_MEM32, F_QRY | F_MEMH, ref_memcmp),
    ROW(wmemcmp_s,      "K n T l oI bd bs", 4, 4, 4, 4, RT_E, LIM_WMEM,  F_QRY | F_MEMH, ref_memcmp),
    ROW(memchr_s,       "K n c oP bd",    1, 1, 1, 1, RT_E, LIM_MEM, F_QRY | F_MEMH, ref_memchr),
    ROW(memrchr_s,      "K n c oP bd",    1, 1, 1, 1, RT_E, LIM_MEM, F_QRY | F_MEMH, ref_memchr),
    ROW(timingsafe_bcmp,   "K T n bd bs", 1, 1, 1, 1, RT_V, LIM_MEM, F_QRY | F_MEMH | F_SAMELEN | F_NONULL | F_LAX, ref_tscmp),
    ROW(timingsafe_memcmp, "K T n bd bs", 1, 1, 1, 1, RT_V, LIM_MEM, F_QRY | F_MEMH | F_SAMELEN | F_NONULL | F_LAX, ref_tscmp),
    ROW(wcscmp_s,       "Q n S l oI bd bs", 4, 4, 4, 4, RT_E, LIM_WSTR, F_QRY | F_WIDE, ref_cmp),
    ROW(wcsncmp_s,      "Q n S l k oI bd bs", 4, 4, 4, 4, RT_E, LIM_WSTR, F_QRY | F_WIDE, ref_ncmp),
    ROW(wcsicmp_s,      "Q n S l oI bd bs", 4, 4, 4, 4, RT_E, LIM_WSTR, F_QRY | F_WIDE, ref_cmp),
    ROW(wcsnatcmp_s,    "Q n S l c oI bd bs", 4, 4, 4, 4, RT_E, LIM_WSTR, F_QRY | F_WIDE, ref_natcmp),
    ROW(wcscoll_s,      "Q n S l oI bd bs", 4, 4, 4, 4, RT_E, LIM_WSTR, F_QRY | F_WIDE, ref_cmp),
    ROW(wcsstr_s,       "Q n S l oP bd bs", 4, 4, 4, 4, RT_E, LIM_WSTR, F_QRY | F_WIDE, ref_str),
};
int nfn = sizeof fntab / sizeof fntab[0];

void fntab_init(void *lib) {
    for (int i = 0; i < nfn; i++) {
        fntab[i].addr = dlsym(lib, fntab[i].sym);
        if (!fntab[i].addr) fprintf(stderr, "warning: symbol %s not found\n", fntab[i].sym);
    }
}
