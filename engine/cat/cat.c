/* cat.c - catalogue harness engine: arena with guard pages, fault classifier, role-driven case
 * generator, universal caller, property oracles, replay.
 *
 * usage: cat run  <prop> <tier> <variant> <locale> <fn> [<shard> <nshards>]
 *        cat replay <prop> <variant> <locale> "<case line>"
 * stdout: one JSON object per line ({"t":"viol"...}, {"t":"stat"...}). */
#include "cat.h"
#include "../denylist.h"
#include <signal.h>
#include <setjmp.h>
#include <sys/mman.h>
#include <sys/time.h>
#include <unistd.h>
#include <dlfcn.h>
#include <locale.h>
#include <errno.h>
#include <ucontext.h>
#include <stdarg.h>
#include "../trapvm/trapvm.h"

/* ---------------------------------------------------------------- arena */
#define PG 4096UL
#define DATA (16 * PG)
enum { SL_D, SL_S, SL_O, SL_E, NSLOT };
typedef struct {
    unsigned char *h;      /* harness view (rw, no guards needed) */
    unsigned char *rw;     /* lib view rw: [guard][DATA][guard] -> points at DATA */
    unsigned char *ro;     /* lib view ro */
} Slot;
static Slot slot[NSLOT];
static unsigned char *none_pg;     /* middle of a PROT_NONE region */
static int guard_prot = PROT_READ; /* PROT_READ: write-trap only; PROT_NONE: read+write trap */

static unsigned char *map_view(int fd, int prot) {
    unsigned char *r = mmap(NULL, DATA + 2 * PG, PROT_NONE, MAP_PRIVATE | MAP_ANONYMOUS, -1, 0);
    if (r == MAP_FAILED) { perror("mmap"); exit(2); }
    if (mmap(r + PG, DATA, prot, MAP_SHARED | MAP_FIXED, fd, 0) == MAP_FAILED) { perror("mmap2"); exit(2); }
    if (guard_prot != PROT_NONE) {
        /* write-trap mode: the guards are readable but hold non-zero bytes, so an over-read neither
           faults (that is C02's business) nor finds a convenient terminator */
        mprotect(r, PG, PROT_READ | PROT_WRITE); memset(r, 0xEE, PG);
        mprotect(r + PG + DATA, PG, PROT_READ | PROT_WRITE); memset(r + PG + DATA, 0xEE, PG);
        mprotect(r, PG, guard_prot);
        mprotect(r + PG + DATA, PG, guard_prot);
    }
    return r + PG;
}
static void arena_init(void) {
    for (int i = 0; i < NSLOT; i++) {
        int fd = memfd_create("slot", 0);
        if (fd < 0 || ftruncate(fd, DATA) < 0) { perror("memfd"); exit(2); }
        slot[i].h = mmap(NULL, DATA, PROT_READ | PROT_WRITE, MAP_SHARED, fd, 0);
        slot[i].rw = map_view(fd, PROT_READ | PROT_WRITE);
        slot[i].ro = map_view(fd, PROT_READ);
        close(fd);
    }
    unsigned char *n = mmap(NULL, 64 * PG, PROT_NONE, MAP_PRIVATE | MAP_ANONYMOUS, -1, 0);
    none_pg = n + 32 * PG;
}
/* offset of an object of `bytes` inside DATA for a placement */
static inline size_t obj_off(int place, size_t bytes) { return place == 0 ? DATA - bytes : 0; }

/* ---------------------------------------------------------------- run-time parameters */
static const char *g_prop = "C01", *g_variant = "prod", *g_locale = "C";
static int g_tier = 0;           /* 0 quick 1 thorough */
static int g_N = 5;
static int g_verbose = 0;
static int P;                    /* property number */

/* ---------------------------------------------------------------- handler probe */
static Ctx *cur;
static void h_str(const char *msg, void *ptr, int err) {
    (void)msg; (void)ptr;
    if (cur) { if (cur->h_n < 4) { cur->h_code[cur->h_n] = err; cur->h_kind[cur->h_n] = 0; } cur->h_n++; } errno = 0;   /* a handler may do anything: errno is not preserved across it */
}
static void h_mem(const char *msg, void *ptr, int err) {
    (void)msg; (void)ptr;
    if (cur) { if (cur->h_n < 4) { cur->h_code[cur->h_n] = err; cur->h_kind[cur->h_n] = 1; } cur->h_n++; } errno = 0;
}

/* ---------------------------------------------------------------- fault handling */
static sigjmp_buf jb;
static volatile int armed;
static volatile unsigned long progress, last_progress;
static volatile int stalled;
static struct { int kind; void *addr; void *pc; } flt;

static void on_fault(int sig, siginfo_t *si, void *uc_) {
    ucontext_t *uc = uc_;
    if (!armed) {
        static const char m[] = "{\"t\":\"internal\",\"msg\":\"fault outside armed region\"}\n";
        if (write(1, m, sizeof m - 1)) {}
        _exit(3);
    }
    armed = 0;
    flt.addr = si->si_addr;
    flt.pc = (void *)uc->uc_mcontext.gregs[REG_RIP];
    if (sig == SIGSEGV) flt.kind = (uc->uc_mcontext.gregs[REG_ERR] & 2) ? 1 : 2;
    else flt.kind = 3;
    siglongjmp(jb, 1);
}
static void on_alarm(int sig) {
    (void)sig;
    if (armed && progress == last_progress) {
        if (++stalled >= 2) { armed = 0; flt.kind = 4; flt.addr = 0; flt.pc = 0; stalled = 0; siglongjmp(jb, 1); }
    } else stalled = 0;
    last_progress = progress;
}
static void sig_init(void) {
    static char alt[1 << 16];
    stack_t ss = { .ss_sp = alt, .ss_size = sizeof alt };
    sigaltstack(&ss, NULL);
    struct sigaction sa;
    memset(&sa, 0, sizeof sa);
    sa.sa_sigaction = on_fault;
    sa.sa_flags = SA_SIGINFO | SA_ONSTACK | SA_NODEFER;
    sigaction(SIGSEGV, &sa, NULL); sigaction(SIGBUS, &sa, NULL); sigaction(SIGABRT, &sa, NULL);
    sigaction(SIGFPE, &sa, NULL); sigaction(SIGILL, &sa, NULL);
    struct sigaction sb;
    memset(&sb, 0, sizeof sb);
    sb.sa_handler = on_alarm; sb.sa_flags = SA_NODEFER;
    sigaction(SIGALRM, &sb, NULL);
    struct itimerval it = { {1, 0}, {1, 0} };
    setitimer(ITIMER_REAL, &it, NULL);
}

/* ---------------------------------------------------------------- limits */
size_t fn_limit(const Fn *f) {
    switch (f->lim) { case LIM_STR: return L_STR; case LIM_WSTR: return L_WSTR;
        case LIM_MEM: return L_MEM; case LIM_MEM16: return f->dunit == 1 ? L_MEM : L_MEM / 2;
        case LIM_MEM32: return f->dunit == 1 ? L_MEM : L_MEM / 4; default: return L_MEM / 4; }
}
size_t fn_slimit(const Fn *f) {
    switch (f->lim) { case LIM_STR: return L_STR; case LIM_WSTR: return L_WSTR;
        case LIM_MEM: return L_MEM; case LIM_MEM16: return L_MEM / 2;
        case LIM_MEM32: return L_MEM / 4; default: return L_MEM / 4; }
}

/* ---------------------------------------------------------------- case <-> text */
static int has_tok(const Fn *f, const char *t) {
    const char *p = f->sig; size_t n = strlen(t);
    while ((p = strstr(p, t))) {
        if ((p == f->sig || p[-1] == ' ') && (p[n] == ' ' || p[n] == 0)) return 1;
        p += n;
    }
    return 0;
}
static void hexs(char *o, const unsigned char *b, int n) { for (int i = 0; i < n; i++) sprintf(o + 2 * i, "%02x", b[i]); o[2 * n] = 0; }
static void case_line(const Case *c, char *o) {
    char dx[64], sx[64];
    hexs(dx, c->dx, c->dxn); hexs(sx, c->sx, c->sxn);
    sprintf(o, "fn=%s pl=%c dn=%d do=%ld dm=%zu dh=%d db=%d dk=%d dl=%ld sn=%d so=%ld sk=%d sL=%ld st=%d sl=%zu sh=%d sb=%d c=%ld k=%ld on=%d al=%d sf=%d dx=%s sx=%s",
            fntab[c->fn].name, c->place ? 'L' : 'R', c->d_null, c->d_obj, c->dmax, c->d_huge, c->d_bos, c->d_pk,
            c->d_pl, c->s_null, c->s_obj, c->s_k, c->s_len, c->s_term, c->slen, c->s_huge, c->s_bos, c->c, c->k,
            c->o_null, c->alias, c->s_off, dx, sx);
}
static int unhex(const char *s, unsigned char *b) {
    int n = 0; while (s[0] && s[1] && s[0] != ' ') { unsigned v; sscanf(s, "%2x", &v); b[n++] = v; s += 2; } return n;
}
static int parse_case(const char *line, Case *c) {
    memset(c, 0, sizeof *c);
    char buf[1024]; strncpy(buf, line, sizeof buf - 1); buf[sizeof buf - 1] = 0;
    for (char *t = strtok(buf, " \n"); t; t = strtok(NULL, " \n")) {
        char *e = strchr(t, '='); if (!e) continue; *e++ = 0;
        if (!strcmp(t, "fn")) { c->fn = -1; for (int i = 0; i < nfn; i++) if (!strcmp(fntab[i].name, e)) c->fn = i; if (c->fn < 0) return -1; }
        else if (!strcmp(t, "pl")) c->place = (*e == 'L');
        else if (!strcmp(t, "dn")) c->d_null = atoi(e);
        else if (!strcmp(t, "do")) c->d_obj = atol(e);
        else if (!strcmp(t, "dm")) c->dmax = strtoul(e, 0, 10);
        else if (!strcmp(t, "dh")) c->d_huge = atoi(e);
        else if (!strcmp(t, "db")) c->d_bos = atoi(e);
        else if (!strcmp(t, "dk")) c->d_pk = atoi(e);
        else if (!strcmp(t, "dl")) c->d_pl = atol(e);
        else if (!strcmp(t, "sn")) c->s_null = atoi(e);
        else if (!strcmp(t, "so")) c->s_obj = atol(e);
        else if (!strcmp(t, "sk")) c->s_k = atoi(e);
        else if (!strcmp(t, "sL")) c->s_len = atol(e);
        else if (!strcmp(t, "st")) c->s_term = atoi(e);
        else if (!strcmp(t, "sl")) c->slen = strtoul(e, 0, 10);
        else if (!strcmp(t, "sh")) c->s_huge = atoi(e);
        else if (!strcmp(t, "sb")) c->s_bos = atoi(e);
        else if (!strcmp(t, "c")) c->c = atol(e);
        else if (!strcmp(t, "k")) c->k = atol(e);
        else if (!strcmp(t, "on")) c->o_null = atoi(e);
        else if (!strcmp(t, "al")) c->alias = atoi(e);
        else if (!strcmp(t, "sf")) c->s_off = atoi(e);
        else if (!strcmp(t, "dx")) c->dxn = unhex(e, c->dx);
        else if (!strcmp(t, "sx")) c->sxn = unhex(e, c->sx);
    }
    return 0;
}

/* ---------------------------------------------------------------- violation bookkeeping */
#define MAXSIG 4096
static struct { char sig[160]; char line[700]; long n; } sigs[MAXSIG];
static int nsigs;
static long n_eval, n_nontriv, n_fault_skip, n_masked;
static long outcome_classes[64]; static int n_outcome;   /* distinct (rc,handler) classes */

static void report(const Ctx *x, const char *fmt, ...) {
    char s[200]; va_list ap; va_start(ap, fmt); vsnprintf(s, sizeof s, fmt, ap); va_end(ap);
    char sig[260]; snprintf(sig, sizeof sig, "%s|%s|%s", g_prop, x->fn->name, s);
    sig[159] = 0;
    for (int i = 0; i < nsigs; i++) if (!strcmp(sigs[i].sig, sig)) { sigs[i].n++; return; }
    if (nsigs >= MAXSIG) return;
    strcpy(sigs[nsigs].sig, sig); case_line(x->c, sigs[nsigs].line); sigs[nsigs].n = 1; nsigs++;
    if (g_verbose) printf("VERDICT violation %s\n", sig);
}
static void flush_reports(void) {
    for (int i = 0; i < nsigs; i++)
        printf("{\"t\":\"viol\",\"sig\":\"%s\",\"n\":%ld,\"var\":\"%s\",\"loc\":\"%s\",\"case\":\"%s\"}\n",
               sigs[i].sig, sigs[i].n, g_variant, g_locale, sigs[i].line);
}

/* ---------------------------------------------------------------- materialise + call */
static unsigned long pat(long i, int w) { (void)w; return 'a' + (i % 26); }
/* the dirty fill of a destination: no terminator anywhere; for the wide-character functions a valid code point without case
 * or decomposition (U+AAAA), so that the Unicode-aware ones run into the end of an unterminated operand instead of rejecting it */
static void dirty_fill(unsigned char *p, size_t bytes, const Fn *f) {
    memset(p, 0xAA, bytes);
    if ((f->flags & F_WIDE) && f->w == 4) for (size_t i = 0; i + 4 <= bytes; i += 4) { p[i + 2] = 0; p[i + 3] = 0; }
}

static int dest_usable(const Fn *f, const Case *c) {
    return !c->d_null && c->dmax > 0 && c->d_huge < 2 && c->d_bos != 2 && c->dmax <= fn_limit(f);
}

static void materialise(Ctx *x) {
    const Fn *f = x->fn; const Case *c = x->c;
    int dro = 0;
    /* dest */
    x->dbytes = (size_t)c->d_obj * f->dunit;
    if (c->d_huge >= 2 && c->d_huge != 4) { x->dl = none_pg; x->dh = NULL; x->dbytes = 0; }      /* 4: above the limit, but a real object of that size whose size the library is told */
    else {
        size_t off = obj_off(c->place, x->dbytes);
        x->dh = slot[SL_D].h + off;
        x->dl = (dro ? slot[SL_D].ro : slot[SL_D].rw) + off;
        if (c->place == 0) memset(x->dh - 128, 0xEE, 128); else memset(x->dh + x->dbytes, 0xEE, 128);
        long ne = x->dbytes / f->w;
        if (c->d_pk == 2) {
            dirty_fill(x->dh, x->dbytes, f);
            for (long i = 0; i < c->dxn && i < ne; i++) eset(x->dh, f->w, i, widen_e(c->dx[i], f->w));
        } else {
            dirty_fill(x->dh, x->dbytes, f);
            if (c->d_pk == 3) {      /* a string of blanks only, and blanks in the memory in front of dest: a backward scan for the last non-blank has nothing to stop at */
                for (long i = 0; i < c->d_pl && i < ne; i++) eset(x->dh, f->w, i, i & 1 ? '\t' : ' ');
                if (c->d_pl < ne) eset(x->dh, f->w, c->d_pl, 0);
                if (c->place == 0) for (long i = 1; i <= 128 / f->w; i++) eset(x->dh - 128, f->w, 128 / f->w - i, i & 1 ? ' ' : '\t');
            }
            if (c->d_pk == 1) {
                for (long i = 0; i < c->d_pl && i < ne; i++) eset(x->dh, f->w, i, 'p' + (i % 8));
                if (c->d_pl < ne) eset(x->dh, f->w, c->d_pl, 0);
                /* behind the prior string: remains of older, longer contents - stale data with terminators of its own in between */
                for (long i = c->d_pl + 3; i < ne; i += 5) eset(x->dh, f->w, i, 0);
            }
        }
        memcpy(x->dsnap, x->dh, x->dbytes < sizeof x->dsnap ? x->dbytes : sizeof x->dsnap);
    }
    /* src */
    x->sbytes = (size_t)c->s_obj * f->sunit;
    if (c->s_huge >= 2 && 0) { /* a src above the limit is still a real (small) object: only the size lies */ }
    {
        size_t off = obj_off(c->place, x->sbytes);
        if (c->place == 0 && c->s_off) off -= c->s_off;   /* alignment sweep: not flush, the guard oracle is then the canary only */
        x->sh = slot[SL_S].h + off;
        x->sl_ = slot[SL_S].ro + off;
        if (c->place == 0) memset(x->sh - 128, 0xEE, 128); else memset(x->sh + x->sbytes, 0xEE, 128);
        long ne = x->sbytes / f->sw;
        if (c->s_k == 2) {
            for (long i = 0; i < ne; i++) eset(x->sh, f->sw, i, i < c->sxn ? widen_e(c->sx[i], f->sw) : 0xAA);
        } else {
            for (long i = 0; i < ne; i++) eset(x->sh, f->sw, i, i < c->s_len ? pat(i, f->sw) : (i == c->s_len && c->s_term ? 0 : 'Z'));
        }
        memcpy(x->ssnap, x->sh, x->sbytes < sizeof x->ssnap ? x->sbytes : sizeof x->ssnap);
    }
    if (c->alias == 2 && x->dh && x->dbytes > (size_t)f->w) { x->sh = x->dh + f->w; x->sl_ = x->dl + f->w; x->sbytes = x->dbytes - f->w; memcpy(x->ssnap, x->dsnap + f->w, x->sbytes < sizeof x->ssnap ? x->sbytes : sizeof x->ssnap); }
    else if (c->alias && x->dh) { x->sh = x->dh; x->sbytes = x->dbytes; memcpy(x->ssnap, x->dsnap, x->dbytes < sizeof x->ssnap ? x->dbytes : sizeof x->ssnap); }
}

typedef long (*ufn)(long, long, long, long, long, long, long, long, long, long);

static void do_call(Ctx *x) {
    const Fn *f = x->fn; const Case *c = x->c;
    long a[10] = {0}; int na = 0;
    char sig[64]; strncpy(sig, f->sig, sizeof sig - 1); sig[sizeof sig - 1] = 0;
    /* out parameter object: exact-fit 8 (pointer/size_t) or 4 (int/errno_t) bytes, flush right */
    unsigned char *o_l = NULL, *o_h = NULL; int o_sz = 0;
    unsigned char *e_l = NULL, *e_h = NULL;
    for (char *t = strtok(sig, " "); t; t = strtok(NULL, " ")) {
        long v = 0;
        if (!strcmp(t, "D") || !strcmp(t, "Q") || !strcmp(t, "M") || !strcmp(t, "K")) v = c->d_null ? 0 : (long)x->dl;
        else if (!strcmp(t, "S") || !strcmp(t, "T")) v = c->s_null ? 0 : c->alias == 1 ? (long)x->dl : (long)x->sl_;
        else if (!strcmp(t, "n")) v = (long)c->dmax;
        else if (!strcmp(t, "l")) v = (long)c->slen;
        else if (!strcmp(t, "c")) v = c->c;
        else if (!strcmp(t, "k")) v = c->k;
        else if (!strcmp(t, "bd")) v = c->d_bos ? (long)x->dbytes : (long)BOSU;
        else if (!strcmp(t, "bs")) v = c->s_bos ? (long)x->sbytes : (long)BOSU;
        else if (t[0] == 'o' && t[1] != 'E') {
            o_sz = (t[1] == 'I') ? 4 : 8;
            size_t off = obj_off(0, o_sz);
            o_h = slot[SL_O].h + off; o_l = slot[SL_O].rw + off;
            memset(o_h, 0x5A, o_sz);
            v = c->o_null ? 0 : (long)o_l;
        } else if (!strcmp(t, "oE")) {
            size_t off = obj_off(0, 4);
            e_h = slot[SL_E].h + off; e_l = slot[SL_E].rw + off;
            memset(e_h, 0x5A, 4);
            v = (long)e_l;
        } else if (!strcmp(t, "0")) v = 0;
        else { fprintf(stderr, "bad sig token %s\n", t); exit(2); }
        a[na++] = v;
    }
    x->h_n = 0; x->fault = 0; x->out_set = 0; x->rc = 0;
    cur = x;
    errno = 0;
    if (sigsetjmp(jb, 0) == 0) {
        armed = 1; deny_hit = NULL; in_op = P == 12;
        x->rc = ((ufn)f->addr)(a[0], a[1], a[2], a[3], a[4], a[5], a[6], a[7], a[8], a[9]);
        in_op = 0; armed = 0;
    } else {
        in_op = 0;
        sigset_t ss; sigemptyset(&ss); sigprocmask(SIG_SETMASK, &ss, NULL);
        x->fault = flt.kind; x->fault_pc = flt.pc;
        unsigned char *ad = flt.addr; x->fault_op = -1; x->fault_off = 0;
        for (int i = 0; i < NSLOT; i++) {
            for (int v = 0; v < 2; v++) {
                unsigned char *base = v ? slot[i].ro : slot[i].rw;
                if (ad >= base - PG && ad < base + DATA + PG) {
                    x->fault_op = i;
                    size_t ob = i == SL_D ? x->dbytes : i == SL_S ? x->sbytes : i == SL_O ? (size_t)o_sz : 4;
                    int pl = (i == SL_D || i == SL_S) ? c->place : 0;
                    x->fault_off = (long)(ad - (base + obj_off(pl, ob)));
                }
            }
        }
        if (ad >= none_pg - 32 * PG && ad < none_pg + 32 * PG) { x->fault_op = 9; x->fault_off = ad - none_pg; }
    }
    cur = NULL;
    progress++;
    switch (f->rt) { case RT_E: case RT_I: case RT_V: x->rc = (int)x->rc; break; case RT_B: x->rc = (unsigned char)x->rc; break; default: break; }
    if (o_h && !x->fault) {
        x->out_set = memcmp(o_h, "\x5A\x5A\x5A\x5A\x5A\x5A\x5A\x5A", o_sz) != 0;
        if (o_sz == 4) { int v; memcpy(&v, o_h, 4); x->out = v; } else memcpy(&x->out, o_h, 8);
    }
    if (e_h && !x->fault) { int v; memcpy(&v, e_h, 4); x->out = v; x->out_set = 1; }
}

/* ---------------------------------------------------------------- analysis: generic violations + reference */
static void analyze(const Ctx *x, Ref *r) {
    const Fn *f = x->fn; const Case *c = x->c;
    int nv = 0, code = 0;
    r->verdict = r->code = r->has_dest = 0; r->dn = 0; r->dest_is_str = 0;
    r->has_out = r->has_rc = r->plain = r->sign_only = r->tail_prior_or_zero = 0; r->out = r->rc = 0;
    if (c->d_null) { nv++; code = ESNULLP_; }
    if (c->dmax == 0 && !c->d_null) { nv++; code = ESZEROL_; }
    if (c->d_huge >= 2) { nv++; code = ESLEMAX_; }
    if (c->d_bos == 2) { nv++; code = EOVERFLOW_; }
    if (has_tok(f, "S") || has_tok(f, "T")) {
        if (c->s_null) { nv++; code = ESNULLP_; }
        if (has_tok(f, "l") && c->s_huge >= 2) { nv++; code = ESLEMAX_; }
        if (has_tok(f, "l") && has_tok(f, "bs") && c->s_bos && !c->s_null && c->slen * f->sunit > x->sbytes) {
            if (!strcmp(f->name, "memccpy_s")) { r->verdict = V_ANY; return; }    /* n bounds the search for c: a source that ends with c may be shorter than n */
            nv++; code = 0; }   /* which code is not uniform in the docs */
    }
    if (c->o_null) { nv++; code = ESNULLP_; }
    /* a zero-length request: which (if any) of the other constraints is still checked is not
       demanded (documented shortcuts differ per function); only i-iii of C05 apply */
    if ((has_tok(f, "l") && c->slen == 0) || (has_tok(f, "k") && c->k == 0)) {
        r->verdict = V_ANY;
        if (nv == 0 && f->ref && !(f->flags & F_QRY)) f->ref(x, r);
        return;
    }
    if (f->flags & F_LAX) {   /* no reporting demanded for this API (strnlen_s/wcsnlen_s/timingsafe_*: no runtime-constraints documented) */
        if (nv) { r->verdict = V_ANY; return; }
    }
    if ((f->flags & F_DMAX0OK) && c->dmax == 0) { r->verdict = V_ANY; return; }   /* a zero size is a zero-length request for these */
    if (nv) { r->verdict = V_FAIL; r->code = nv == 1 ? code : 0; return; }
    r->verdict = V_ANY;
    if (c->d_huge == 1 || c->s_huge == 1) return;   /* limit-sized operands: snapshots are partial, no reference */
    if (c->alias && !(f->flags & F_QRY)) return;    /* identical pointers for a dest-writing function: judged by C07 */
    if (f->ref) f->ref(x, r);
}

static int is_plain(int code) { return code == ESNOTFND_ || code == ESNODIFF_; }

/* failure indication as seen by the caller; -1 = the return type cannot express it */
static int failed_ind(const Ctx *x, int *codep) {
    const Fn *f = x->fn; *codep = 0;
    switch (f->rt) {
    case RT_E: *codep = (int)x->rc; return x->rc != 0 && !is_plain((int)x->rc);
    case RT_I: *codep = (int)-x->rc; return x->rc < 0;
    case RT_V: return -1;
    case RT_P: *codep = (int)x->out; return x->out_set ? (x->out != 0 && !is_plain((int)x->out)) : (x->rc == 0);
    default: return -1;
    }
}

static const char *posclass(const Ctx *x, char *b) {
    static const char *opn[] = { "dest", "src", "out", "errp" };
    size_t ob = x->fault_op == SL_D ? x->dbytes : x->fault_op == SL_S ? x->sbytes : 8;
    if (x->fault_op == 9) { sprintf(b, "untouchable"); return b; }
    if (x->fault_op < 0) { sprintf(b, "wild"); return b; }
    long o = x->fault_off;
    if (o < 0) sprintf(b, "%s-start%s", opn[x->fault_op], o < -64 ? "-far" : "-near");
    else if ((size_t)o >= ob) sprintf(b, "%s+end%s", opn[x->fault_op], (size_t)o - ob > 64 ? "+far" : "");
    else sprintf(b, "%s-inside(ro)", opn[x->fault_op]);
    return b;
}
/* relation class of the case, for signatures: the set of generic violations if there is one,
 * otherwise the size relation that characterises a valid call */
static const char *relclass(const Ctx *x, char *b) {
    const Case *c = x->c; const Fn *f = x->fn; char *p = b; *p = 0;
    int hs = has_tok(f, "S") || has_tok(f, "T");
    if (c->d_null) p += sprintf(p, "dnull,");
    if (c->dmax == 0) p += sprintf(p, "dmax0,");
    if (c->d_huge == 4) p += sprintf(p, "dmax>lim-but-object-size-known,"); else if (c->d_huge >= 2) p += sprintf(p, "dmax>lim,");
    if (c->d_bos == 2) p += sprintf(p, "dmax>bos,");
    if (hs && c->s_null) p += sprintf(p, "snull,");
    if (hs && has_tok(f, "l") && c->s_huge >= 2) p += sprintf(p, "slen>lim,");
    if (c->o_null) p += sprintf(p, "onull,");
    if (c->alias == 2) p += sprintf(p, "src=dest+1,"); else
    if (c->alias) p += sprintf(p, "same-pointer,");
    if (p == b || (c->alias && p == b + 13)) {
        if (c->d_huge == 1) p += sprintf(p, "dmax=lim,");
        if (hs) {
            if (has_tok(f, "S") && !c->s_term) p += sprintf(p, "sunterm,");
            if (has_tok(f, "l")) {
                if (c->slen == 0) p += sprintf(p, "slen0,");
                else if (c->s_huge == 1) p += sprintf(p, "slen=lim,");
                else p += sprintf(p, c->slen > c->dmax ? "slen>dmax," : c->slen == c->dmax ? "slen=dmax," : "slen<dmax,");
            }
            if (has_tok(f, "S") && !c->d_huge)
                p += sprintf(p, (size_t)c->s_len + 1 > c->dmax ? "srclen>=dmax," : "srcfits,");
        }
        if ((c->d_pk == 0 || (c->d_pk == 1 && c->d_pl >= (long)(c->dmax * f->dunit / f->w))) && (f->flags & (F_DSTR | F_QRY))) p += sprintf(p, "dunterm,");
        if (has_tok(f, "k")) p += sprintf(p, (size_t)c->k > c->dmax * f->dunit / f->w ? "k>dmax," : c->k == 0 ? "k0," : "k<=dmax,");
    } else if (has_tok(f, "l") && c->slen == 0) p += sprintf(p, "slen0,");
    if (p > b) p[-1] = 0;
    return b;
}

/* ---------------------------------------------------------------- oracles */
static int cmp_str_e(const void *a, const void *b, int w, long maxn) {
    /* compare as strings of width w up to and including the terminator, at most maxn elements */
    for (long i = 0; i < maxn; i++) {
        unsigned long x = eget(a, w, i), y = eget(b, w, i);
        if (x != y) return 1;
        if (!x) return 0;
    }
    return 0;
}

static void oracle(Ctx *x) {
    const Fn *f = x->fn; const Case *c = x->c;
    char b1[64], b2[160];
    Ref *r = NULL; static Ref ref;
    int usable = dest_usable(f, c);
    int fcode = 0, failed = x->fault ? 0 : failed_ind(x, &fcode);
    long ne = (long)c->dmax;                 /* declared elements (in dmax units); element count: */
    long nel = usable ? (long)(c->dmax * f->dunit / f->w) : 0;

    if (x->fault == 3 || x->fault == 4) {
        if (P == 1) report(x, "%s|%s", x->fault == 3 ? "crash" : "hang", relclass(x, b2));
        n_fault_skip++; return;
    }
    if (x->fault && x->fault_op == 9) {
        if (P == 5) report(x, "touched-before-reject|%s|%s", x->fault == 1 ? "write" : "read", relclass(x, b2));
        n_fault_skip++; return;
    }
    if ((P == 1 || P == 2) && ((c->d_huge >= 2 && c->d_huge != 4) || c->d_bos == 2)) { n_fault_skip += x->fault != 0; return; }  /* untruthful sizes */
    if (P == 1) {
        if (x->fault == 1) { report(x, "write-fault|%s|%s", posclass(x, b1), relclass(x, b2)); return; }
        if (x->fault) { n_masked++; return; }
        if (!c->d_null && c->d_huge < 2 && c->d_bos != 2 && !(f->flags & F_QRY)) {
            size_t decl = c->dmax * f->dunit;
            if (decl < x->dbytes && memcmp(x->dh + decl, x->dsnap + decl, x->dbytes - decl))
                report(x, "canary-after-dmax|%s", relclass(x, b2));
            if (c->place == 0 && x->dh) for (long i = 1; i <= 128 / f->w; i++) {      /* the memory in front of dest: filler, or blanks for prior kind 3 */
                unsigned long want = c->d_pk == 3 ? (unsigned long)(i & 1 ? ' ' : '\t') : (f->w == 1 ? 0xEEUL : f->w == 2 ? 0xEEEEUL : 0xEEEEEEEEUL);
                if (eget(x->dh - 128, f->w, 128 / f->w - i) != want) { report(x, "write-before-dest|%s%s", relclass(x, b2), c->d_pk == 3 ? ",blanks-in-front" : ""); break; } }
        }
        if (x->sh && !c->alias && memcmp(x->sh, x->ssnap, x->sbytes < sizeof x->ssnap ? x->sbytes : sizeof x->ssnap))
            report(x, "source-modified|%s", relclass(x, b2));
        return;
    }
    if (P == 2) {
        if (x->fault == 2) { report(x, "read-fault|%s|%s", posclass(x, b1), relclass(x, b2)); return; }
        if (x->fault == 1) n_masked++;
        return;
    }
    if (x->fault) { n_fault_skip++; return; }
    (void)ne;

    if (P == 3) {
        if (!(f->flags & F_SP) || !usable) return;
        /* the documented exception: a zero-length request that succeeds and leaves dest untouched */
        if (has_tok(f, "l") && c->slen == 0 && failed <= 0 && !x->h_n && !memcmp(x->dh, x->dsnap, x->dbytes)) return;
        for (long i = 0; i < nel; i++) if (!eget(x->dh, f->w, i)) return;
        report(x, "unterminated|%s|%s", failed > 0 || x->h_n ? "fail" : "ok", relclass(x, b2));
        return;
    }
    if (P == 4) {
        if (!(f->flags & F_CE) || !usable) return;
        if (!(failed > 0 || x->h_n > 0)) return;
        int code = x->h_n ? x->h_code[0] : fcode;
        {   /* first element (or what fits of it into a byte-sized dmax) is zero */
            size_t fb = c->dmax * f->dunit < (size_t)f->w ? c->dmax * f->dunit : (size_t)f->w; int nz = 0;
            for (size_t i = 0; i < fb; i++) if (x->dh[i]) nz = 1;
            if (nz) { report(x, "dest0-nonzero|code%d|%s", code, relclass(x, b2)); return; }
        }
        long allz = 1;
        if (strcmp(g_variant, "prod")) nel = 0;   /* no-slack build: documented to clear only the first element */
        for (long i = 0; i < nel; i++) {
            unsigned long v = eget(x->dh, f->w, i), p0 = eget(x->dsnap, f->w, i);
            if (v) allz = 0;
            if (v != 0 && v != p0) { report(x, "partial-result-left|code%d|%s", code, relclass(x, b2)); return; }
        }
        int entry_nospc = has_tok(f, "l") && c->slen * f->sunit > c->dmax * f->dunit;   /* rejected before copying began */
        if (!strcmp(g_variant, "prod") && !(f->flags & F_CE1) && !allz && !entry_nospc &&
            (code == ESNOSPC_ || code == ESOVRLP_ || code == ESUNTERM_ || (code == ESNULLP_ && c->s_null)))
            report(x, "not-all-cleared|code%d|%s", code, relclass(x, b2));
        if (x->sh && !c->alias && memcmp(x->sh, x->ssnap, x->sbytes < sizeof x->ssnap ? x->sbytes : sizeof x->ssnap))
            report(x, "source-modified|code%d|%s", code, relclass(x, b2));
        return;
    }
    r = &ref; analyze(x, r);
    if (P == 5) {
        if (x->h_n > 1) { report(x, "handler-invoked-%dx|codes%d,%d|%s", x->h_n, x->h_code[0], x->h_code[1], relclass(x, b2)); return; }
        if (x->h_n == 1) {
            if (failed == 0) { report(x, "handler-but-success|code%d|%s", x->h_code[0], relclass(x, b2)); return; }
            if (failed > 0 && !(f->flags & F_ERRNO) && fcode != x->h_code[0]) {
                report(x, "code-mismatch|handler%d-ret%d|%s", x->h_code[0], fcode, relclass(x, b2)); return; }
            if (x->h_code[0] == EOK_) report(x, "handler-with-EOK|%s", relclass(x, b2));
            /* "the currently registered handler" of a memory function is the mem registration, of every other function the str one
             * (the two registrations are independent, C13): the report must not go to the other family's handler */
            if (x->h_kind[0] != ((f->flags & F_MEMH) ? 1 : 0)) { report(x, "reported-to-the-%s-handler|code%d|%s", x->h_kind[0] ? "mem" : "str", x->h_code[0], relclass(x, b2)); return; }
        } else {
            if (failed > 0) { report(x, "failure-without-handler|ret%d|%s", fcode, relclass(x, b2)); return; }
        }
        if (r->verdict == V_OK && (x->h_n || failed > 0)) report(x, "valid-call-reported|code%d|%s", x->h_n ? x->h_code[0] : fcode, relclass(x, b2));
        if (r->verdict == V_FAIL) {
            if (!x->h_n && failed <= 0) report(x, "violation-not-reported|%s", relclass(x, b2));
            else if (r->code && x->h_n && x->h_code[0] != r->code && !(f->flags & F_ERRNO))
                report(x, "wrong-code|got%d-want%d|%s", x->h_code[0], r->code, relclass(x, b2));
        }
        return;
    }
    if (P == 6 || P == 10) {
        if (r->verdict == V_FAIL && c->d_null + (c->dmax == 0) + (c->d_huge >= 2) + (c->d_bos == 2) + c->s_null + (c->s_huge >= 2) + c->o_null == 0) {
            if (!(failed > 0 || x->h_n)) report(x, "success-where-failure-required|%s", relclass(x, b2));
            return;
        }
        if (r->verdict != V_OK) return;
        if (failed > 0 || x->h_n) { report(x, "failure-on-valid|code%d|%s", x->h_n ? x->h_code[0] : fcode, relclass(x, b2)); return; }
        if (r->has_dest && usable) {
            int bad = r->dest_is_str ? cmp_str_e(x->dh, r->dest, f->w, nel) : memcmp(x->dh, r->dest, r->dn * f->w) != 0;
            if (bad) { report(x, "wrong-result|%s", relclass(x, b2)); return; }
            if (r->tail_prior_or_zero) for (long i = r->dn; i < nel; i++) { unsigned long v = eget(x->dh, f->w, i); if (v && v != eget(x->dsnap, f->w, i)) { report(x, "copied-past-the-stop-character|%s", relclass(x, b2)); return; } }
        }
        if (r->has_rc) {
            long got = x->rc;
            if (f->rt == RT_P) got = x->rc ? (x->rc - (long)x->dl) / f->w : -1;
            if (got != r->rc) { report(x, "wrong-return|%s", relclass(x, b2)); return; }
        }
        if (r->plain && f->rt == RT_E && (int)x->rc != r->plain) { report(x, "wrong-status|got%ld-want%d|%s", x->rc, r->plain, relclass(x, b2)); return; }
        if (!r->plain && f->rt == RT_E && x->rc != 0) { report(x, "wrong-status|got%ld-want0|%s", x->rc, relclass(x, b2)); return; }
        if (r->has_out) {
            long got = x->out;
            if (has_tok(f, "oP")) got = x->out ? (x->out - (long)x->dl) / f->w : -1;
            if (r->sign_only) { got = (int)got; got = got < 0 ? -1 : got > 0; }
            else if (has_tok(f, "oI")) got = (int)got;
            if (got != r->out) { report(x, "wrong-out|%s", relclass(x, b2)); return; }
        }
        if (x->sh && !c->alias && memcmp(x->sh, x->ssnap, x->sbytes < sizeof x->ssnap ? x->sbytes : sizeof x->ssnap))
            report(x, "source-modified|%s", relclass(x, b2));
        if (P == 10 && x->dh && memcmp(x->dh, x->dsnap, x->dbytes < sizeof x->dsnap ? x->dbytes : sizeof x->dsnap))
            report(x, "operand-modified|%s", relclass(x, b2));
        return;
    }
    if (P == 8) {
        if (!(f->flags & F_SL) || !usable) return;
        if (failed > 0 || x->h_n) return;
        long t = -1;
        for (long i = 0; i < nel; i++) if (!eget(x->dh, f->w, i)) { t = i; break; }
        if (t < 0) { report(x, "no-terminator|%s", relclass(x, b2)); return; }
        if (!strcmp(g_variant, "prod")) {
            for (long i = t; i < nel; i++) if (eget(x->dh, f->w, i)) {
                report(x, "stale-slack|%s|%s", nel > 0x20 ? "dmax>0x20" : "dmax<=0x20", relclass(x, b2)); return; }
        } else if (r->verdict == V_OK && r->has_dest && r->dest_is_str) {
            if (cmp_str_e(x->dh, r->dest, f->w, nel)) report(x, "noslack-wrong-result|%s", relclass(x, b2));
        }
        return;
    }
}

/* ---------------------------------------------------------------- run one case */
static void run_case(const Case *c) {
    static Ctx x;
    x.fn = &fntab[c->fn]; x.c = c;
    materialise(&x);
    do_call(&x);
    n_eval++;
    /* non-trivial: not rejected by a generic entry check */
    int triv = x.h_n && (x.h_code[0] == ESNULLP_ || x.h_code[0] == ESZEROL_ || x.h_code[0] == ESLEMAX_ || x.h_code[0] == EOVERFLOW_);
    if (!triv) n_nontriv++;
    long oc = (x.fault << 20) ^ ((x.h_n ? x.h_code[0] : 0) << 8) ^ (x.h_n & 0xff) ^ ((long)(x.fn->rt == RT_E ? x.rc : 0) << 32);
    int k; for (k = 0; k < n_outcome; k++) if (outcome_classes[k] == oc) break;
    if (k == n_outcome && n_outcome < 64) outcome_classes[n_outcome++] = oc;
    if (g_verbose) {
        char l[700]; case_line(c, l);
        printf("CASE %s\n", l);
        printf("OBS rc=%ld out=%ld out_set=%d fault=%d fault_op=%d fault_off=%ld pc=%p handler_calls=%d codes=%d,%d\n",
               x.rc, x.out, x.out_set, x.fault, x.fault_op, x.fault_off, x.fault_pc, x.h_n, x.h_code[0], x.h_code[1]);
        if (x.dh) { printf("DEST after:"); for (size_t i = 0; i < x.dbytes && i < 64; i++) printf(" %02x", x.dh[i]); printf("\n");
                    printf("DEST before:"); for (size_t i = 0; i < x.dbytes && i < 64; i++) printf(" %02x", x.dsnap[i]); printf("\n"); }
    }
    if (P == 12) {
        size_t first, nb;
        if (deny_hit) { char b2[200]; report(&x, "process-wide-state|calls-%s|%s", deny_hit, relclass(&x, b2)); }
        if (tv_diff(&first, &nb)) {
            char sb[128], b2[200]; tv_symbolize(tv_seg_start() + first, sb, sizeof sb); char *pl = strchr(sb, '+'); if (pl) *pl = 0;
            report(&x, "static-footprint|changed=%s|%s", sb, relclass(&x, b2));
            tv_restore();
        }
        return;
    }
    oracle(&x);
}

/* ---------------------------------------------------------------- generators */
static long shard_i = 0, shard_n = 1, gen_count = 0;
static long n_sampled;
static void emit(const Case *c) {
    if ((gen_count++ % shard_n) != shard_i) return;
    if (n_sampled < 2 || (n_sampled < 4 && gen_count % 9973 == 0)) { char l[700]; case_line(c, l); printf("{\"t\":\"sample\",\"case\":\"%s\"}\n", l); n_sampled++; }
    run_case(c);
}

static int uniq_add(size_t *v, int n, size_t x) { for (int i = 0; i < n; i++) if (v[i] == x) return n; v[n] = x; return n + 1; }

void gen_generic(int fi) {
    const Fn *f = &fntab[fi];
    Case c;
    int has_src = has_tok(f, "S") || has_tok(f, "T");
    int src_str = has_tok(f, "S");
    int has_l = has_tok(f, "l"), has_bd = has_tok(f, "bd"), has_bs = has_tok(f, "bs");
    int has_c = has_tok(f, "c"), has_k = has_tok(f, "k");
    int has_o = has_tok(f, "oI") || has_tok(f, "oZ") || has_tok(f, "oP");
    int N = g_N;
    size_t dm[40]; int ndm = 0;
    for (int i = 1; i <= N + 2; i++) ndm = uniq_add(dm, ndm, i);
    if (!(f->flags & F_QRY)) { ndm = uniq_add(dm, ndm, 0x1f); ndm = uniq_add(dm, ndm, 0x20); ndm = uniq_add(dm, ndm, 0x21); ndm = uniq_add(dm, ndm, 0x22); }
    if (g_tier) { static const size_t big[] = { 63, 64, 65, 127, 128, 129, 255, 256, 257 }; for (int i = 0; i < 9; i++) ndm = uniq_add(dm, ndm, big[i]); }   /* block sizes of the unrolled primitives and scratch thresholds */
    size_t sl[40]; int nsl = 0;
    if (has_l) { for (int i = 0; i <= N + 2; i++) nsl = uniq_add(sl, nsl, i); } else sl[nsl++] = 0;
    long cv[10]; int ncv = 0;
    if (has_c) { cv[ncv++] = 'a'; cv[ncv++] = 'c'; cv[ncv++] = 0; cv[ncv++] = 0x1ff; cv[ncv++] = 0x100 + 'b';      /* 0x162: outside unsigned char, its low byte occurs in the source pattern */
                 if (g_tier) { cv[ncv++] = 0x80; cv[ncv++] = 'Z'; cv[ncv++] = 'c' - 256; } } else cv[ncv++] = 0;

    /* ---- part 1: all entry constraints satisfied: the full size lattice */
    for (int place = 0; place < 2; place++)
    for (int idm = 0; idm < ndm; idm++)
    for (int extra = 0; extra < 2; extra++)
    for (int dbos = 0; dbos <= (has_bd ? 1 : 0); dbos++) {
        size_t dmax = dm[idm];
        if (dmax * f->dunit % f->w && !(f->dunit == 1 && f->w > 1)) continue;   /* a byte dmax need not hold whole elements */
        long nel = dmax * f->dunit / f->w;
        /* prior dest contents */
        int npri = 0; struct { int pk; long pl; } pri[56];
        if (f->flags & (F_DSTR | F_QRY)) {
            for (long p = 0; p < nel && p <= N + 1; p++) { pri[npri].pk = 1; pri[npri++].pl = p; }
            if (f->flags & F_DSTR) for (long p = 0; p < nel && p <= 3; p++) { pri[npri].pk = 3; pri[npri++].pl = p; }
            if (nel > N + 2) { pri[npri].pk = 1; pri[npri++].pl = nel - 1; pri[npri].pk = 1; pri[npri++].pl = nel - 2; }
            if (nel >= 1) { pri[npri].pk = 1; pri[npri++].pl = nel; }      /* the whole array holds ordinary characters and no terminator (the dirty fill is no character a classifier accepts) */
            pri[npri].pk = 0; pri[npri++].pl = 0;
        } else {
            pri[npri].pk = 0; pri[npri++].pl = 0;
            if (nel > 1) { pri[npri].pk = 1; pri[npri++].pl = nel - 1; }
        }
        for (int ip = 0; ip < npri; ip++) {
            memset(&c, 0, sizeof c);
            c.fn = fi; c.place = place; c.dmax = dmax; c.d_obj = dmax + (extra ? 3 * f->w / f->dunit + (f->w < f->dunit) : 0);
            if (extra && (c.d_obj * f->dunit) % f->w) continue;
            c.d_bos = dbos; c.d_pk = pri[ip].pk; c.d_pl = pri[ip].pl;
            if (!has_src) {
                for (int ic = 0; ic < ncv; ic++) {
                    c.c = cv[ic];
                    if (has_k) { for (long k = 0; k <= nel + 2 && k <= N + 4; k++) { c.k = k; emit(&c); } }
                    else emit(&c);
                }
                continue;
            }
            long maxL = N + 1;
            for (long L = 0; L <= maxL; L++)
            for (int term = 1; term >= 0; term--) {
                if (!src_str && term == 0) continue;          /* counted arrays have no terminator notion */
                if (src_str && !term && !has_l && !has_bs) continue;   /* an unterminated source needs a declared length or a known object size */
                for (int isl = 0; isl < nsl; isl++)
                for (int sbos = 0; sbos <= (has_bs ? (has_l && src_str ? 2 : 1) : 0); sbos++) {      /* 2: a source array of slen elements, its size known, holding a shorter string and the remains of an older one behind it */
                    size_t slen = sl[isl];
                    c.s_len = L; c.s_term = term; c.slen = slen; c.s_bos = sbos ? 1 : 0; c.s_k = 0;
                    if (sbos == 2 && !(term && slen > (size_t)L + 1)) continue;
                    if (src_str && !term && !has_l) { if (!sbos || L == 0) continue; c.s_obj = L; }   /* known-size unterminated source */
                    else if (src_str) {
                        if (term) c.s_obj = has_l ? (long)((size_t)(L + 1) < slen ? (size_t)(L + 1) : slen) : L + 1;
                        else { if ((size_t)L != slen) continue; c.s_obj = L ? L : 1; }   /* unterminated: exactly fills slen */
                        if (has_l && term && slen == 0) c.s_obj = 1;   /* zero-length request: first element readable (DESIGN 4) */
                        if (sbos == 2) c.s_obj = slen;
                    } else {
                        if (L != 0) continue;                 /* counted array: length is slen itself */
                        c.s_obj = slen ? slen : 1; c.s_len = slen; c.s_term = 0;
                        if (f->flags & F_SAMELEN) { c.s_obj = nel; c.s_len = nel; }
                    }
                    for (int ic = 0; ic < ncv; ic++) {
                        c.c = cv[ic];
                        if (has_k) { for (long k = 0; k <= N + 2; k++) { c.k = k; emit(&c); } }
                        else emit(&c);
                    }
                }
            }
        }
    }
    /* ---- part 2: the violation lattice: every combination of generic violations on a reduced size set */
    {
        int dnull_v[] = {0, 1};
        struct { size_t dmax; int huge; } dmv[9]; int ndmv = 0;
        dmv[ndmv].dmax = 3 * f->w / f->dunit; dmv[ndmv++].huge = 0;   /* three elements */
        dmv[ndmv].dmax = 0; dmv[ndmv++].huge = 0;
        if (f->lim == LIM_STR || f->lim == LIM_WSTR) { dmv[ndmv].dmax = fn_limit(f); dmv[ndmv++].huge = 1; }
        dmv[ndmv].dmax = fn_limit(f) + 1; dmv[ndmv++].huge = 2;
        if ((f->lim == LIM_STR || f->lim == LIM_WSTR) && has_bd) { dmv[ndmv].dmax = fn_limit(f) + 8; dmv[ndmv++].huge = 4; }    /* above the limit with a real object of that size, its size known to the library */
        dmv[ndmv].dmax = (size_t)-1; dmv[ndmv++].huge = 3;
        if (f->dunit > 1) { dmv[ndmv].dmax = (size_t)-1 / f->dunit + 3; dmv[ndmv++].huge = 3; }     /* a count whose product with the element size wraps to a few bytes */
        struct { size_t slen; int huge; } slv[6]; int nslv = 0;
        slv[nslv].slen = 2; slv[nslv++].huge = 0;
        if (has_l) { slv[nslv].slen = 0; slv[nslv++].huge = 0;
                     slv[nslv].slen = fn_slimit(f); slv[nslv++].huge = 1;
                     slv[nslv].slen = fn_slimit(f) + 1; slv[nslv++].huge = 2;
                     if (f->sunit > 1) { slv[nslv].slen = (size_t)-1 / f->sunit + 3; slv[nslv++].huge = 2; } }     /* product with the element size wraps to a few bytes */
        for (int place = 0; place < 2; place++)
        for (int idn = 0; idn < 2; idn++)
        for (int idm = 0; idm < ndmv; idm++)
        for (int dbos = 0; dbos <= (has_bd ? 4 : 0); dbos++)      /* 1: known = declared, 2: known but smaller than declared, 3: known and larger than declared (dest is the head of a bigger object), 4: known and empty (dest points at the end of an object) */
        for (int isn = 0; isn <= (has_src ? 1 : 0); isn++)
        for (int isl = 0; isl < nslv; isl++)
        for (int sbos = 0; sbos <= (has_bs ? (has_l ? 2 : 1) : 0); sbos++)      /* 2: the source object's size is known and smaller than the declared slen */
        for (int ion = 0; ion <= (has_o ? 1 : 0); ion++)
        for (int al = 0; al <= (has_src ? ((f->flags & F_OV) ? 2 : 1) : 0); al++)   /* 1: src is dest itself, 2: src is dest + one element (partial overlap) */
        for (int pk = 0; pk < 2; pk++) {
            if ((f->flags & F_NONULL) && (idn || isn)) continue;   /* no documented null-pointer constraint */
            memset(&c, 0, sizeof c);
            c.fn = fi; c.place = place; c.d_null = dnull_v[idn];
            c.dmax = dmv[idm].dmax; c.d_huge = dmv[idm].huge; c.d_bos = dbos == 3 ? 1 : dbos == 4 ? 2 : dbos;
            if (!c.d_null && c.dmax && !c.d_huge && dbos != 2 && dbos != 4 && !isn && !slv[isl].huge && !ion && !al && sbos != 2) {
                if (has_k && !has_src && pk == 0) {      /* everything valid except the element count: the limit + 1, and values whose product with the element size wraps */
                    const size_t kv[] = { fn_limit(f) + 1, (size_t)-1 / f->w + 1, (size_t)-1 / f->w + 4, (size_t)-1 / 2 + 1, (size_t)-1 };
                    c.d_obj = dbos == 3 ? c.dmax + 3 * f->w / f->dunit + (f->w < f->dunit) : c.dmax; c.d_pk = 0; c.c = 'a';
                    if ((c.d_obj * f->dunit) % f->w == 0) for (int q = 0; q < 5; q++) { c.k = (long)kv[q]; emit(&c); }
                }
                continue; /* the rest is part 1 */
            }
            if (al && (idn || isn || (dmv[idm].huge >= 2 && dmv[idm].huge != 4))) continue;                  /* aliasing needs two real pointers */
            if (al && !(f->flags & F_QRY) && (P == 3 || P == 4 || P == 6 || P == 8)) continue;   /* identical pointers of a dest-writing call are C07's */
            if (al && src_str && !pk) continue;                                      /* the aliased operand must be a string */
            if (c.d_huge == 4) { if (dbos != 1) continue; c.d_obj = c.dmax; }
            else if (c.d_huge >= 2) { c.d_obj = 0; if (dbos) continue; }
            else if (c.d_huge == 1) c.d_obj = c.dmax;
            else c.d_obj = c.dmax;
            if (dbos == 3) { if (c.d_huge || !c.dmax) continue; c.d_obj = c.dmax + 3 * f->w / f->dunit + (f->w < f->dunit); if ((c.d_obj * f->dunit) % f->w) continue; }
            if (dbos == 2) {   /* known object smaller than the declared dmax */
                if (c.d_huge || c.dmax < 2) continue;
                c.d_obj = c.dmax - f->w / f->dunit;                /* one element less than declared */
                if (c.d_obj <= 0) continue;
            }
            if (dbos == 4) { if (c.d_huge || !c.dmax) continue; c.d_obj = 0; }
            long nel = c.d_obj * f->dunit / f->w;
            c.d_pk = pk; c.d_pl = pk ? (nel > 1 ? 1 : 0) : 0;
            if (pk && nel < 1) continue;
            c.s_null = isn; c.slen = slv[isl].slen; c.s_huge = slv[isl].huge; c.s_bos = sbos ? 1 : 0;
            if (sbos == 2 && (c.s_huge || c.slen < 2 || isn || al)) continue;
            c.s_len = 2; c.s_term = 1; c.s_obj = src_str ? 3 : (c.s_huge ? 4 : (c.slen ? (long)c.slen : 1));
            if (src_str && has_l && !c.s_huge && c.slen < 3) c.s_obj = c.slen ? c.slen : 1;
            if (!src_str && c.s_huge == 1) {   /* a counted array declared at the limit really is that large */
                if (c.slen * f->sunit > DATA) continue;
                c.s_obj = c.slen;
            }
            if (sbos == 2) { c.s_obj = c.slen - 1; if (src_str) { c.s_len = c.s_obj - 1; } }      /* one element less than declared; a string source still holds its terminator */
            if (!src_str) { c.s_len = c.s_obj; c.s_term = 0; }
            if ((f->flags & F_SAMELEN) && c.d_huge < 2) { c.s_obj = c.d_obj > 0 ? c.d_obj : 1; c.s_len = c.s_obj; }
            c.o_null = ion; c.c = 'a'; c.k = 1; c.alias = al;

            if (al == 2) { if (c.d_obj * f->dunit / f->w < 3) continue; for (int q = 0; q < 2; q++) { c.slen = q + 1; c.s_huge = 0; emit(&c); if (!has_l) break; } }
            else if (al) { for (int q = 0; q < 4; q++) { static const size_t sq[4] = { 1, 2, 5, 4097 }; c.slen = sq[q]; c.s_huge = c.slen > fn_slimit(f) ? 2 : 0; emit(&c); if (!has_l) break; } }
            else emit(&c);
        }
    }
}

/* folding comparisons of wide strings: operands over characters whose full case folding is longer than the character
 * (explicit content bytes F0..F3 stand for U+0390, U+03B0, U+00DF, U+FB03 in a wide operand), lengths 0..Lmax; the second operand is
 * the first, the first with its last character replaced, or the first cut by one; bounds exact or with slack */
void gen_foldcmp(int fi) {
    const Fn *f = &fntab[fi];
    if (strcmp(f->name, "wcsicmp_s") && strcmp(f->name, "wcsnatcmp_s")) return;
    static const unsigned char al[] = { 0xF0, 's', 0xF2, 0xF1, 0xF3 };
    int na = 3, lmax = g_tier ? 8 : 6; Case c;
    for (int dl = 0; dl <= lmax; dl++) {
        long n = 1; for (int i = 0; i < dl; i++) n *= na;
        for (long di = 0; di < n; di++) {
            unsigned char ds[16]; long t = di; for (int i = 0; i < dl; i++) { ds[i] = al[t % na]; t /= na; }
            for (int var = 0; var < 2 + 5; var++) {
                unsigned char ss[16]; int sl = dl; memcpy(ss, ds, dl);
                if (var == 1) { if (!dl) continue; sl = dl - 1; }
                if (var >= 2) { if (!dl) continue; if (ss[dl - 1] == al[var - 2]) continue; ss[dl - 1] = al[var - 2]; }
                for (int dv = 0; dv < 2; dv++) for (int place = 0; place < 2; place++) {
                    memset(&c, 0, sizeof c);
                    c.fn = fi; c.place = place; c.dmax = dl + 1 + 2 * dv; c.d_obj = c.dmax; c.d_pk = 2; memcpy(c.dx, ds, dl); c.dx[dl] = 0; c.dxn = dl + 1; c.d_pl = dl;
                    if (dv) { c.dx[dl + 1] = 'a'; c.dx[dl + 2] = 0; c.dxn = dl + 3; }
                    c.s_k = 2; c.s_len = sl; c.s_term = 1; memcpy(c.sx, ss, sl); c.sx[sl] = 0; c.sxn = sl + 1; c.slen = sl + 1 + 2 * dv; c.s_obj = sl + 1;
                    if (dv) c.slen = sl + 1;
                    c.c = 1;      /* wcsnatcmp_s: fold_case */
                    emit(&c);
                }
            }
        }
    }
}

/* query alphabet enumeration (C10 and the query side of C02/C05): explicit contents */
static const unsigned char *q_alpha; static int q_na;     /* set by gen_query_alias for its second alphabet */
void gen_query(int fi) {
    const Fn *f = &fntab[fi];
    static const unsigned char alpha_std[] = { 'a', 0x80, 'A', '_', '1', ' ', 'b' };    /* '_' sorts between the upper- and the lower-case letters */
    const unsigned char *alpha_q = q_alpha ? q_alpha : alpha_std;
    int na = q_alpha ? q_na : g_tier ? 6 : 5;
    int maxlen = q_alpha ? 3 : g_tier ? 4 : 3;
    int has_src = has_tok(f, "S") || has_tok(f, "T");
    int has_l = has_tok(f, "l"), has_c = has_tok(f, "c");
    int src_str = has_tok(f, "S");
    int has_kq = has_tok(f, "k");
    Case c;
    /* all strings over the alphabet up to maxlen for dest; same for src */
    long nd = 1; for (int i = 0; i < maxlen; i++) nd = nd * na + 1;   /* count of strings of length <= maxlen */
    (void)nd;
    unsigned char ds[8], ss[8];
    for (int dl = 0; dl <= maxlen; dl++) {
        long ndl = 1; for (int i = 0; i < dl; i++) ndl *= na;
        for (long di = 0; di < ndl; di++) {
            long t = di; for (int i = 0; i < dl; i++) { ds[i] = alpha_q[t % na]; t /= na; }
            /* dmax: exactly the string + terminator, with slack, or unterminated exact-fit */
            for (int dvx = 0; dvx < 3 + (has_tok(f, "bd") ? 2 : 0); dvx++) {
                int qbos = dvx >= 3, dv = dvx == 3 ? 0 : dvx == 4 ? 2 : dvx;      /* 3,4: as 0 and 2 with the object size known to the library */
                size_t dmax = dv == 0 ? dl + 1 : dv == 1 ? dl + 3 : dl;
                if (dmax == 0) continue;
                /* the second operand is the first one (same pointer), with every count up to the string's length + 1 */
                if (has_src && src_str && dv != 2) for (int sl2 = has_l ? 1 : 0; sl2 <= (has_l ? dl + 1 : 0); sl2++) for (int place = 0; place < 2; place++) {
                    memset(&c, 0, sizeof c);
                    c.fn = fi; c.place = place; c.dmax = dmax; c.d_obj = dmax; c.d_pk = 2; c.dxn = dl + 1; memcpy(c.dx, ds, dl); c.dx[dl] = 0;
                    if (dv == 1) { c.dxn = dl + 3; c.dx[dl + 1] = 'a'; c.dx[dl + 2] = 0; }
                    c.d_pl = dl; c.d_bos = qbos; c.alias = 1; c.slen = sl2; c.s_obj = dmax; c.s_len = dl; c.s_term = 1; c.s_k = 2; c.sxn = 0;
                    emit(&c);
                }
                int sl_lo = 0, sl_hi = has_src ? maxlen : 0;
                for (int sln = sl_lo; sln <= sl_hi; sln++) {
                    long nsl = 1; for (int i = 0; i < sln; i++) nsl *= na;
                    if (!has_src) nsl = 1;
                    for (long si = 0; si < nsl; si++) {
                        long u = si; for (int i = 0; i < sln; i++) { ss[i] = alpha_q[u % na]; u /= na; }
                        int nsv = has_l ? 3 : 1;
                        for (int sv = 0; sv < nsv; sv++)
                        for (int place = 0; place < 2; place++) {
                            int ncv = has_c ? na + 1 : 1;
                            for (int ic = 0; ic < ncv; ic++) {
                                memset(&c, 0, sizeof c);
                                c.fn = fi; c.place = place; c.dmax = dmax; c.d_obj = dmax;
                                c.d_pk = 2; c.dxn = dl + (dv != 2); memcpy(c.dx, ds, dl); if (dv != 2) c.dx[dl] = 0;
                                if (dv == 1) { c.dxn = dl + 3; c.dx[dl + 1] = 'a'; c.dx[dl + 2] = 0; }
                                if (dv == 2) c.d_pk = 2;
                                c.d_pl = dl; c.d_bos = qbos;
                                if (has_src) {
                                    c.s_k = 2; c.s_len = sln; c.s_term = 1;
                                    memcpy(c.sx, ss, sln); c.sx[sln] = 0; c.sxn = sln + 1;
                                    if (src_str) {
                                        if (!has_l) { c.s_obj = sln + 1; }
                                        else if (sv == 0) { c.slen = sln + 1; c.s_obj = sln + 1; }
                                        else if (sv == 1) { c.slen = sln; c.s_obj = sln; c.s_term = 0; c.sxn = sln; if (!sln) continue; }
                                        else { c.slen = sln + 3; c.s_obj = sln + 1; }
                                    } else if (f->flags & F_SAMELEN) {
                                        if (sv) continue;
                                        c.s_obj = dmax; c.s_term = 0; c.sxn = sln < (int)dmax ? sln : (int)dmax; c.s_len = dmax;
                                    } else {
                                        if (sv == 0) { c.slen = sln; c.s_obj = sln; c.sxn = sln; c.s_term = 0; }
                                        else if (sv == 1) { if (sln < 1) continue; c.slen = sln - 1; c.s_obj = sln - 1; c.sxn = sln - 1; c.s_term = 0; }
                                        else continue;
                                    }
                                }
                                c.c = has_c ? (ic < na ? alpha_q[ic] : 0) : 0;
                                if (has_kq) { for (long kk = 0; kk <= maxlen + 2; kk++) { c.k = kk; emit(&c); } }      /* a count of elements to look at: none, fewer than, exactly and more than either operand has */
                                else emit(&c);
                            }
                        }
                    }
                }
            }
        }
    }
}

/* the same enumeration over bytes that differ only in the top bit ('a'/0xE1, 'b'/0xE2) for the byte-string search and set functions: a
 * table- or mask-based scan that drops the top bit answers wrongly only when the two operands hold such a pair */
void gen_query_alias(int fi) {
    static const char *const names[] = { "strspn_s", "strcspn_s", "strpbrk_s", "strstr_s", "strchr_s", "strrchr_s", "strcmp_s", "memchr_s", "memrchr_s", 0 };
    static const unsigned char al[] = { 'a', 0xE1, 'b', 0xE2 };
    int hit = 0; for (int i = 0; names[i]; i++) if (!strcmp(fntab[fi].name, names[i])) hit = 1;
    if (!hit) return;
    q_alpha = al; q_na = g_tier ? 4 : 3; gen_query(fi); q_alpha = 0;
}


/* word-unrolled primitives: every (start alignment, length) pair, every source alignment, byte fills
 * around the sign bit: mem{cpy,move}{,16,32}_s wmem{cpy,move}_s mem{set,zero}{,16,32}_s */
void gen_prims(int fi) {
    const Fn *f = &fntab[fi];
    if (!has_tok(f, "M")) return;
    int copy = has_tok(f, "T"), set = has_tok(f, "k") && has_tok(f, "c"), zero = !copy && !set;
    if (has_tok(f, "c") && copy) return;                     /* memccpy_s: not a plain primitive */
    int maxlen = g_tier ? 160 : 72;
    static const long fills[] = { 0x00, 0x5a, 0x80, 0xff, 0x8001, 0x80000001L };
    Case c;
    static const int biglen[] = { 255, 256, 257, 511, 512, 513, 520, 1023, 1024, 1025, 1200, 2047, 2048, 2049, 2400 };   /* byte lengths around 256 and 512 elements of each width: thresholds a block-wise fast path would use */
    for (int li = 0; li <= maxlen + 15; li++) {
        int len = li <= maxlen ? li : biglen[li - maxlen - 1];
        if (len % f->w) continue;
        for (int e = 0; e < 8; e++) {                        /* dest start alignment via trailing slack */
            if (e % f->w && f->dunit != 1) continue;
            if ((len + e) % f->dunit) continue;
            for (int so = 0; so < (copy ? 8 : 1); so++) {
                if (so % f->w) continue;
                for (int fv = 0; fv < (set ? 6 : 1); fv++) {
                    if (set && f->w == 1 && fills[fv] > 0xff) continue;
                    if (set && f->w == 2 && fills[fv] > 0xffff) continue;
                    memset(&c, 0, sizeof c);
                    c.fn = fi; c.place = 0; c.d_pk = 0;
                    if (f->dunit == 1) { c.dmax = len; c.d_obj = len + e; }
                    else { c.dmax = len / f->dunit; c.d_obj = (len + e) / f->dunit; if (e % f->dunit) continue; }
                    if (c.dmax == 0 && len) continue;
                    if (copy) { c.slen = len / f->sunit; c.s_obj = c.slen ? c.slen : 1; c.s_len = c.slen; c.s_off = so; }
                    if (set) { c.c = fills[fv]; c.k = len / f->w; }
                    if (zero) { /* dmax is the count */ }
                    if (c.dmax == 0) continue;
                    emit(&c);
                }
            }
        }
    }
}
/* long memory comparisons: two differences of opposite order inside one word, all positions */
void gen_longcmp(int fi) {
    const Fn *f = &fntab[fi];
    if (!has_tok(f, "K") || !(has_tok(f, "T"))) return;
    Case c;
    for (int len = 5; len <= 20; len++) for (int p = 0; p < len; p++) for (int q = p; q < len; q++) for (int ord = 0; ord < 4; ord++) {
        memset(&c, 0, sizeof c);
        c.fn = fi; c.place = 0; c.dmax = len; c.d_obj = len; c.d_pk = 2; c.s_k = 2;
        c.dxn = c.sxn = len > 24 ? 24 : len;
        for (int i = 0; i < len && i < 24; i++) { c.dx[i] = 0x40 + i; c.sx[i] = 0x40 + i; }
        if (len > 24) continue;
        c.dx[p] = (ord & 1) ? 0x10 : 0xf0; c.sx[p] = (ord & 1) ? 0xf0 : 0x10;
        if (q != p) { c.dx[q] = (ord & 2) ? 0x10 : 0xf0; c.sx[q] = (ord & 2) ? 0xf0 : 0x10; }
        c.s_obj = len; c.s_len = len; c.slen = len;
        if (f->flags & F_SAMELEN) c.slen = 0;
        emit(&c);
    }
}

/* searches in long haystacks (a library may hand long operands to another routine): the haystack is the prior-string pattern pqrstuvw... of
 * 200..300 characters, the needle one of its substrings, in either case, followed by a character that does not continue the match and cut off by slen */
void gen_longsearch(int fi) {
    const Fn *f = &fntab[fi];
    if (strcmp(f->name, "strstr_s") && strcmp(f->name, "strcasestr_s") && strcmp(f->name, "wcsstr_s")) return;
    static const int DL[] = { 200, 255, 256, 257, 300 };
    static const char *ND[] = { "stuvX", "STUVx", "wpqrX", "stuv", "pqrstuvwpX" };
    Case c;
    for (int di = 0; di < 5; di++) for (int extra = 0; extra < 2; extra++) for (int ni = 0; ni < 5; ni++) for (int cut = 0; cut < 2; cut++) for (int place = 0; place < 2; place++) {
        int nl = strlen(ND[ni]);
        memset(&c, 0, sizeof c);
        c.fn = fi; c.place = place; c.dmax = DL[di] + 1 + 2 * extra; c.d_obj = c.dmax; c.d_pk = 1; c.d_pl = DL[di];
        c.s_k = 2; memcpy(c.sx, ND[ni], nl + 1); c.sxn = nl + 1; c.s_len = nl; c.s_term = 1; c.s_obj = nl + 1;
        c.slen = cut ? nl - 1 : nl + 1;
        emit(&c);
    }
}

/* string comparisons of operands of 200..639 characters (a library that folds or copies its operands sizes scratch space from them): both operands the
 * letter pattern, equal or differing in the last character or in case, bounds exact */
void gen_longstrcmp(int fi) {
    const Fn *f = &fntab[fi];
    if (strcmp(f->name, "strcmp_s") && strcmp(f->name, "strcasecmp_s") && strcmp(f->name, "wcscmp_s") && strcmp(f->name, "wcsicmp_s") && strcmp(f->name, "wcsnatcmp_s") && strcmp(f->name, "strnatcmp_s")) return;
    static const int DL[] = { 200, 330, 341, 342, 500, 639 };
    int has_l = has_tok(f, "l"), has_c = has_tok(f, "c"); Case c;
    for (int di = 0; di < 6; di++) for (int var = 0; var < 3; var++) for (int fold = 0; fold <= (has_c ? 1 : 0); fold++) {
        memset(&c, 0, sizeof c);
        c.fn = fi; c.place = 1; c.dmax = DL[di] + 1; c.d_obj = c.dmax; c.d_pk = 1; c.d_pl = DL[di];      /* dest: p q r s t u v w p q ... */
        c.s_k = 0; c.s_len = var == 1 ? DL[di] - 1 : DL[di]; c.s_term = 1; c.s_obj = c.s_len + 1; c.slen = has_l ? c.s_obj : 0; c.c = fold;   /* src: a b c ... (differs at once), or shorter */
        if (var == 2) { c.alias = 1; c.s_obj = c.dmax; c.s_len = DL[di]; c.slen = has_l ? c.dmax : 0; }      /* the operand against itself */
        emit(&c);
    }
}

/* element comparisons around the sign bit: every pair of element values over {1, 0x7f.., 0x80.., 0xc0.., 0xff..} at every position of
 * operands of 1..3 elements (the wide-character compare orders them as signed wchar_t, the 16/32-bit ones as unsigned) */
void gen_signcmp(int fi) {
    const Fn *f = &fntab[fi];
    if (!has_tok(f, "K") || !has_tok(f, "T") || (f->flags & F_SAMELEN)) return;
    static const unsigned char V[] = { 0x01, 0xF7, 0xF4, 0xF5, 0xF6 };
    Case c;
    for (int len = 1; len <= 3; len++) for (int pos = 0; pos < len; pos++) for (int a = 0; a < 5; a++) for (int b = 0; b < 5; b++) for (int place = 0; place < 2; place++) {
        memset(&c, 0, sizeof c);
        c.fn = fi; c.place = place; c.dmax = len; c.d_obj = len; c.d_pk = 2; c.s_k = 2; c.dxn = c.sxn = len;
        for (int i = 0; i < len; i++) { c.dx[i] = 0x41 + i; c.sx[i] = 0x41 + i; }
        c.dx[pos] = V[a]; c.sx[pos] = V[b];
        if (pos + 1 < len) { c.dx[pos + 1] = V[b]; c.sx[pos + 1] = V[a]; }      /* a later difference of the opposite order must not decide */
        c.s_obj = len; c.s_len = len; c.slen = len;
        emit(&c);
    }
}

/* ---------------------------------------------------------------- main */
extern void fntab_init(void *lib);
static void usage(void) { fprintf(stderr, "usage: cat run|replay ...\n"); exit(2); }

int main(int argc, char **argv) {
    setvbuf(stdout, NULL, _IOLBF, 0);
    if (argc >= 2 && !strcmp(argv[1], "list")) { for (int i = 0; i < nfn; i++) printf("%s %x\n", fntab[i].name, fntab[i].flags); return 0; }
    if (argc < 6) usage();
    int replay = !strcmp(argv[1], "replay");
    g_prop = argv[2]; P = atoi(g_prop + 1);
    const char *fname; const char *caseline = NULL;
    if (replay) { g_variant = argv[3]; g_locale = argv[4]; caseline = argv[5]; fname = NULL; g_verbose = 1; }
    else { if (argc < 7) usage(); g_tier = !strcmp(argv[3], "thorough"); g_variant = argv[4]; g_locale = argv[5]; fname = argv[6];
           if (argc >= 9) { shard_i = atol(argv[7]); shard_n = atol(argv[8]); } }
    g_N = g_tier ? 14 : 5;
    if (getenv("CAT_N")) g_N = atoi(getenv("CAT_N"));
    guard_prot = (P == 2) ? PROT_NONE : PROT_READ;
    if (!setlocale(LC_ALL, g_locale)) { fprintf(stderr, "cannot set locale %s\n", g_locale); return 2; }
    setenv("TZ", "UTC", 1);
    arena_init();
    void *lib = dlopen(getenv("CAT_LIB"), RTLD_NOW | RTLD_GLOBAL);
    if (!lib) { fprintf(stderr, "cannot load CAT_LIB=%s: %s\n", getenv("CAT_LIB"), dlerror()); return 2; }
    fntab_init(lib);
    {   /* register the probes through the public API */
        void *(*ss)(void *) = dlsym(lib, "set_str_constraint_handler_s");
        void *(*sm)(void *) = dlsym(lib, "set_mem_constraint_handler_s");
        if (!ss || !sm) { fprintf(stderr, "no handler registration symbols\n"); return 2; }
        ss((void *)h_str); sm((void *)h_mem);
    }
    sig_init();
    if (P == 12) {
        if (tv_init("libsafec")) { fprintf(stderr, "cannot locate the library's static segment\n"); return 2; }
        tv_snapshot();
    }
    if (replay) {
        Case c; if (parse_case(caseline, &c)) { fprintf(stderr, "cannot parse case\n"); return 2; }
        run_case(&c);
        if (!nsigs) printf("VERDICT ok\n");
        return nsigs ? 1 : 0;
    }
    int found = 0;
    for (int i = 0; i < nfn; i++) {
        if (strcmp(fname, "all") && strcmp(fname, fntab[i].name)) continue;
        if (!fntab[i].addr) continue;
        found = 1;
        long e0 = n_eval;
        if (P == 10 || ((fntab[i].flags & F_QRY) && (P == 2 || P == 5) && getenv("CAT_QALPHA"))) gen_query(i);
        else gen_generic(i);
        if ((fntab[i].flags & F_QRY) && (P == 2)) gen_query(i);
        if (P == 1 || P == 2 || P == 6 || P == 12) gen_prims(i);
        if (P == 10) gen_query_alias(i);
        if (P == 10 || P == 2) gen_longcmp(i);
        if (P == 10) gen_signcmp(i);
        if (P == 10 || P == 2) gen_longsearch(i);
        if (P == 10 || P == 5) gen_longstrcmp(i);
        if (P == 10 || P == 1 || P == 2 || P == 5) gen_foldcmp(i);
        printf("{\"t\":\"fn\",\"fn\":\"%s\",\"evaluations\":%ld}\n", fntab[i].name, n_eval - e0);
    }
    if (!found) { fprintf(stderr, "unknown function %s\n", fname); return 2; }
    flush_reports();
    char l[700] = "";
    printf("{\"t\":\"stat\",\"evaluations\":%ld,\"nontrivial\":%ld,\"outcome_classes\":%d,\"fault_skipped\":%ld,\"masked\":%ld,\"signatures\":%d}\n",
           n_eval, n_nontriv, n_outcome, n_fault_skip, n_masked, nsigs);
    (void)l;
    return 0;
}
