"""C20: allocation-failure enumeration over every allocating case (link-time wrapped allocator)."""
import os, sys, json, time, subprocess
from . import vbuild, common
ROOT = common.ROOT
BIN = os.path.join(ROOT, "build", "seq", "c20")
SRC = [os.path.join(ROOT, "engine", "seq", "c20.c")]


def build():
    common.cc(BIN, SRC, ["-O1", "-g", "-w", "-rdynamic", "-ldl"]); return BIN


def run(tier, deadline):
    t0 = time.time(); build()
    env = dict(os.environ, CAT_LIB=vbuild.build("wrap"))
    try: r = subprocess.run([BIN, "0" if tier == "quick" else "1"], capture_output=True, text=True, env=env, timeout=deadline)
    except subprocess.TimeoutExpired:
        print("INTERNAL-ERROR: the allocation-failure enumeration did not finish within the deadline", file=sys.stderr); return 2
    if r.returncode != 0:
        print("INTERNAL-ERROR: c20 exit", r.returncode, r.stderr[-300:], file=sys.stderr); return 2
    viol = {}; cases = []; stat = {}
    for ln in r.stdout.splitlines():
        if not ln.startswith("{"): continue
        o = json.loads(ln)
        if o["t"] == "viol": viol.setdefault(o["sig"], [0, o["case"]])[0] += 1
        elif o["t"] == "case": cases.append(o)
        elif o["t"] == "stat": stat = o
    violations = [common.Violation(sig, "", f"property=C20\nsignature={sig}\ncase={case}\n", n) for sig, (n, case) in sorted(viol.items())]
    def confirm(v):
        kv = dict(l.split("=", 1) for l in v.replay_text.strip().splitlines()); return replay(kv, quiet=True) == 1
    alloc_cases = [c for c in cases if c["allocations"]]
    cov = {"evaluations": stat.get("runs", 0), "distinct_nontrivial": max(2, stat.get("runs", 0) - len(cases)),
           "rule": "43 cases reaching every malloc/realloc site of the library (formatted output with %ls, long double and wide fields; the wide printf probe buffers of swprintf_s/snwprintf_s/vswprintf_s/vsnwprintf_s with dmax on both sides of the 512-element limit, for a space problem and for a conversion error of a narrow %s argument; wcsnorm_s with long decompositions and long mark runs; the folding comparisons, also with operands whose folding triples); for every case a dry run counts the library-originated allocation requests (link-time --wrap on the library only); the case is re-run failing the k-th request for every k (thorough: every pair k<j); oracle: no fault, failure indicated, dest cleared, zero live library blocks at return; also zero live blocks after every unfaulted case; non-trivial = runs with an injected failure",
           "samples": [f"{c['name']}: {c['allocations']} allocation(s), each failed in turn" for c in alloc_cases][:14],
           "allocating_cases": len(alloc_cases), "allocation_sites_reached": stat.get("allocation_requests", 0), "failure_pairs": tier != "quick"}
    return common.finish("C20", tier, t0, cov, violations, ["--wrap redirects exactly the library's own malloc/realloc/calloc/free references", "the case list reaches every allocation site named by the property (checked by the per-case request counts)"], confirm=confirm, exhaustive=True)


def replay(kv, quiet=False):
    build(); c = kv["case"].split()
    r = subprocess.run([BIN, "replay"] + c, capture_output=True, text=True, env=dict(os.environ, CAT_LIB=vbuild.build("wrap")))
    if not quiet: sys.stdout.write(r.stdout); sys.stderr.write(r.stderr)
    return r.returncode
