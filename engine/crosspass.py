"""Passes one check borrows from another's machinery, reported under the borrowing property's id:
  hdr(pid, want)        the header client (engine/hdrclient.py) restricted to the macros `want(name)` accepts;
  footprint(pid, names) the static-storage footprint oracle of the catalogue harness (its P=12 mode: the library's writable
                        segment is bit-identical before and after every call of the function's lattice) for the named functions.
Both return [(signature, case, count)]; case strings start with 'hdrclient ' / 'footprint ' and are replayed by replay()."""
import os, json, subprocess, time
from concurrent.futures import ThreadPoolExecutor
from . import vbuild, common, hdrclient


def hdr(pid, want, tier):
    out = []; n = 0; internal = []
    for cc in ("gcc", "clang"):
        for opt in (("O2",) if tier == "quick" else ("O0", "O2")):
            r = hdrclient.task(cc, opt)
            for ln in r.stdout.splitlines():
                j = json.loads(ln)
                if j["t"] == "internal": internal.append(j["msg"])
                elif j["t"] == "stat": n += j["evaluations"]
                elif j["t"] == "viol":
                    f = j["sig"].split("|")
                    if want(f[1]): out.append((pid + "|" + "|".join(f[1:]), j["case"], j["n"]))
    return out, n, internal


def footprint(pid, names, tier, deadline_left):
    from . import catcheck
    catcheck.build_harness()
    lib = vbuild.build("prod"); env = dict(os.environ, CAT_LIB=lib, CAT_N="3" if tier == "quick" else "5")
    have = {n for n, fl in catcheck.fn_list()}
    out = []; evals = [0]; internal = []
    def one(name):
        return name, subprocess.run([catcheck.CAT, "run", "C12", tier, "prod", "C", name], capture_output=True, text=True, env=env, timeout=max(10, deadline_left))
    with ThreadPoolExecutor(16) as ex:
        for name, rr in ex.map(one, [n for n in names if n in have]):
            if rr.returncode != 0: internal.append(f"footprint {name}: exit {rr.returncode} {rr.stderr[-200:]}"); continue
            for ln in rr.stdout.splitlines():
                if not ln.startswith("{"): continue
                j = json.loads(ln)
                if j["t"] == "viol": f = j["sig"].split("|"); out.append((pid + "|" + "|".join(f[1:]), "footprint " + j["case"], j["n"]))
                elif j["t"] == "stat": evals[0] += j["evaluations"]
    return out, evals[0], internal


def op_footprint(pid, ops, tier):
    """the C12 op set under the page-trap logger: footprint violations of the named ops"""
    from . import p_c12
    p_c12.build(); lib = vbuild.build("prod")
    r = subprocess.run([p_c12.BIN, tier, "footprint"], capture_output=True, text=True, env=dict(os.environ, CAT_LIB=lib, C12_TMPDIR=os.path.join(common.ROOT, "build", "trapvm")))
    out = []; n = 0
    for ln in r.stdout.splitlines():
        if not ln.startswith("{"): continue
        j = json.loads(ln)
        if j["t"] == "fp" and j["op"] in ops: n += 1
        if j["t"] == "viol":
            f = j["sig"].split("|")
            if len(f) > 2 and f[2] in ops: out.append((pid + "|" + "|".join(f[1:]), "opfootprint " + j["case"], 1))
    return out, n, ([] if r.returncode == 0 else [f"op footprint pass: exit {r.returncode} {r.stderr[-200:]}"])


def is_cross(case): return case.startswith("hdrclient ") or case.startswith("footprint ") or case.startswith("opfootprint ")


def replay(kv, quiet=False):
    case = kv["case"]
    if case.startswith("hdrclient "): return hdrclient.replay(case, quiet)
    if case.startswith("opfootprint "):
        from . import p_c12
        return p_c12.replay(dict(kv, property="C12", case=case[len("opfootprint "):], signature="C12|" + "|".join(kv.get("signature", "").split("|")[1:])), quiet)
    from . import catcheck
    kv2 = dict(kv, property="C12", case=case[len("footprint "):], signature="C12|" + "|".join(kv.get("signature", "").split("|")[1:]))
    return catcheck.replay_kv(kv2, quiet)
