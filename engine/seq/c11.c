/* c11.c - C11 formatted output matches C printf for the documented conversions, or fails.
 * Directive grammar: flags x width x precision x length x conversion, each with the value table of its
 * type, x dmax in {1, need-1, need, need+1, 256}; reference = libc snprintf with the same arguments.
 * Integer/char/string conversions byte-exact; floating conversions same layout and value within one unit
 * of the last printed digit. Stream variants must emit the same bytes. Each case is executed after a
 * neutral call and after a call through the long-double/hex-float path: outputs must be identical.
 * usage: c11 <group> <tier> <shard> <nshards> | c11 replay <type> <valueidx> <star1> <star2> <dmax> <entry> "<fmt>"   env CAT_LIB */
#define _GNU_SOURCE
#include <stdio.h>
#include <stdlib.h>
#include <string.h>
#include <stdarg.h>
#include <stdint.h>
#include <stddef.h>
#include <limits.h>
#include <float.h>
#include <math.h>
#include <wchar.h>
#include <locale.h>
#include <signal.h>
#include <setjmp.h>
#include <dlfcn.h>
#include <sys/types.h>
#include <sys/mman.h>
#include <unistd.h>

#define BOSU ((size_t)-1)
typedef int (*spf)(char *, size_t, size_t, const char *, ...);
typedef int (*fpf)(FILE *, const char *, ...);
typedef int (*ppf)(const char *, ...);
static spf f_sprintf, f_snprintf; static fpf f_fprintf; static ppf f_printf;
static int (*f_vsprintf)(char *, size_t, size_t, const char *, va_list), (*f_vsnprintf)(char *, size_t, size_t, const char *, va_list), (*f_vfprintf)(FILE *, const char *, va_list), (*f_vprintf)(const char *, va_list);
static int w_vsprintf(char *d, size_t n, const char *fmt, ...) { va_list ap; va_start(ap, fmt); int r = f_vsprintf(d, n, BOSU, fmt, ap); va_end(ap); return r; }
static int w_vsnprintf(char *d, size_t n, const char *fmt, ...) { va_list ap; va_start(ap, fmt); int r = f_vsnprintf(d, n, BOSU, fmt, ap); va_end(ap); return r; }
static int w_vfprintf(FILE *fp, const char *fmt, ...) { va_list ap; va_start(ap, fmt); int r = f_vfprintf(fp, fmt, ap); va_end(ap); return r; }
static int w_vprintf(const char *fmt, ...) { va_list ap; va_start(ap, fmt); int r = f_vprintf(fmt, ap); va_end(ap); return r; }
static FILE *res, *sfp; static int so_fd, sf_fd;     /* results go to res; fd 1 is a memory file that receives printf_s output */
#define printf(...) fprintf(res, __VA_ARGS__)
#define NENT 8
#define IS_STREAM(e) ((e) == 2 || (e) == 3 || (e) == 6 || (e) == 7)
#define IS_STDOUT(e) ((e) == 3 || (e) == 7)
#define IS_TRUNC(e) ((e) == 1 || (e) == 5)
static int h_n; static void handler(const char *m, void *p, int e) { (void)m; (void)p; (void)e; h_n++; }
static sigjmp_buf jb; static volatile int armed;
static void on_sig(int s) { (void)s; if (!armed) _exit(3); armed = 0; siglongjmp(jb, 1); }

enum { T_NONE, T_INT, T_LONG, T_LLONG, T_SSIZE, T_IMAX, T_PTRDIFF, T_UINT, T_ULONG, T_ULLONG, T_SIZE, T_UIMAX, T_DBL, T_LDBL, T_STR, T_WSTR, T_WINT, T_CHAR, T_MULTI };
typedef union { long long i; unsigned long long u; double d; long double ld; const char *s; const wchar_t *w; } Val;

/* value tables */
static const long long IV[] = { 0, 1, -1, 42, -42, 0x7fffffffLL, -0x80000000LL, 0x7fffffffffffffffLL, (-0x7fffffffffffffffLL - 1),
    200, 256, -129, 40000, 70000 };      /* ints outside signed char / short: hh and h convert the promoted argument, it need not be in range */
static const unsigned long long UV[] = { 0, 1, 255, 0xffffffffULL, 0xffffffffffffffffULL, 0x8000, 300, 0x12345 };
static const double DV[] = { 0.0, -0.0, 0.5, 1.5, 2.5, 999999999.5, 1e9, 1000000001.0, 1e300, 4.9406564584124654e-324, INFINITY, -INFINITY, NAN, 123.456, -0.001, 9.9999, 0.000123456, 1e-5, 12345678.9,
    /* exponent borders and negative exponents: two/three exponent digits, carries into the next power of ten */
    1e100, 9.9999996e99, 1e-100, 9.5e-100, 9.5e-10, 3.7e-7, 1e99, 9.99999e-5, 1e15, 123456789012345678.0 };
#define NDV ((int)(sizeof DV / sizeof DV[0]))
/* long double values no double can hold (finite, beyond DBL_MAX; and below the smallest double) */
static const long double LDX[] = { 1e309L, -1e400L, 3.5953862697246314e308L /* 2 * DBL_MAX */, 1.18973149535723176502e4932L /* LDBL_MAX */, 1e-400L };
#define LDVAL(vi) ((vi) < NDV ? (long double)DV[vi] : LDX[(vi) - NDV])
static const char *SV[] = { "", "abc", "a string of exactly forty characters !!!", "h\xc3\xa9llo", NULL };      /* the null pointer (a violation the formatter itself finds) only in the reporting and memory sweeps */
static const wchar_t WBAD[] = { L'o', L'k', 0xd800, L'x', 0 };     /* not convertible in any locale: printf fails with EILSEQ */
static const wchar_t *WV[] = { L"", L"wide", L"\xe9\x20ac", WBAD };
static const wint_t WCV[] = { L'A', 0xe9, 0xd800, 0x200000, 0x7fffffff, 0 };     /* the last two: beyond Unicode, glibc still encodes them (5 and 6 bytes) */
static const int CV[] = { 'A', '%', 0x7f };

/* several directives in one format: integer-class arguments travel as longs, doubles as doubles (separate register
 * classes in the x86-64 calling convention, so one call shape serves every mix) */
static long MA[8]; static double MF[4];
typedef struct { const char *txt; char kind; } Menu;   /* kind: i int, l long, s string, w wide string, f double, c char, * width+int, - none */
static const Menu MENU[] = { {"%d",'i'}, {"%5d",'i'}, {"%-5d|",'i'}, {"%05d",'i'}, {"%+.3d",'i'}, {"%#x",'i'}, {"%ld",'l'}, {"%c",'c'}, {"%s",'s'}, {"%.2s",'s'}, {"%-8s|",'s'},
                             {"%ls",'w'}, {"%*d",'*'}, {"%%",'-'}, {"%f",'f'}, {"%.2f",'f'}, {"%e",'f'}, {"%g",'f'}, {"%10.3f",'f'}, {"%hhu",'i'}, {"%zu",'l'}, {"%lc",'c'} };
#define NMENU ((int)(sizeof MENU / sizeof MENU[0]))
static int build_multi(const int *ix, int k, int variant, char *fmt) {
    int na = 0, nf = 0; char *p = fmt; memset(MA, 0, sizeof MA); memset(MF, 0, sizeof MF);
    for (int i = 0; i < k; i++) { const Menu *m = &MENU[ix[i]]; int v = (variant + i) & 1;
        if (i) { *p++ = ','; *p++ = ' '; } p = stpcpy(p, m->txt);
        switch (m->kind) {
        case 'i': MA[na++] = v ? -42 : 7; break; case 'l': MA[na++] = v ? 0x7fffffffffffffffL : 1234567890123L; break;
        case 'c': MA[na++] = v ? 'z' : 'A'; break; case 's': MA[na++] = (long)(v ? SV[3] : SV[1]); break; case 'w': MA[na++] = (long)(v ? WV[2] : WV[1]); break;
        case '*': MA[na++] = v ? -6 : 6; MA[na++] = 42; break; case 'f': MF[nf++] = v ? -0.001 : 2.5; break; }
        if (na > 8 || nf > 4) return -1; }
    *p = 0; return 0;
}
static int parse_multi(const char *fmt, int *ix) {
    int k = 0; const char *p = fmt;
    while (*p) { int best = -1; size_t bl = 0; for (int m = 0; m < NMENU; m++) { size_t l = strlen(MENU[m].txt); if (!strncmp(p, MENU[m].txt, l) && l > bl) { best = m; bl = l; } }
        if (best < 0 || k >= 4) return -1; ix[k++] = best; p += bl; if (p[0] == ',' && p[1] == ' ') p += 2; }
    return k;
}
#define MARGS MA[0], MA[1], MA[2], MA[3], MA[4], MA[5], MA[6], MA[7], MF[0], MF[1], MF[2], MF[3]
static int call_lib(int entry, char *d, size_t dmax, FILE *fp, const char *fmt, int type, Val v, int ns, int s1, int s2) {
#define EC(...) (entry == 0 ? f_sprintf(d, dmax, BOSU, fmt, __VA_ARGS__) : entry == 1 ? f_snprintf(d, dmax, BOSU, fmt, __VA_ARGS__) : entry == 2 ? f_fprintf(fp, fmt, __VA_ARGS__) : entry == 3 ? f_printf(fmt, __VA_ARGS__) : \
                 entry == 4 ? w_vsprintf(d, dmax, fmt, __VA_ARGS__) : entry == 5 ? w_vsnprintf(d, dmax, fmt, __VA_ARGS__) : entry == 6 ? w_vfprintf(fp, fmt, __VA_ARGS__) : w_vprintf(fmt, __VA_ARGS__))
#define ARGS(X) (ns == 0 ? EC(X) : ns == 1 ? EC(s1, X) : EC(s1, s2, X))
    if (type == T_MULTI) return EC(MARGS);
    switch (type) {
    case T_NONE: return ARGS(0);
    case T_INT: case T_CHAR: return ARGS((int)v.i); case T_LONG: return ARGS((long)v.i); case T_LLONG: return ARGS((long long)v.i);
    case T_SSIZE: return ARGS((ssize_t)v.i); case T_IMAX: return ARGS((intmax_t)v.i); case T_PTRDIFF: return ARGS((ptrdiff_t)v.i);
    case T_UINT: return ARGS((unsigned)v.u); case T_ULONG: return ARGS((unsigned long)v.u); case T_ULLONG: return ARGS((unsigned long long)v.u);
    case T_SIZE: return ARGS((size_t)v.u); case T_UIMAX: return ARGS((uintmax_t)v.u);
    case T_DBL: return ARGS(v.d); case T_LDBL: return ARGS(v.ld); case T_STR: return ARGS(v.s); case T_WSTR: return ARGS(v.w); case T_WINT: return ARGS((wint_t)v.i);
    }
    return 0;
}
static int call_ref(char *d, size_t n, const char *fmt, int type, Val v, int ns, int s1, int s2) {
#define R1(X) (ns == 0 ? snprintf(d, n, fmt, X) : ns == 1 ? snprintf(d, n, fmt, s1, X) : snprintf(d, n, fmt, s1, s2, X))
    if (type == T_MULTI) return snprintf(d, n, fmt, MARGS);
    switch (type) {
    case T_NONE: return R1(0);
    case T_INT: case T_CHAR: return R1((int)v.i); case T_LONG: return R1((long)v.i); case T_LLONG: return R1((long long)v.i);
    case T_SSIZE: return R1((ssize_t)v.i); case T_IMAX: return R1((intmax_t)v.i); case T_PTRDIFF: return R1((ptrdiff_t)v.i);
    case T_UINT: return R1((unsigned)v.u); case T_ULONG: return R1((unsigned long)v.u); case T_ULLONG: return R1((unsigned long long)v.u);
    case T_SIZE: return R1((size_t)v.u); case T_UIMAX: return R1((uintmax_t)v.u);
    case T_DBL: return R1(v.d); case T_LDBL: return R1(v.ld); case T_STR: return R1(v.s); case T_WSTR: return R1(v.w); case T_WINT: return R1((wint_t)v.i);
    }
    return 0;
}

#define MAXSIG 16384
static const char *g_prop;
static char sigs[MAXSIG][160], sigcase[MAXSIG][64]; static long sigcnt[MAXSIG]; static int nsig; static long n_calls, n_viol, n_formats, n_float_tol;
static void report(const char *entry, const char *what, const char *cls, const char *cs) {
    char sig[160]; snprintf(sig, sizeof sig, "%s|%s|%s|%s", g_prop, entry, what, cls); n_viol++;
    for (int i = 0; i < nsig; i++) if (!strcmp(sigs[i], sig)) { sigcnt[i]++; return; }
    if (nsig < MAXSIG) { strcpy(sigs[nsig], sig); strncpy(sigcase[nsig], cs, 63); sigcnt[nsig] = 1; nsig++; }
}
static int verbose, only_entry = -1; static long only_dmax = -1;
/* C11_PROP=C01: the same enumeration used as a memory-safety sweep (only stores beyond dmax are judged) */
static const char *ENT[] = { "sprintf_s", "snprintf_s", "fprintf_s", "printf_s", "vsprintf_s", "vsnprintf_s", "vfprintf_s", "vprintf_s" };

/* float comparison: same layout class and value within one unit of the last printed digit */
static int float_ok(const char *lib, const char *ref, long double arg) {
    if (!strcmp(lib, ref)) return 1;
    if (strlen(lib) != strlen(ref)) { /* layout: same length only demanded when padded to a width; digits must match in count */ }
    /* structure: positions of '.', 'e'/'E', sign, must agree */
    const char *le = strpbrk(lib, "eEpP"), *re = strpbrk(ref, "eEpP");
    if ((le == NULL) != (re == NULL)) return 0;
    const char *ld = strchr(lib, '.'), *rd = strchr(ref, '.');
    if ((ld == NULL) != (rd == NULL)) return 0;
    /* digits after the point */
    if (ld && rd) { int a = 0, b = 0; for (const char *p = ld + 1; *p >= '0' && *p <= '9'; p++) a++; for (const char *p = rd + 1; *p >= '0' && *p <= '9'; p++) b++; if (a != b) return 0; }
    if (strlen(lib) != strlen(ref)) return 0;
    if (isnan((double)arg) || isinf(arg)) return 0;    /* text must be identical for these */
    if (lib[0] != '[' || ref[0] != '[') return 0;   /* every directive is wrapped in brackets */
    char *e1, *e2; long double x = strtold(lib + 1, &e1), y = strtold(ref + 1, &e2);
    if (e1 == lib + 1 || e2 == ref + 1) return 0;
    if (strcmp(e1, e2)) return 0;                                /* trailing padding must agree */
    /* one unit of the last printed digit, from the reference text */
    int digits_after = 0; if (rd) for (const char *p = rd + 1; *p >= '0' && *p <= '9'; p++) digits_after++;
    long double unit = powl(10.0L, -digits_after);
    if (re) unit *= powl(10.0L, strtol(re + 1, NULL, 10));
    long double diff = fabsl(x - arg);
    (void)y;
    if (diff <= unit * 1.0000001L) { n_float_tol++; return 1; }
    return 0;
}

static const char *valcls(int type, Val v, char *b) {
    if (type == T_DBL || type == T_LDBL) { long double x = type == T_DBL ? v.d : v.ld; sprintf(b, "%s", isnan((double)x) ? "nan" : isinf(x) ? "inf" : isinf((double)x) ? "finite-beyond-double" : x == 0 ? "zero" : fabsl(x) > 1e9L ? "abs>1e9" : fabsl(x) < 2.3e-308L ? "denormal" : fabsl(x) < 1e-4L ? "tiny" : "ordinary"); }
    else if (type == T_STR || type == T_WSTR) sprintf(b, "str");
    else if (type >= T_UINT && type <= T_UIMAX) sprintf(b, "%s", v.u == 0 ? "zero" : "pos");
    else sprintf(b, "%s", v.i == 0 ? "zero" : v.i < 0 ? "neg" : "pos");
    return b;
}

/* one directive with its value; isfloat selects the tolerant comparison */
static void one(const char *fmt, int type, Val v, int ns, int s1, int s2, int isfloat, const char *cls, int vi, int tier) {
    char ref[700]; int n = call_ref(ref, sizeof ref, fmt, type, v, ns, s1, s2);
    if (n >= (int)sizeof ref - 1) return;
    if (n < 0) {       /* printf itself fails on this argument (a wide character or string that cannot be converted): the library must fail too, not print something else */
        if (strcmp(g_prop, "C11") && strcmp(g_prop, "C05")) return;
        for (int entry = 0; entry < NENT; entry++) {
            if (only_entry >= 0 && entry != only_entry) continue;
            char cs[200]; snprintf(cs, sizeof cs, "%d %d %d %d %d %d %s", type, vi, s1, s2, 64, entry, fmt);
            char dest[800]; memset(dest, 0x55, sizeof dest); FILE *fp = NULL; if (IS_STREAM(entry) && !IS_STDOUT(entry)) { fp = sfp; clearerr(fp); }
            int r = 0, crashed = 0; h_n = 0; n_calls++;
            if (sigsetjmp(jb, 1) == 0) { armed = 1; r = call_lib(entry, dest, 64, fp, fmt, type, v, ns, s1, s2); armed = 0; } else crashed = 1;
            if (fp) { fflush(fp); fseek(fp, 0, SEEK_SET); if (ftruncate(sf_fd, 0)) {} }
            if (IS_STDOUT(entry)) { fflush(stdout); if (ftruncate(so_fd, 0)) {} lseek(so_fd, 0, SEEK_SET); }
            if (verbose) printf("entry %s: ret=%d handler=%d crashed=%d   libc: fails (n=%d)\n", ENT[entry], r, h_n, crashed, n);
            if (crashed) { report(ENT[entry], "crash", cls, cs); return; }
            if (!strcmp(g_prop, "C05")) { char w[48]; if (r < 0 && h_n != 1) { snprintf(w, sizeof w, "handler-invoked-%dx", h_n); report(ENT[entry], w, cls, cs); } continue; }
            if (r >= 0) report(ENT[entry], "success-where-printf-fails", cls, cs);
        }
        return;
    }
    n_formats++;
    size_t dms[8] = { 1, n > 1 ? n - 1 : 1, n ? n : 1, n + 1, n > 3 ? n / 2 : 1, n > 2 ? n - 2 : 1, n > 4 ? n - 4 : 1, 256 }; int ndm = tier ? 8 : 7;
    char vb[32], cs[200];
    for (int entry = 0; entry < NENT; entry++) for (int di = 0; di < (IS_STREAM(entry) ? 1 : ndm); di++) {
        size_t dmax = IS_STREAM(entry) ? 0 : dms[di];
        if (only_entry >= 0 && (entry != only_entry || (long)dmax != only_dmax)) continue;
        int dup = 0; for (int k = 0; k < di; k++) if (dms[k] == dmax) dup = 1; if (dup && !IS_STREAM(entry)) continue;
        snprintf(cs, sizeof cs, "%d %d %d %d %zu %d %s", type, vi, s1, s2, dmax, entry, fmt);
        char out2[2][700]; int rr[2]; int done2 = 0;
        for (int hist = 0; hist < 2; hist++) {
            /* history: a neutral call, or a call through the long-double / hex-float path, precedes the case */
            char pre[64]; if (hist == 0) f_sprintf(pre, sizeof pre, BOSU, "%d", 1); else f_sprintf(pre, sizeof pre, BOSU, "%Lf|%a", (long double)3.25, 1.0);
            char dest[800]; memset(dest, 0x55, sizeof dest); char *mem = NULL; size_t ml = 0; FILE *fp = NULL;
            if (IS_STREAM(entry) && !IS_STDOUT(entry)) fp = sfp;   /* a descriptor-backed stream: vfprintf_s rejects streams without one */
            if (fp && hist == 1) { if (fgetc(fp) == EOF) {} }      /* second history for streams: an earlier failed read left the (sticky) error indicator set; C's fprintf does not look at it */
            else if (fp) clearerr(fp);
            int r = 0, crashed = 0; h_n = 0; n_calls++;
            if (sigsetjmp(jb, 1) == 0) { armed = 1; r = call_lib(entry, dest, dmax, fp, fmt, type, v, ns, s1, s2); armed = 0; } else crashed = 1;
            if (fp) { fflush(fp); ssize_t c = pread(sf_fd, dest, 699, 0); if (c < 0) c = 0; dest[c] = 0; fseek(fp, 0, SEEK_SET); if (ftruncate(sf_fd, 0)) {} (void)mem; (void)ml; }
            if (IS_STDOUT(entry)) { fflush(stdout); ssize_t c = pread(so_fd, dest, 699, 0); if (c < 0) c = 0; dest[c] = 0; if (ftruncate(so_fd, 0)) {} lseek(so_fd, 0, SEEK_SET); }
            rr[hist] = r; memcpy(out2[hist], dest, 700); out2[hist][699] = 0;
            if (verbose) printf("entry %s dmax=%zu hist=%d: ret=%d handler=%d crashed=%d out=\"%.80s\"   libc: n=%d \"%.80s\"\n", ENT[entry], dmax, hist, r, h_n, crashed, r >= 0 || IS_STREAM(entry) ? dest : "(cleared)", n, ref);
            if (crashed) { report(ENT[entry], "crash", cls, cs); return; }
            if (!IS_STREAM(entry)) { int over = 0; for (size_t k = dmax; k < dmax + 200 && k < sizeof dest; k++) if ((unsigned char)dest[k] != 0x55) over = 1;
                if (over) { report(ENT[entry], "write-beyond-dmax", cls, cs); break; } }
            if (!strcmp(g_prop, "C05")) {      /* reporting sweep: a failing call reports exactly once, a succeeding one not at all */
                char w[48];
                if (r < 0 && h_n != 1) { snprintf(w, sizeof w, "handler-invoked-%dx", h_n); report(ENT[entry], w, cls, cs); }
                else if (r >= 0 && h_n) { snprintf(w, sizeof w, "handler-but-success"); report(ENT[entry], w, cls, cs); }
                if (hist == 1 || !fp) break;      /* a stream is tried again with its error indicator left set by an earlier, unrelated failure */
                continue;
            }
            if (strcmp(g_prop, "C11")) break;            /* memory-safety sweep: nothing else is judged */
            if (hist == 1) { done2 = 1; break; }
            int fits = IS_STREAM(entry) || (size_t)n < dmax;
            if (fits) {
                if (r < 0) { report(ENT[entry], "fails-although-it-fits", cls, cs); break; }
                if (r != n) { report(ENT[entry], "wrong-return-count", cls, cs); break; }
                int same = isfloat ? float_ok(dest, ref, type == T_DBL ? (long double)v.d : v.ld) : !strcmp(dest, ref);
                if (!same) { report(ENT[entry], isfloat ? "float-rendering-differs" : "text-differs-from-printf", cls, cs); break; }
            } else {
                if (!IS_TRUNC(entry) && r >= 0) { report(ENT[entry], "success-although-it-does-not-fit", cls, cs); break; }
                if (IS_TRUNC(entry) && r >= 0) {   /* truncating variant: would-be length and a terminated prefix */
                    if (memchr(dest, 0, dmax) == NULL) { report(ENT[entry], "truncated-result-unterminated", cls, cs); break; }
                    if (!isfloat && strncmp(dest, ref, strlen(dest))) { report(ENT[entry], "truncated-text-differs-from-printf", cls, cs); break; }
                }
            }
        }
        if (done2 && (rr[0] != rr[1] || strcmp(out2[0], out2[1]))) { if (rr[0] >= 0 || rr[1] >= 0) report(ENT[entry], "output-depends-on-earlier-call", cls, cs); }
    }
    (void)vb;
}

/* output far longer than any buffer bound (the stream entry points have none): text and count as C's fprintf */
static void long_pass(int only) {
    static char big1[5001], big2[3001], ref[12000], got[12000]; memset(big1, 'k', 5000); memset(big2, 'm', 3000);
    static char s100[101]; memset(s100, 'q', 100);
    for (int ci = 0; ci < 6; ci++) { if (only >= 0 && ci != only) continue;
        for (int e = 0; e < 4; e++) { int entry = e == 0 ? 2 : e == 1 ? 3 : e == 2 ? 6 : 7; int n = 0, r = 0, crashed = 0; const char *fmt = "";
            char cs[120]; snprintf(cs, sizeof cs, "long %d", ci);
            FILE *fp = IS_STDOUT(entry) ? NULL : sfp; if (fp) clearerr(fp);
            h_n = 0; n_calls++;
#define LC(F, ...) do { fmt = F; n = snprintf(ref, sizeof ref, F, __VA_ARGS__); if (sigsetjmp(jb, 1) == 0) { armed = 1; r = entry == 2 ? f_fprintf(fp, F, __VA_ARGS__) : entry == 3 ? f_printf(F, __VA_ARGS__) : entry == 6 ? w_vfprintf(fp, F, __VA_ARGS__) : w_vprintf(F, __VA_ARGS__); armed = 0; } else crashed = 1; } while (0)
            switch (ci) {
            case 0: LC("%s|", big1); break; case 1: LC("%s%s|", big2, big2); break; case 2: LC("%4090d:%s|", 7, s100); break;
            case 3: LC("%5000d|", 7); break; case 4: LC("%4500d %.80Lf|%d", 7, (long double)2.5, 3); break; case 5: LC("%4096d%s|%ls", 7, "ab", L"cd"); break; }
            ssize_t c = 0;
            if (fp) { fflush(fp); c = pread(sf_fd, got, sizeof got - 1, 0); fseek(fp, 0, SEEK_SET); if (ftruncate(sf_fd, 0)) {} }
            else { fflush(stdout); c = pread(so_fd, got, sizeof got - 1, 0); if (ftruncate(so_fd, 0)) {} lseek(so_fd, 0, SEEK_SET); }
            if (c < 0) c = 0; got[c] = 0;
            if (verbose) printf("entry %s format \"%s\": ret=%d (printf: %d) handler=%d crashed=%d, %zd characters arrived\n", ENT[entry], fmt, r, n, h_n, crashed, c);
            if (crashed) { report(ENT[entry], "crash", "output-longer-than-4096", cs); continue; }
            if (strcmp(g_prop, "C11")) { if (!strcmp(g_prop, "C05") && ((r < 0) != (h_n == 1) || h_n > 1)) report(ENT[entry], "handler-count-and-result-disagree", "output-longer-than-4096", cs); continue; }
            if (r < 0) { report(ENT[entry], "fails-although-it-fits", "output-longer-than-4096", cs); continue; }
            if (r != n) { report(ENT[entry], "wrong-return-count", "output-longer-than-4096", cs); continue; }
            if (c != n || memcmp(got, ref, n)) report(ENT[entry], "text-differs-from-printf", "output-longer-than-4096", cs);
        } }
}

int main(int argc, char **argv) {
    setlocale(LC_ALL, "C.UTF-8"); g_prop = getenv("C11_PROP") ? getenv("C11_PROP") : "C11";
    res = fdopen(dup(1), "w"); so_fd = memfd_create("stdout", 0); if (!res || so_fd < 0 || dup2(so_fd, 1) < 0) return 2;
    setvbuf(res, NULL, _IOLBF, 0);
    sf_fd = memfd_create("stream", 0); sfp = fdopen(sf_fd, "w"); if (!sfp) return 2;
    void *L = dlopen(getenv("CAT_LIB"), RTLD_NOW | RTLD_GLOBAL);
    if (!L) { fprintf(stderr, "cannot load CAT_LIB\n"); return 2; }
    f_sprintf = (spf)dlsym(L, "_sprintf_s_chk"); f_snprintf = (spf)dlsym(L, "_snprintf_s_chk"); f_fprintf = (fpf)dlsym(L, "fprintf_s"); f_printf = (ppf)dlsym(L, "printf_s");
    f_vsprintf = dlsym(L, "_vsprintf_s_chk"); f_vsnprintf = dlsym(L, "_vsnprintf_s_chk"); f_vfprintf = dlsym(L, "vfprintf_s"); f_vprintf = dlsym(L, "vprintf_s");
    void *(*ss)(void *) = dlsym(L, "set_str_constraint_handler_s");
    if (!f_sprintf || !f_snprintf || !f_fprintf || !ss || !f_printf || !f_vsprintf || !f_vsnprintf || !f_vfprintf || !f_vprintf) { fprintf(stderr, "missing symbols\n"); return 2; }
    ss((void *)handler);
    struct sigaction sa; memset(&sa, 0, sizeof sa); sa.sa_handler = on_sig; sa.sa_flags = SA_NODEFER; sigaction(SIGSEGV, &sa, NULL); sigaction(SIGABRT, &sa, NULL); sigaction(SIGFPE, &sa, NULL);
    if (argc >= 4 && !strcmp(argv[1], "replay") && !strcmp(argv[2], "long")) { verbose = 1; long_pass(atoi(argv[3])); if (nsig) { printf("VERDICT violation %s\n", sigs[0]); return 1; } printf("VERDICT ok\n"); return 0; }
    if (argc >= 9 && !strcmp(argv[1], "replay")) {
        verbose = 1; const char *fmt = argv[8]; int type = atoi(argv[2]), vi = atoi(argv[3]), s1 = atoi(argv[4]), s2 = atoi(argv[5]); only_dmax = atol(argv[6]); only_entry = atoi(argv[7]);
        Val v; memset(&v, 0, sizeof v);
        if (type >= T_INT && type <= T_PTRDIFF) v.i = IV[vi]; else if (type >= T_UINT && type <= T_UIMAX) v.u = UV[vi]; else if (type == T_DBL) v.d = DV[vi]; else if (type == T_LDBL) v.ld = LDVAL(vi);
        else if (type == T_STR) v.s = SV[vi]; else if (type == T_WSTR) v.w = WV[vi]; else if (type == T_WINT) v.i = WCV[vi]; else if (type == T_CHAR) v.i = CV[vi];
        if (type == T_MULTI) { int ix[4], k = parse_multi(fmt, ix); char f2[128]; if (k < 0 || build_multi(ix, k, vi, f2) || strcmp(f2, fmt)) { fprintf(stderr, "cannot rebuild the arguments of %s\n", fmt); return 2; } }
        int ns = 0; for (const char *p = fmt; *p; p++) if (*p == '*') ns++;
        if (type == T_MULTI) ns = 0;
        int isf = strpbrk(fmt, "fFeEgGaA") != NULL && type >= T_DBL && type <= T_LDBL;
        one(fmt, type, v, ns, s1, s2, isf, "replay", vi, 1);
        if (nsig) { printf("VERDICT violation %s\n", sigs[0]); return 1; }
        printf("VERDICT ok\n"); return 0;
    }
    if (argc < 5) return 2;
    const char *group = argv[1]; int tier = !strcmp(argv[2], "thorough"); long shard = atol(argv[3]), nsh = atol(argv[4]); long idx = 0;
    if (shard == 0 && !strcmp(group, "str")) long_pass(-1);
    /* width / precision menus: the quick tier takes the representatives, the thorough tier every value around the digit-buffer sizes */
    static char WIDB[40][8], PREB[40][8]; const char *WID[40], *PRE[40]; int NW = 0, NP = 0, WSTAR, PSTAR;
    { static const int qw[] = { 1, 5, 12, 40, 64 }, qp[] = { 0, 1, 5, 12, 40 };
      static const int tw[] = { 1, 2, 3, 4, 5, 6, 7, 8, 9, 10, 11, 12, 13, 16, 17, 20, 31, 32, 33, 34, 40, 64, 100 }, tp[] = { 0, 1, 2, 3, 4, 5, 6, 7, 8, 9, 10, 11, 12, 15, 16, 17, 18, 20, 31, 32, 33, 40, 64 };
      WID[NW++] = ""; for (int i = 0; i < (tier ? 23 : 5); i++) { sprintf(WIDB[NW], "%d", tier ? tw[i] : qw[i]); WID[NW] = WIDB[NW]; NW++; } WSTAR = NW; WID[NW++] = "*";
      PRE[NP++] = ""; PRE[NP++] = ".";      /* a lone period is precision 0 */ for (int i = 0; i < (tier ? 23 : 5); i++) { sprintf(PREB[NP], ".%d", tier ? tp[i] : qp[i]); PRE[NP] = PREB[NP]; NP++; } PSTAR = NP; PRE[NP++] = ".*"; }
#define WCLS(wi) ((wi) == 0 ? "none" : (wi) == WSTAR ? "*" : atoi(WID[wi]) > 32 ? "33+" : "1-32")
#define PCLS(pi) ((pi) == 0 ? "none" : (pi) == PSTAR ? ".*" : atoi(PRE[pi] + 1) == 0 ? ".0" : atoi(PRE[pi] + 1) <= 7 ? ".1-7" : atoi(PRE[pi] + 1) == 8 ? ".8" : atoi(PRE[pi] + 1) == 9 ? ".9" : ".10+")
    static const char *ILEN[] = { "", "hh", "h", "l", "ll", "z", "j", "t" };
    static const int ITYP[] = { T_INT, T_INT, T_INT, T_LONG, T_LLONG, T_SSIZE, T_IMAX, T_PTRDIFF }, UTYP[] = { T_UINT, T_UINT, T_UINT, T_ULONG, T_ULLONG, T_SIZE, T_UIMAX, T_SIZE };
    char fmt[128], cls[160], fl[8];
    for (int fm = 0; fm < 32; fm++) {
        int k = 0; if (fm & 1) fl[k++] = '-'; if (fm & 2) fl[k++] = '+'; if (fm & 4) fl[k++] = ' '; if (fm & 8) fl[k++] = '#'; if (fm & 16) fl[k++] = '0'; fl[k] = 0;
        for (int wi = 0; wi < NW; wi++) for (int pi = 0; pi < NP; pi++) {
            int ns = (wi == WSTAR) + (pi == PSTAR);
            int s1 = wi == WSTAR ? 7 : 3, s2 = 3;
            for (int neg = 0; neg < ((wi == WSTAR || pi == PSTAR) ? 2 : 1); neg++) {     /* '*' with a negative value too */
                int a1 = s1, a2 = s2; if (neg) { if (wi == WSTAR) a1 = -7; if (pi == PSTAR) { if (wi == WSTAR) a2 = -1; else a1 = -1; } }
                if (!strcmp(group, "int") || !strcmp(group, "all")) {
                    for (int ci = 0; ci < 6; ci++) { char cv = "diuxXo"[ci]; int uns = ci >= 2;
                        if ((fm & 8) && ci < 3) continue;                                  /* '#' is undefined for d i u */
                        if (uns && (fm & 6)) continue;                                     /* '+' / ' ' are undefined for unsigned conversions */
                        for (int li = 0; li < 8; li++) {
                            if ((idx++ % nsh) != shard) continue;
                            snprintf(fmt, sizeof fmt, "[%%%s%s%s%s%c]", fl, WID[wi], PRE[pi], ILEN[li], cv);
                            int nv = uns ? 8 : 14;
                            for (int vi = 0; vi < nv; vi++) { Val v; memset(&v, 0, sizeof v);
                                if (uns) { v.u = UV[vi]; if (li <= 2) v.u &= 0xffffffffULL; }        /* hh/h/none: an unsigned int travels, the library narrows it */
                                else { v.i = IV[vi]; if (li <= 2) v.i = (int)v.i; }
                                char vb[32]; snprintf(cls, sizeof cls, "%c,flags=%s,width=%s,prec=%s,len=%s,%s%s", cv, fl[0] ? fl : "none", WID[wi][0] ? WID[wi] : "none", PRE[pi][0] ? PRE[pi] : "none", ILEN[li][0] ? ILEN[li] : "none", valcls(uns ? UTYP[li] : ITYP[li], v, vb), neg ? ",negative-star" : "");
                                one(fmt, uns ? UTYP[li] : ITYP[li], v, ns, a1, a2, 0, cls, vi, tier);
                            }
                        }
                    }
                }
                if (!strcmp(group, "float") || !strcmp(group, "all")) {
                    for (int ci = 0; ci < 6; ci++) { char cv = "fFeEgG"[ci];
                        for (int li = 0; li < 2; li++) {
                            if ((idx++ % nsh) != shard) continue;
                            snprintf(fmt, sizeof fmt, "[%%%s%s%s%s%c]", fl, WID[wi], PRE[pi], li ? "L" : "", cv);
                            for (int vi = 0; vi < NDV + (li ? 5 : 0); vi++) { Val v; memset(&v, 0, sizeof v); if (li) v.ld = LDVAL(vi); else v.d = DV[vi];
                                char vb[32]; snprintf(cls, sizeof cls, "%c,flags=%s,width=%s,prec=%s,len=%s,%s%s", cv | 0x20, fl[0] ? fl : "none", WCLS(wi), PCLS(pi), li ? "L" : "none", valcls(li ? T_LDBL : T_DBL, v, vb), neg ? ",negative-star" : "");
                                one(fmt, li ? T_LDBL : T_DBL, v, ns, a1, a2, 1, cls, vi, tier);
                            }
                        }
                    }
                }
                if ((!strcmp(group, "str") || !strcmp(group, "all")) && !(fm & (2 | 4 | 8 | 16))) {    /* only '-' is defined for c s */
                    if ((idx++ % nsh) != shard) continue;
                    for (int vi = 0; vi < (strcmp(g_prop, "C11") ? 5 : 4); vi++) { Val v; v.s = SV[vi]; snprintf(fmt, sizeof fmt, "[%%%s%s%ss]", fl, WID[wi], PRE[pi]);
                        snprintf(cls, sizeof cls, "s,flags=%s,width=%s,prec=%s%s%s", fl[0] ? fl : "none", WID[wi][0] ? WID[wi] : "none", PRE[pi][0] ? PRE[pi] : "none", neg ? ",negative-star" : "", vi == 4 ? ",null-argument" : ""); one(fmt, T_STR, v, ns, a1, a2, 0, cls, vi, tier); }
                    for (int vi = 0; vi < 4; vi++) { Val v; v.w = WV[vi]; snprintf(fmt, sizeof fmt, "[%%%s%s%sls]", fl, WID[wi], PRE[pi]);
                        snprintf(cls, sizeof cls, "ls,flags=%s,width=%s,prec=%s%s", fl[0] ? fl : "none", WID[wi][0] ? WID[wi] : "none", PRE[pi][0] ? PRE[pi] : "none", neg ? ",negative-star" : ""); one(fmt, T_WSTR, v, ns, a1, a2, 0, cls, vi, tier); }
                    if (pi == 0) {
                        for (int vi = 0; vi < 3; vi++) { Val v; v.i = CV[vi]; snprintf(fmt, sizeof fmt, "[%%%s%sc]", fl, WID[wi]); snprintf(cls, sizeof cls, "c,flags=%s,width=%s", fl[0] ? fl : "none", WID[wi][0] ? WID[wi] : "none"); one(fmt, T_CHAR, v, wi == WSTAR, a1, 0, 0, cls, vi, tier); }
                        for (int vi = 0; vi < 6; vi++) { Val v; v.i = WCV[vi]; snprintf(fmt, sizeof fmt, "[%%%s%slc]", fl, WID[wi]); snprintf(cls, sizeof cls, "lc,flags=%s,width=%s", fl[0] ? fl : "none", WID[wi][0] ? WID[wi] : "none"); one(fmt, T_WINT, v, wi == WSTAR, a1, 0, 0, cls, vi, tier); }
                    }
                }
            }
        }
    }
    if ((!strcmp(group, "str") || !strcmp(group, "all")) && shard == 0) { Val v; memset(&v, 0, sizeof v); one("100%% sure", T_NONE, v, 0, 0, 0, 0, "percent", 0, tier); one("%%%%", T_NONE, v, 0, 0, 0, 0, "percent", 0, tier); }
    /* formats of 2..K directives from the menu, two argument variants each (quick K=2, thorough K=4) */
    if (!strcmp(group, "multi") || !strcmp(group, "all")) {
        int K = tier ? 4 : 2; Val v; memset(&v, 0, sizeof v);
        for (int k = 2; k <= K; k++) { long total = 1; for (int i = 0; i < k; i++) total *= NMENU;
            for (long c = 0; c < total; c++) { if ((idx++ % nsh) != shard) continue;
                int ix[4]; long t = c; for (int i = 0; i < k; i++) { ix[i] = t % NMENU; t /= NMENU; }
                for (int variant = 0; variant < 2; variant++) { if (build_multi(ix, k, variant, fmt)) continue;
                    snprintf(cls, sizeof cls, "multi,%s", fmt); one(fmt, T_MULTI, v, 0, 0, 0, 0, cls, variant, tier); } } }
    }
    for (int i = 0; i < nsig; i++) printf("{\"t\":\"viol\",\"sig\":\"%s\",\"n\":%ld,\"case\":\"%s\"}\n", sigs[i], sigcnt[i], sigcase[i]);
    printf("{\"t\":\"stat\",\"group\":\"%s\",\"formats_with_values\":%ld,\"calls\":%ld,\"float_within_tolerance\":%ld,\"violating\":%ld,\"signatures\":%d}\n", group, n_formats, n_calls, n_float_tol, n_viol, nsig);
    return 0;
}
