/* c11.c - C11 formatted output matches C printf for the documented conversions, or fails.
 * Directive grammar: flags x width x precision x length x conversion, each with the value table of its
 * type, x dmax in {1, need-1, need, need+1, 256}; reference = libc snprintf with the same arguments.
 * Integer/char/string conversions byte-exact; floating conversions same layout and value within one unit
 * of the last printed digit. Stream variants must emit the same bytes. Each case is executed after a
 * neutral call and after a call through the long-double/hex-float path: outputs must be identical.
 * usage: c11 <group> <tier> <shard> <nshards> | c11 replay <type> <valueidx> <star1> <star2> <dmax> <entry> "<fmt>"   env CAT_LIB */
#define _GNU_SOURCE
#include <stdio.h>
#include <stdlib.h>
#include <string.h>
#include <stdarg.h>
#include <stdint.h>
#include <stddef.h>
#include <limits.h>
#include <float.h>
#include <math.h>
#include <wchar.h>
#include <locale.h>
#include <signal.h>
#include <setjmp.h>
#include <dlfcn.h>
#include <sys/types.h>

#define BOSU ((size_t)-1)
typedef int (*spf)(char *, size_t, size_t, const char *, ...);
typedef int (*fpf)(FILE *, const char *, ...);
static spf f_sprintf, f_snprintf; static fpf f_fprintf;
static int h_n; static void handler(const char *m, void *p, int e) { (void)m; (void)p; (void)e; h_n++; }
static sigjmp_buf jb; static volatile int armed;
static void on_sig(int s) { (void)s; if (!armed) _exit(3); armed = 0; siglongjmp(jb, 1); }

enum { T_NONE, T_INT, T_LONG, T_LLONG, T_SSIZE, T_IMAX, T_PTRDIFF, T_UINT, T_ULONG, T_ULLONG, T_SIZE, T_UIMAX, T_DBL, T_LDBL, T_STR, T_WSTR, T_WINT, T_CHAR };
typedef union { long long i; unsigned long long u; double d; long double ld; const char *s; const wchar_t *w; } Val;

/* value tables */
static const long long IV[] = { 0, 1, -1, 42, -42, 0x7fffffffLL, -0x80000000LL, 0x7fffffffffffffffLL, (-0x7fffffffffffffffLL - 1) };
static const unsigned long long UV[] = { 0, 1, 255, 0xffffffffULL, 0xffffffffffffffffULL, 0x8000 };
static const double DV[] = { 0.0, -0.0, 0.5, 1.5, 2.5, 999999999.5, 1e9, 1000000001.0, 1e300, 4.9406564584124654e-324, INFINITY, -INFINITY, NAN, 123.456, -0.001, 9.9999, 0.000123456, 1e-5, 12345678.9 };
static const char *SV[] = { "", "abc", "a string of exactly forty characters !!!", "h\xc3\xa9llo" };
static const wchar_t *WV[] = { L"", L"wide", L"\xe9\x20ac" };
static const wint_t WCV[] = { L'A', 0xe9 };
static const int CV[] = { 'A', '%', 0x7f };

static int call_lib(int entry, char *d, size_t dmax, FILE *fp, const char *fmt, int type, Val v, int ns, int s1, int s2) {
#define ARGS(X) (ns == 0 ? CALL1(X) : ns == 1 ? CALL2(s1, X) : CALL3(s1, s2, X))
#define CALL1(X) (entry == 0 ? f_sprintf(d, dmax, BOSU, fmt, X) : entry == 1 ? f_snprintf(d, dmax, BOSU, fmt, X) : f_fprintf(fp, fmt, X))
#define CALL2(A, X) (entry == 0 ? f_sprintf(d, dmax, BOSU, fmt, A, X) : entry == 1 ? f_snprintf(d, dmax, BOSU, fmt, A, X) : f_fprintf(fp, fmt, A, X))
#define CALL3(A, B, X) (entry == 0 ? f_sprintf(d, dmax, BOSU, fmt, A, B, X) : entry == 1 ? f_snprintf(d, dmax, BOSU, fmt, A, B, X) : f_fprintf(fp, fmt, A, B, X))
    switch (type) {
    case T_NONE: return ARGS(0);
    case T_INT: case T_CHAR: return ARGS((int)v.i); case T_LONG: return ARGS((long)v.i); case T_LLONG: return ARGS((long long)v.i);
    case T_SSIZE: return ARGS((ssize_t)v.i); case T_IMAX: return ARGS((intmax_t)v.i); case T_PTRDIFF: return ARGS((ptrdiff_t)v.i);
    case T_UINT: return ARGS((unsigned)v.u); case T_ULONG: return ARGS((unsigned long)v.u); case T_ULLONG: return ARGS((unsigned long long)v.u);
    case T_SIZE: return ARGS((size_t)v.u); case T_UIMAX: return ARGS((uintmax_t)v.u);
    case T_DBL: return ARGS(v.d); case T_LDBL: return ARGS(v.ld); case T_STR: return ARGS(v.s); case T_WSTR: return ARGS(v.w); case T_WINT: return ARGS((wint_t)v.i);
    }
    return 0;
}
static int call_ref(char *d, size_t n, const char *fmt, int type, Val v, int ns, int s1, int s2) {
#define R1(X) (ns == 0 ? snprintf(d, n, fmt, X) : ns == 1 ? snprintf(d, n, fmt, s1, X) : snprintf(d, n, fmt, s1, s2, X))
    switch (type) {
    case T_NONE: return R1(0);
    case T_INT: case T_CHAR: return R1((int)v.i); case T_LONG: return R1((long)v.i); case T_LLONG: return R1((long long)v.i);
    case T_SSIZE: return R1((ssize_t)v.i); case T_IMAX: return R1((intmax_t)v.i); case T_PTRDIFF: return R1((ptrdiff_t)v.i);
    case T_UINT: return R1((unsigned)v.u); case T_ULONG: return R1((unsigned long)v.u); case T_ULLONG: return R1((unsigned long long)v.u);
    case T_SIZE: return R1((size_t)v.u); case T_UIMAX: return R1((uintmax_t)v.u);
    case T_DBL: return R1(v.d); case T_LDBL: return R1(v.ld); case T_STR: return R1(v.s); case T_WSTR: return R1(v.w); case T_WINT: return R1((wint_t)v.i);
    }
    return 0;
}

#define MAXSIG 16384
static char sigs[MAXSIG][160], sigcase[MAXSIG][64]; static long sigcnt[MAXSIG]; static int nsig; static long n_calls, n_viol, n_formats, n_float_tol;
static void report(const char *entry, const char *what, const char *cls, const char *cs) {
    char sig[160]; snprintf(sig, sizeof sig, "C11|%s|%s|%s", entry, what, cls); n_viol++;
    for (int i = 0; i < nsig; i++) if (!strcmp(sigs[i], sig)) { sigcnt[i]++; return; }
    if (nsig < MAXSIG) { strcpy(sigs[nsig], sig); strncpy(sigcase[nsig], cs, 63); sigcnt[nsig] = 1; nsig++; }
}
static int verbose, only_entry = -1; static long only_dmax = -1;
static const char *ENT[] = { "sprintf_s", "snprintf_s", "fprintf_s" };

/* float comparison: same layout class and value within one unit of the last printed digit */
static int float_ok(const char *lib, const char *ref, long double arg) {
    if (!strcmp(lib, ref)) return 1;
    if (strlen(lib) != strlen(ref)) { /* layout: same length only demanded when padded to a width; digits must match in count */ }
    /* structure: positions of '.', 'e'/'E', sign, must agree */
    const char *le = strpbrk(lib, "eEpP"), *re = strpbrk(ref, "eEpP");
    if ((le == NULL) != (re == NULL)) return 0;
    const char *ld = strchr(lib, '.'), *rd = strchr(ref, '.');
    if ((ld == NULL) != (rd == NULL)) return 0;
    /* digits after the point */
    if (ld && rd) { int a = 0, b = 0; for (const char *p = ld + 1; *p >= '0' && *p <= '9'; p++) a++; for (const char *p = rd + 1; *p >= '0' && *p <= '9'; p++) b++; if (a != b) return 0; }
    if (strlen(lib) != strlen(ref)) return 0;
    if (isnan((double)arg) || isinf((double)arg)) return 0;    /* text must be identical for these */
    char *e1, *e2; long double x = strtold(lib, &e1), y = strtold(ref, &e2);
    if (e1 == lib || e2 == ref) return 0;
    if (strcmp(e1, e2)) return 0;                                /* trailing padding must agree */
    /* one unit of the last printed digit, from the reference text */
    int digits_after = 0; if (rd) for (const char *p = rd + 1; *p >= '0' && *p <= '9'; p++) digits_after++;
    long double unit = powl(10.0L, -digits_after);
    if (re) unit *= powl(10.0L, strtol(re + 1, NULL, 10));
    long double diff = fabsl(x - arg);
    (void)y;
    if (diff <= unit * 1.0000001L) { n_float_tol++; return 1; }
    return 0;
}

static const char *valcls(int type, Val v, char *b) {
    if (type == T_DBL || type == T_LDBL) { long double x = type == T_DBL ? v.d : v.ld; sprintf(b, "%s", isnan((double)x) ? "nan" : isinf((double)x) ? "inf" : x == 0 ? "zero" : fabsl(x) > 1e9L ? "abs>1e9" : fabsl(x) < 2.3e-308L ? "denormal" : fabsl(x) < 1e-4L ? "tiny" : "ordinary"); }
    else if (type == T_STR || type == T_WSTR) sprintf(b, "str");
    else if (type >= T_UINT && type <= T_UIMAX) sprintf(b, "%s", v.u == 0 ? "zero" : "pos");
    else sprintf(b, "%s", v.i == 0 ? "zero" : v.i < 0 ? "neg" : "pos");
    return b;
}

/* one directive with its value; isfloat selects the tolerant comparison */
static void one(const char *fmt, int type, Val v, int ns, int s1, int s2, int isfloat, const char *cls, int vi, int tier) {
    char ref[700]; int n = call_ref(ref, sizeof ref, fmt, type, v, ns, s1, s2);
    if (n < 0 || n >= (int)sizeof ref - 1) return;
    n_formats++;
    size_t dms[5] = { 1, n > 1 ? n - 1 : 1, n ? n : 1, n + 1, 256 }; int ndm = tier ? 5 : 4;
    char vb[32], cs[200];
    for (int entry = 0; entry < 3; entry++) for (int di = 0; di < (entry == 2 ? 1 : ndm); di++) {
        size_t dmax = entry == 2 ? 0 : dms[di];
        if (only_entry >= 0 && (entry != only_entry || (long)dmax != only_dmax)) continue;
        int dup = 0; for (int k = 0; k < di; k++) if (dms[k] == dmax) dup = 1; if (dup && entry != 2) continue;
        snprintf(cs, sizeof cs, "%d %d %d %d %zu %d %s", type, vi, s1, s2, dmax, entry, fmt);
        char out2[2][700]; int rr[2]; int done2 = 0;
        for (int hist = 0; hist < 2; hist++) {
            /* history: a neutral call, or a call through the long-double / hex-float path, precedes the case */
            char pre[64]; if (hist == 0) f_sprintf(pre, sizeof pre, BOSU, "%d", 1); else f_sprintf(pre, sizeof pre, BOSU, "%Lf|%a", (long double)3.25, 1.0);
            char dest[800]; memset(dest, 0x55, sizeof dest); char *mem = NULL; size_t ml = 0; FILE *fp = NULL;
            if (entry == 2) fp = open_memstream(&mem, &ml);
            int r = 0, crashed = 0; h_n = 0; n_calls++;
            if (sigsetjmp(jb, 1) == 0) { armed = 1; r = call_lib(entry, dest, dmax, fp, fmt, type, v, ns, s1, s2); armed = 0; } else crashed = 1;
            if (fp) { fclose(fp); size_t c = ml < 699 ? ml : 699; memcpy(dest, mem, c); dest[c] = 0; free(mem); }
            rr[hist] = r; memcpy(out2[hist], dest, 700); out2[hist][699] = 0;
            if (verbose) printf("entry %s dmax=%zu hist=%d: ret=%d handler=%d crashed=%d out=\"%.80s\"   libc: n=%d \"%.80s\"\n", ENT[entry], dmax, hist, r, h_n, crashed, r >= 0 || entry == 2 ? dest : "(cleared)", n, ref);
            if (crashed) { report(ENT[entry], "crash", cls, cs); return; }
            if (hist == 1) { done2 = 1; break; }
            int fits = entry == 2 || (size_t)n < dmax;
            if (fits) {
                if (r < 0) { report(ENT[entry], "fails-although-it-fits", cls, cs); break; }
                if (r != n) { report(ENT[entry], "wrong-return-count", cls, cs); break; }
                int same = isfloat ? float_ok(dest, ref, type == T_DBL ? (long double)v.d : v.ld) : !strcmp(dest, ref);
                if (!same) { report(ENT[entry], isfloat ? "float-rendering-differs" : "text-differs-from-printf", cls, cs); break; }
            } else {
                if (entry == 0 && r >= 0) { report(ENT[entry], "success-although-it-does-not-fit", cls, cs); break; }
                if (entry == 1 && r >= 0) {   /* truncating variant: would-be length and a terminated prefix */
                    if (memchr(dest, 0, dmax) == NULL) { report(ENT[entry], "truncated-result-unterminated", cls, cs); break; }
                    if (!isfloat && strncmp(dest, ref, strlen(dest))) { report(ENT[entry], "truncated-text-differs-from-printf", cls, cs); break; }
                }
            }
        }
        if (done2 && (rr[0] != rr[1] || strcmp(out2[0], out2[1]))) { if (rr[0] >= 0 || rr[1] >= 0) report(ENT[entry], "output-depends-on-earlier-call", cls, cs); }
    }
    (void)vb;
}

int main(int argc, char **argv) {
    setvbuf(stdout, NULL, _IOLBF, 0); setlocale(LC_ALL, "C.UTF-8");
    void *L = dlopen(getenv("CAT_LIB"), RTLD_NOW | RTLD_GLOBAL);
    if (!L) { fprintf(stderr, "cannot load CAT_LIB\n"); return 2; }
    f_sprintf = (spf)dlsym(L, "_sprintf_s_chk"); f_snprintf = (spf)dlsym(L, "_snprintf_s_chk"); f_fprintf = (fpf)dlsym(L, "fprintf_s");
    void *(*ss)(void *) = dlsym(L, "set_str_constraint_handler_s");
    if (!f_sprintf || !f_snprintf || !f_fprintf || !ss) { fprintf(stderr, "missing symbols\n"); return 2; }
    ss((void *)handler);
    struct sigaction sa; memset(&sa, 0, sizeof sa); sa.sa_handler = on_sig; sa.sa_flags = SA_NODEFER; sigaction(SIGSEGV, &sa, NULL); sigaction(SIGABRT, &sa, NULL); sigaction(SIGFPE, &sa, NULL);
    if (argc >= 9 && !strcmp(argv[1], "replay")) {
        verbose = 1; const char *fmt = argv[8]; int type = atoi(argv[2]), vi = atoi(argv[3]), s1 = atoi(argv[4]), s2 = atoi(argv[5]); only_dmax = atol(argv[6]); only_entry = atoi(argv[7]);
        Val v; memset(&v, 0, sizeof v);
        if (type >= T_INT && type <= T_PTRDIFF) v.i = IV[vi]; else if (type >= T_UINT && type <= T_UIMAX) v.u = UV[vi]; else if (type == T_DBL) v.d = DV[vi]; else if (type == T_LDBL) v.ld = DV[vi];
        else if (type == T_STR) v.s = SV[vi]; else if (type == T_WSTR) v.w = WV[vi]; else if (type == T_WINT) v.i = WCV[vi]; else if (type == T_CHAR) v.i = CV[vi];
        int ns = 0; for (const char *p = fmt; *p; p++) if (*p == '*') ns++;
        int isf = strpbrk(fmt, "fFeEgGaA") != NULL && type >= T_DBL && type <= T_LDBL;
        one(fmt, type, v, ns, s1, s2, isf, "replay", vi, 1);
        if (nsig) { printf("VERDICT violation %s\n", sigs[0]); return 1; }
        printf("VERDICT ok\n"); return 0;
    }
    if (argc < 5) return 2;
    const char *group = argv[1]; int tier = !strcmp(argv[2], "thorough"); long shard = atol(argv[3]), nsh = atol(argv[4]); long idx = 0;
    static const char *WID[] = { "", "1", "5", "12", "40", "*" }; static const int WIDV[] = { 0, 0, 0, 0, 0, 7 };
    static const char *PRE[] = { "", ".0", ".1", ".5", ".12", ".40", ".*" }; static const int PREV[] = { 0, 0, 0, 0, 0, 0, 3 };
    static const char *ILEN[] = { "", "hh", "h", "l", "ll", "z", "j", "t" };
    static const int ITYP[] = { T_INT, T_INT, T_INT, T_LONG, T_LLONG, T_SSIZE, T_IMAX, T_PTRDIFF }, UTYP[] = { T_UINT, T_UINT, T_UINT, T_ULONG, T_ULLONG, T_SIZE, T_UIMAX, T_SIZE };
    char fmt[64], cls[120], fl[8];
    for (int fm = 0; fm < 32; fm++) {
        int k = 0; if (fm & 1) fl[k++] = '-'; if (fm & 2) fl[k++] = '+'; if (fm & 4) fl[k++] = ' '; if (fm & 8) fl[k++] = '#'; if (fm & 16) fl[k++] = '0'; fl[k] = 0;
        for (int wi = 0; wi < 6; wi++) for (int pi = 0; pi < 7; pi++) {
            int ns = (wi == 5) + (pi == 6);
            int s1 = wi == 5 ? WIDV[wi] : PREV[pi], s2 = PREV[pi];
            for (int neg = 0; neg < ((wi == 5 || pi == 6) ? 2 : 1); neg++) {     /* '*' with a negative value too */
                int a1 = s1, a2 = s2; if (neg) { if (wi == 5) a1 = -7; if (pi == 6) { if (wi == 5) a2 = -1; else a1 = -1; } }
                if (!strcmp(group, "int") || !strcmp(group, "all")) {
                    for (int ci = 0; ci < 6; ci++) { char cv = "diuxXo"[ci]; int uns = ci >= 2;
                        if ((fm & 8) && ci < 3) continue;                                  /* '#' is undefined for d i u */
                        if (uns && (fm & 6)) continue;                                     /* '+' / ' ' are undefined for unsigned conversions */
                        for (int li = 0; li < 8; li++) {
                            if ((idx++ % nsh) != shard) continue;
                            snprintf(fmt, sizeof fmt, "[%%%s%s%s%s%c]", fl, WID[wi], PRE[pi], ILEN[li], cv);
                            int nv = uns ? 6 : 9;
                            for (int vi = 0; vi < nv; vi++) { Val v; memset(&v, 0, sizeof v);
                                if (uns) { v.u = UV[vi]; if (li == 1) v.u &= 0xff; else if (li == 2) v.u &= 0xffff; else if (li == 0) v.u &= 0xffffffffULL; }
                                else { v.i = IV[vi]; if (li == 1) v.i = (signed char)v.i; else if (li == 2) v.i = (short)v.i; else if (li == 0) v.i = (int)v.i; }
                                char vb[32]; snprintf(cls, sizeof cls, "%c,flags=%s,width=%s,prec=%s,len=%s,%s%s", cv, fl[0] ? fl : "none", WID[wi][0] ? WID[wi] : "none", PRE[pi][0] ? PRE[pi] : "none", ILEN[li][0] ? ILEN[li] : "none", valcls(uns ? UTYP[li] : ITYP[li], v, vb), neg ? ",negative-star" : "");
                                one(fmt, uns ? UTYP[li] : ITYP[li], v, ns, a1, a2, 0, cls, vi, tier);
                            }
                        }
                    }
                }
                if (!strcmp(group, "float") || !strcmp(group, "all")) {
                    for (int ci = 0; ci < 6; ci++) { char cv = "fFeEgG"[ci];
                        for (int li = 0; li < 2; li++) {
                            if ((idx++ % nsh) != shard) continue;
                            snprintf(fmt, sizeof fmt, "[%%%s%s%s%s%c]", fl, WID[wi], PRE[pi], li ? "L" : "", cv);
                            for (int vi = 0; vi < 19; vi++) { Val v; memset(&v, 0, sizeof v); if (li) v.ld = DV[vi]; else v.d = DV[vi];
                                char vb[32]; snprintf(cls, sizeof cls, "%c,flags=%s,width=%s,prec=%s,len=%s,%s%s", cv | 0x20, fl[0] ? fl : "none", wi == 0 ? "none" : wi == 5 ? "*" : wi == 4 ? "33+" : "1-32", pi == 0 ? "none" : pi == 1 ? ".0" : pi == 6 ? ".*" : pi <= 3 ? ".1-9" : ".10+", li ? "L" : "none", valcls(li ? T_LDBL : T_DBL, v, vb), neg ? ",negative-star" : "");
                                one(fmt, li ? T_LDBL : T_DBL, v, ns, a1, a2, 1, cls, vi, tier);
                            }
                        }
                    }
                }
                if ((!strcmp(group, "str") || !strcmp(group, "all")) && !(fm & (2 | 4 | 8 | 16))) {    /* only '-' is defined for c s */
                    if ((idx++ % nsh) != shard) continue;
                    for (int vi = 0; vi < 4; vi++) { Val v; v.s = SV[vi]; snprintf(fmt, sizeof fmt, "[%%%s%s%ss]", fl, WID[wi], PRE[pi]);
                        snprintf(cls, sizeof cls, "s,flags=%s,width=%s,prec=%s%s", fl[0] ? fl : "none", WID[wi][0] ? WID[wi] : "none", PRE[pi][0] ? PRE[pi] : "none", neg ? ",negative-star" : ""); one(fmt, T_STR, v, ns, a1, a2, 0, cls, vi, tier); }
                    for (int vi = 0; vi < 3; vi++) { Val v; v.w = WV[vi]; snprintf(fmt, sizeof fmt, "[%%%s%s%sls]", fl, WID[wi], PRE[pi]);
                        snprintf(cls, sizeof cls, "ls,flags=%s,width=%s,prec=%s%s", fl[0] ? fl : "none", WID[wi][0] ? WID[wi] : "none", PRE[pi][0] ? PRE[pi] : "none", neg ? ",negative-star" : ""); one(fmt, T_WSTR, v, ns, a1, a2, 0, cls, vi, tier); }
                    if (pi == 0) {
                        for (int vi = 0; vi < 3; vi++) { Val v; v.i = CV[vi]; snprintf(fmt, sizeof fmt, "[%%%s%sc]", fl, WID[wi]); snprintf(cls, sizeof cls, "c,flags=%s,width=%s", fl[0] ? fl : "none", WID[wi][0] ? WID[wi] : "none"); one(fmt, T_CHAR, v, wi == 5, a1, 0, 0, cls, vi, tier); }
                        for (int vi = 0; vi < 2; vi++) { Val v; v.i = WCV[vi]; snprintf(fmt, sizeof fmt, "[%%%s%slc]", fl, WID[wi]); snprintf(cls, sizeof cls, "lc,flags=%s,width=%s", fl[0] ? fl : "none", WID[wi][0] ? WID[wi] : "none"); one(fmt, T_WINT, v, wi == 5, a1, 0, 0, cls, vi, tier); }
                    }
                }
            }
        }
    }
    if ((!strcmp(group, "str") || !strcmp(group, "all")) && shard == 0) { Val v; memset(&v, 0, sizeof v); one("100%% sure", T_NONE, v, 0, 0, 0, 0, "percent", 0, tier); one("%%%%", T_NONE, v, 0, 0, 0, 0, "percent", 0, tier); }
    /* pairs of directives with literal text between (thorough): integer + string, float + integer */
    if (tier && (!strcmp(group, "pairs") || !strcmp(group, "all")) && shard == 0) {
        static const char *A[] = { "%d", "%5d", "%-5d", "%x", "%05d", "%+d", "%.3d" }, *B[] = { "%s", "%5s", "%-5s", "%.2s" };
        for (int a = 0; a < 7; a++) for (int b = 0; b < 4; b++) for (int vi = 0; vi < 5; vi++) {
            /* two arguments: use the star slot for the int and the value slot for the string */
            snprintf(fmt, sizeof fmt, "%s, %s.", A[a], B[b]); Val v; v.s = SV[1];
            snprintf(cls, sizeof cls, "pair,%s,%s", A[a], B[b]); one(fmt, T_STR, v, 1, (int)IV[vi], 0, 0, cls, 1, tier);
        }
    }
    for (int i = 0; i < nsig; i++) printf("{\"t\":\"viol\",\"sig\":\"%s\",\"n\":%ld,\"case\":\"%s\"}\n", sigs[i], sigcnt[i], sigcase[i]);
    printf("{\"t\":\"stat\",\"group\":\"%s\",\"formats_with_values\":%ld,\"calls\":%ld,\"float_within_tolerance\":%ld,\"violating\":%ld,\"signatures\":%d}\n", group, n_formats, n_calls, n_float_tol, n_viol, nsig);
    return 0;
}
