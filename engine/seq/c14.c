/* c14.c - C14 tokenizing: every string over {a,b,',',';',0xA7} up to length N x dmax choices x delimiter
 * sets, the whole call history strtok_s(s..), strtok_s(NULL..), ... against a reference tokenizer after
 * every call; thorough: per-call delimiter choice (branching history, BFS de-duplicated on
 * (buffer bytes, *ptr offset, *dmaxp)).
 * usage: c14 <str|wcs> <N> <branch 0|1> <shard> <nshards> | c14 replay <str|wcs> <hexstring> <dmaxkind> <delimseq>
 * env CAT_LIB */
#define _GNU_SOURCE
#include <stdio.h>
#include <stdlib.h>
#include <string.h>
#include <signal.h>
#include <setjmp.h>
#include <sys/mman.h>
#include <dlfcn.h>
#include <errno.h>
#include <wchar.h>
#include <stdint.h>
#include <ucontext.h>

#define PG 4096UL
static int W = 1;                         /* element width */
typedef void *(*tokfn)(void *, size_t *, const void *, void **, size_t);
static tokfn tok;
static unsigned char *arena;              /* [guard][page][guard] */
static unsigned char *darena;             /* delimiter arena */
static sigjmp_buf jb; static volatile int armed; static int fault_w;
static int h_n, h_code;
static void handler(const char *m, void *p, int e) { (void)m; (void)p; h_n++; h_code = e; }
static void on_segv(int s, siginfo_t *si, void *uc) { (void)s; (void)si; if (!armed) _exit(3); armed = 0; fault_w = (((ucontext_t *)uc)->uc_mcontext.gregs[REG_ERR] & 2) != 0; siglongjmp(jb, 1); }

static unsigned long eg(const void *p, long i) { return W == 1 ? ((const unsigned char *)p)[i] : ((const uint32_t *)p)[i]; }
static void es(void *p, long i, unsigned long v) { if (W == 1) ((unsigned char *)p)[i] = v; else ((uint32_t *)p)[i] = v; }

/* delimiter sets */
static const char *DSETS[] = { ",", ";", ",;", "", ",;0123456789ABCD", ",;0123456789ABCDE", "\xa7", ",\xa7" };   /* 4,5: 16 (max allowed) and 17 chars; 6,7: a delimiter byte with the high bit set */
#define NDS 8
static void *dptr[NDS];
static int indelim(int ds, unsigned long ch) { for (const char *p = DSETS[ds]; *p; p++) if ((unsigned long)(unsigned char)*p == ch) return 1; return 0; }

typedef struct { long n_cases, n_calls, n_states, n_trans, n_viol; } Stats;
static Stats st;
static char sigs[64][200]; static char sigcase[64][300]; static long sigcnt[64]; static int nsig;
static const char *cur_case;
static void report(const char *fmt, const char *a) {
    char s[200]; snprintf(s, sizeof s, fmt, a);
    char full[200]; snprintf(full, sizeof full, "C14|%s|%s", W == 1 ? "strtok_s" : "wcstok_s", s);
    st.n_viol++;
    for (int i = 0; i < nsig; i++) if (!strcmp(sigs[i], full)) { sigcnt[i]++; return; }
    if (nsig < 64) { strcpy(sigs[nsig], full); strncpy(sigcase[nsig], cur_case, 299); sigcnt[nsig] = 1; nsig++; }
}

/* one history: string s (len L), dmax kind (0: L+1 exact, 1: L+3 slack, 2: L unterminated), delimiter sequence ds[] (cycled) */
typedef struct { unsigned char buf[24 * 4]; long ptr_off; size_t dmax; int ref_pos; int ended; } HState;
static int verbose;

static int run_history(const unsigned char *s, int L, int dk, const int *dseq, int ndseq, int maxcalls, int branch_record, uint64_t *state_hashes, int *nstates) {
    long obj = dk == 0 || dk == 4 ? L + 1 : dk == 1 ? L + 3 : dk == 3 ? L + 6 : L;          /* elements in the object; kind 3: the tail of an older, longer record behind the terminator */
    if (obj == 0) return 0;
    size_t dmax0 = obj;
    unsigned char *buf = arena + PG + PG - obj * W;            /* flush against the trailing guard */
    if (dk == 4) buf = arena + PG + 512;                       /* kind 4: the delimiter list is stored directly behind the array (delim == dest + dmax, e.g. the next member of a record) */
    unsigned char orig[24 * 4];
    for (long i = 0; i < obj; i++) es(buf, i, i < L ? s[i] : (i == L ? 0 : dk == 3 ? (unsigned long)(unsigned char)",b;a\xa7"[i - L - 1] : 0xAA - i));
    memcpy(orig, buf, obj * W);
    /* reference */
    unsigned char ref[24 * 4]; memcpy(ref, orig, obj * W);
    int pos = 0, ref_done = 0;
    size_t dmax = dmax0; void *ctx = NULL; int nullrun = 0, calls = 0;
    int unterm = dk == 2;
    for (;;) {
        int ds = dseq[calls % ndseq];
        void *first = calls == 0 ? buf : NULL;
        h_n = 0; errno = 0; void *r = NULL; int faulted = 0; size_t dmax_before = dmax;
        const void *dl = dptr[ds];
        if (dk == 4) { unsigned char *dd = buf + obj * W; long n = strlen(DSETS[ds]) + 1; for (long i = 0; i < n; i++) es(dd, i, (unsigned char)DSETS[ds][i]); dl = dd; }
        if (sigsetjmp(jb, 1) == 0) { armed = 1; r = tok(first, &dmax, dl, &ctx, (size_t)-1); armed = 0; }
        else faulted = 1;
        calls++; st.n_calls++;
        if (verbose) printf("  call %d delim=\"%s\" -> ret_off=%ld *ptr_off=%ld *dmaxp=%zu errno=%d handler=%d fault=%d buf=", calls, DSETS[ds], r ? ((unsigned char *)r - buf) / W : -1L, ctx ? ((unsigned char *)ctx - buf) / W : -1L, dmax, errno, h_n, faulted);
        if (verbose) { for (long i = 0; i < obj; i++) printf("%02lx", eg(buf, i) & 0xff); printf("\n"); }
        if (faulted) { report("touches-memory-beyond-dmax|%s", unterm ? (calls == 1 ? "unterminated" : dmax_before == 0 ? "unterminated,continuation-with-no-length-left" : "unterminated,continuation") : fault_w ? "terminated,write" : "terminated,read"); return 1; }
        if (unterm) {
            /* the remaining length handed back must never reach past the original dmax, terminated or not */
            if (ctx) {
                long po = ((unsigned char *)ctx - buf) / W;
                if (po < 0 || po > (long)dmax0) { report("ptr-outside-string|%s", "unterminated"); return 1; }
                if (po + (long)dmax > (long)dmax0) { report("remaining-length-permits-access-past-dmax|%s", "unterminated"); return 1; }
            }
            /* must end with an error without touching anything beyond dmax (guards); tokens before the error are fine */
            if (r == NULL) { if (!h_n && errno == 0 && calls > 2 * L + 4) { report("unterminated-no-error|%s", ""); return 1; } if (h_n || errno) return 0; }
            if (calls > 2 * L + 6) { report("unterminated-never-ends|%s", ""); return 1; }
            if (dmax == 0 && r == NULL) return 0;
            continue;
        }
        if (ds == 5) { /* 17 delimiters: must be rejected, nothing demanded about the rest */ return 0; }
        /* reference step */
        int exp_start = -1, exp_end = -1;
        if (!ref_done) {
            int p = pos; while (p < L && indelim(ds, s[p])) p++;
            if (p >= L) { ref_done = 1; pos = L; }
            else { int q = p; while (q < L && !indelim(ds, s[q])) q++; exp_start = p; exp_end = q; if (q < L) { es(ref, q, 0); pos = q + 1; } else pos = L; }
        }
        if (exp_start < 0) {
            if (r != NULL) { report("token-after-end|%s", calls > 1 ? "continuation" : "first"); return 1; }
            nullrun++;
        } else {
            nullrun = 0;
            if (r == NULL) { report("token-missed|%s", h_n ? "error-reported" : "silent"); return 1; }
            long off = ((unsigned char *)r - buf) / W;
            if (off != exp_start) { report("wrong-token-start|%s", off < exp_start ? "earlier(repeated)" : "later"); return 1; }
            for (int i = exp_start; i <= exp_end && i < obj; i++) if (eg(buf, i) != eg(ref, i)) { report("wrong-token-text|%s", ""); return 1; }
            if (eg(buf, exp_end) != 0) { report("token-not-terminated|%s", ""); return 1; }
        }
        if (memcmp(buf, ref, obj * W)) { report("buffer-modified-outside-delimiters|%s", ""); return 1; }
        if (ctx) {
            long po = ((unsigned char *)ctx - buf) / W;
            if (po < 0 || po > (long)dmax0) { report("ptr-outside-string|%s", ""); return 1; }
            if (po + (long)dmax > (long)dmax0) { report("remaining-length-permits-access-past-dmax|%s", ""); return 1; }
        }
        if (branch_record && state_hashes) {
            uint64_t h = 0xcbf29ce484222325ULL; for (long i = 0; i < obj * W; i++) { h ^= buf[i]; h *= 0x100000001b3ULL; }
            long po = ctx ? ((unsigned char *)ctx - buf) : -1; h ^= (uint64_t)po * 0x9E3779B97F4A7C15ULL; h ^= dmax * 0xC2B2AE3D27D4EB4FULL;
            state_hashes[(*nstates)++] = h;
        }
        if (nullrun >= 2) return 0;
        if (dmax == 0) {   /* the library says nothing remains: the reference must agree */
            if (!ref_done && pos < L) { int p = pos; while (p < L && indelim(ds, s[p])) p++; if (p < L) { report("remaining-length-zero-with-tokens-left|%s", ""); return 1; } }
            return 0;
        }
        if (calls > maxcalls) { report("sequence-never-ends|%s", ""); return 1; }
    }
}

/* nested sequences: the outer one splits s on ';', every record it returns is split in place on ',' by an inner sequence with a context of its own
 * (dmax = record length + 1) before the outer one is continued - what the context argument exists for */
static void run_nested(const unsigned char *s, int L) {
    long obj = L + 1; unsigned char *buf = arena + PG + PG - obj * W;
    for (long i = 0; i < obj; i++) es(buf, i, i < L ? s[i] : 0);
    char want[200] = "", got[200] = "";
    { int p = 0; while (p < L) { while (p < L && s[p] == ';') p++; if (p >= L) break; int q = p; while (q < L && s[q] != ';') q++; strcat(want, "[");
        int a = p; while (a < q) { while (a < q && s[a] == ',') a++; if (a >= q) break; int b = a; while (b < q && s[b] != ',') b++; char t[40]; int k = 0; for (int i = a; i < b; i++) k += sprintf(t + k, "%02x", s[i]); strcat(want, t); strcat(want, "."); a = b; }
        strcat(want, "]"); p = q; } }
    size_t dmax = obj; void *ctx = NULL; int faulted = 0, outer = 0; h_n = 0;
    if (sigsetjmp(jb, 1) == 0) { armed = 1;
        for (void *r = tok(buf, &dmax, dptr[1], &ctx, (size_t)-1); r && outer < 12; r = tok(NULL, &dmax, dptr[1], &ctx, (size_t)-1)) { outer++; st.n_calls++;
            strcat(got, "["); long tl = 0; while (eg(r, tl)) tl++;
            size_t idmax = tl + 1; void *ictx = NULL; int inner = 0;
            for (void *t = tok(r, &idmax, dptr[0], &ictx, (size_t)-1); t && inner < 12; t = tok(NULL, &idmax, dptr[0], &ictx, (size_t)-1)) { inner++; st.n_calls++; char b[40]; int k = 0; for (long i = 0; eg(t, i) && i < 16; i++) k += sprintf(b + k, "%02lx", eg(t, i)); b[k] = 0; if (strlen(got) < 150) { strcat(got, b); strcat(got, "."); } }
            strcat(got, "]"); if (strlen(got) > 150) break; }
        armed = 0; } else faulted = 1;
    if (verbose) printf("  nested: expected %s\n          got      %s  fault=%d handler=%d\n", want, got, faulted, h_n);
    if (faulted) { report("nested-sequences|%s", "fault"); return; }
    if (strcmp(want, got)) report("nested-sequences|%s", strlen(got) < strlen(want) ? "tokens-missing" : "wrong-tokens");
}

static const unsigned char ALPHA[5] = { 'a', 'b', ',', ';', 0xa7 };
#define NA 5

int main(int argc, char **argv) {
    setvbuf(stdout, NULL, _IOLBF, 0);
    if (argc < 6) { fprintf(stderr, "usage\n"); return 2; }
    int replay = !strcmp(argv[1], "replay");
    const char *kind = replay ? argv[2] : argv[1];
    W = !strcmp(kind, "wcs") ? 4 : 1;
    void *L = dlopen(getenv("CAT_LIB"), RTLD_NOW | RTLD_GLOBAL);
    if (!L) { fprintf(stderr, "cannot load CAT_LIB\n"); return 2; }
    tok = (tokfn)dlsym(L, W == 1 ? "_strtok_s_chk" : "_wcstok_s_chk");
    void *(*ss)(void *) = dlsym(L, "set_str_constraint_handler_s");
    if (!tok || !ss) { fprintf(stderr, "missing symbols\n"); return 2; }
    ss((void *)handler);
    arena = mmap(NULL, 3 * PG, PROT_NONE, MAP_PRIVATE | MAP_ANONYMOUS, -1, 0); mprotect(arena + PG, PG, PROT_READ | PROT_WRITE);
    darena = mmap(NULL, 2 * PG * NDS, PROT_NONE, MAP_PRIVATE | MAP_ANONYMOUS, -1, 0);
    for (int d = 0; d < NDS; d++) {   /* each delimiter set flush against its own guard, read-only */
        unsigned char *pg = darena + 2 * PG * d; mprotect(pg, PG, PROT_READ | PROT_WRITE);
        long n = strlen(DSETS[d]) + 1; unsigned char *p = pg + PG - n * W; for (long i = 0; i < n; i++) es(p, i, (unsigned char)DSETS[d][i]);
        mprotect(pg, PG, PROT_READ); dptr[d] = p;
    }
    static char alt[1 << 15]; stack_t sst = { .ss_sp = alt, .ss_size = sizeof alt }; sigaltstack(&sst, NULL);
    struct sigaction sa; memset(&sa, 0, sizeof sa); sa.sa_sigaction = on_segv; sa.sa_flags = SA_SIGINFO | SA_ONSTACK | SA_NODEFER; sigaction(SIGSEGV, &sa, NULL);
    char cs[300];
    if (replay) {
        unsigned char s[16]; int Ls = strlen(argv[3]) / 2; for (int i = 0; i < Ls; i++) { unsigned v; sscanf(argv[3] + 2 * i, "%2x", &v); s[i] = v; }
        if (!strcmp(argv[4], "nested")) { verbose = 1; snprintf(cs, sizeof cs, "%s %s nested -", kind, argv[3]); cur_case = cs; run_nested(s, Ls); if (nsig) { printf("VERDICT violation %s\n", sigs[0]); return 1; } printf("VERDICT ok\n"); return 0; }
        int dk = atoi(argv[4]); int dseq[32], nd = strlen(argv[5]); for (int i = 0; i < nd; i++) dseq[i] = argv[5][i] - '0';
        verbose = 1; snprintf(cs, sizeof cs, "%s %s %d %s", kind, argv[3], dk, argv[5]); cur_case = cs;
        printf("string \""); for (int i = 0; i < Ls; i++) putchar(s[i]); printf("\" dmax-kind %d (0 exact, 1 slack, 2 unterminated, 3 stale record tail behind the terminator, 4 delimiter list stored directly behind the array)\n", dk);
        run_history(s, Ls, dk, dseq, nd, 2 * Ls + 8, 0, NULL, NULL);
        if (nsig) { printf("VERDICT violation %s\n", sigs[0]); return 1; }
        printf("VERDICT ok\n"); return 0;
    }
    int N = atoi(argv[2]), branch = atoi(argv[3]); long shard = atol(argv[4]), nsh = atol(argv[5]);
    long idx = 0;
    uint64_t *seen = calloc(1 << 22, 8);
    for (int Ls = 0; Ls <= N; Ls++) {
        long cnt = 1; for (int i = 0; i < Ls; i++) cnt *= NA;
        for (long c = 0; c < cnt; c++) {
            if ((idx++ % nsh) != shard) continue;
            unsigned char s[16]; long t = c; for (int i = 0; i < Ls; i++) { s[i] = ALPHA[t % NA]; t /= NA; }
            char hx[40]; for (int i = 0; i < Ls; i++) sprintf(hx + 2 * i, "%02x", s[i]); hx[2 * Ls] = 0; if (!Ls) strcpy(hx, "");
            if (!branch && Ls > 0) { snprintf(cs, sizeof cs, "%s %s nested -", kind, hx); cur_case = cs; st.n_cases++; run_nested(s, Ls); }
            for (int dk = 0; dk < 5; dk++) {
                if (!branch) {
                    for (int ds = 0; ds < NDS; ds++) {
                        snprintf(cs, sizeof cs, "%s %s %d %d", kind, Ls ? hx : "-", dk, ds); cur_case = cs;
                        st.n_cases++; st.n_states++;
                        int dseq[1] = { ds }; run_history(s, Ls, dk, dseq, 1, 2 * Ls + 8, 0, NULL, NULL);
                    }
                } else {
                    /* branching histories: BFS over delimiter choice sequences among {",", ";", ",;"}, de-duplicated on state */
                    int front[2048][12], flen[2048], nf = 1; flen[0] = 0;
                    for (int depth = 0; depth < Ls + 3 && nf; depth++) {
                        static int nxt[2048][12]; static int nlen[2048]; int nn = 0;
                        for (int f = 0; f < nf; f++) for (int ds = 0; ds < 3; ds++) {
                            int dseq[12]; memcpy(dseq, front[f], flen[f] * sizeof(int)); dseq[flen[f]] = ds; int nd = flen[f] + 1;
                            char dsq[16]; for (int i = 0; i < nd; i++) dsq[i] = '0' + dseq[i]; dsq[nd] = 0;
                            snprintf(cs, sizeof cs, "%s %s %d %s", kind, Ls ? hx : "-", dk, dsq); cur_case = cs;
                            uint64_t hs[40]; int nhs = 0; st.n_cases++; st.n_trans++;
                            /* run exactly nd calls' worth by cycling dseq but cutting at nd calls: maxcalls = nd */
                            long v0 = st.n_viol;
                            run_history(s, Ls, dk, dseq, nd, nd - 1, 1, hs, &nhs);
                            /* 'sequence-never-ends' is an artefact of the cut: drop it */
                            if (st.n_viol > v0 && nsig && strstr(sigs[nsig - 1], "sequence-never-ends") && sigcnt[nsig - 1] == st.n_viol - v0) { st.n_viol = v0; nsig--; }
                            if (nhs == nd) {   /* history still running after nd calls: extend if the state is new */
                                uint64_t k = hs[nd - 1] ^ ((uint64_t)c * 0x9E3779B97F4A7C15ULL) ^ ((uint64_t)dk << 60) ^ ((uint64_t)Ls << 52); if (!k) k = 1;
                                size_t m = (1 << 22) - 1, i = (k * 0x9E3779B97F4A7C15ULL) >> 42; int isnew = 0;
                                for (;;) { if (!seen[i]) { seen[i] = k; isnew = 1; break; } if (seen[i] == k) break; i = (i + 1) & m; }
                                if (isnew && nn < 2048 && nd < 12) { st.n_states++; memcpy(nxt[nn], dseq, nd * sizeof(int)); nlen[nn] = nd; nn++; }
                            }
                        }
                        memcpy(front, nxt, sizeof(int) * 12 * nn); memcpy(flen, nlen, sizeof(int) * nn); nf = nn;
                    }
                }
            }
        }
    }
    for (int i = 0; i < nsig; i++) printf("{\"t\":\"viol\",\"sig\":\"%s\",\"n\":%ld,\"case\":\"%s\"}\n", sigs[i], sigcnt[i], sigcase[i]);
    printf("{\"t\":\"stat\",\"kind\":\"%s\",\"N\":%d,\"histories\":%ld,\"calls\":%ld,\"states\":%ld,\"transitions\":%ld,\"violating\":%ld}\n", kind, N, st.n_cases, st.n_calls, st.n_states, st.n_trans ? st.n_trans : st.n_calls, st.n_viol);
    return 0;
}
