/* c09.c - C09 %n is never executed: ALL format strings up to length L over a small alphabet are fed to
 * every printf_s / scanf_s family entry point with sentinel blocks as variadic arguments; a reference
 * parser of the C conversion grammar says which slots a non-n scanf conversion may store to and whether
 * an n conversion is present.
 * usage: c09 <narrow|wide> <L> <alphabet> <shard> <nshards> | c09 replay <narrow|wide> <entry> <hexformat> <alphabet-ignored>
 * env CAT_LIB */
#define _GNU_SOURCE
#include <stdio.h>
#include <stdlib.h>
#include <string.h>
#include <stdarg.h>
#include <signal.h>
#include <setjmp.h>
#include <sys/mman.h>
#include <dlfcn.h>
#include <wchar.h>
#include <errno.h>
#include <stdint.h>
#include <unistd.h>

#define NARG 6
#define BOSU ((size_t)-1)
static unsigned char *sent;             /* NARG blocks of 64 bytes at a low fixed address */
static unsigned char sent0[NARG * 64];
static void *A[NARG];
static sigjmp_buf jb; static volatile int armed; static int got_sig; static void *fault_addr;
static void on_sig(int s, siginfo_t *si, void *u) { (void)u; if (!armed) _exit(3); armed = 0; got_sig = s; fault_addr = si ? si->si_addr : NULL; siglongjmp(jb, 1); }
/* the format itself is an operand: it is handed over flush against an unmapped page, after its terminator (placement 0)
 * or before its first element (placement 1), so that a scan that leaves [start, terminator] faults */
static unsigned char *farea; static const char *g_prop = "C09";
#define FPAGES 8
static const void *place_fmt(const void *f, size_t bytes, int placement) {
    unsigned char *lo = farea + 4096, *hi = farea + 4096 * (FPAGES - 1);
    unsigned char *at = placement ? lo : hi - bytes;
    memset(lo, 'Q', hi - lo); memcpy(at, f, bytes); return at;
}
static int h_n; static void handler(const char *m, void *p, int e) { (void)m; (void)p; (void)e; h_n++; }

/* ---- entry points */
static void *L;
static int (*p_sprintf)(char *, size_t, size_t, const char *, ...), (*p_snprintf)(char *, size_t, size_t, const char *, ...);
static int (*p_vsprintf)(char *, size_t, size_t, const char *, va_list), (*p_vsnprintf)(char *, size_t, size_t, const char *, va_list);
static int (*p_printf)(const char *, ...), (*p_vprintf)(const char *, va_list), (*p_fprintf)(FILE *, const char *, ...), (*p_vfprintf)(FILE *, const char *, va_list);
static int (*p_swprintf)(wchar_t *, size_t, size_t, const wchar_t *, ...), (*p_snwprintf)(wchar_t *, size_t, size_t, const wchar_t *, ...);
static int (*p_vswprintf)(wchar_t *, size_t, size_t, const wchar_t *, va_list), (*p_vsnwprintf)(wchar_t *, size_t, size_t, const wchar_t *, va_list);
static int (*p_wprintf)(const wchar_t *, ...), (*p_vwprintf)(const wchar_t *, va_list), (*p_fwprintf)(FILE *, const wchar_t *, ...), (*p_vfwprintf)(FILE *, const wchar_t *, va_list);
static int (*p_sscanf)(const char *, const char *, ...), (*p_vsscanf)(const char *, const char *, va_list), (*p_fscanf)(FILE *, const char *, ...), (*p_vfscanf)(FILE *, const char *, va_list), (*p_scanf)(const char *, ...), (*p_vscanf)(const char *, va_list);
static int (*p_swscanf)(const wchar_t *, const wchar_t *, ...), (*p_vswscanf)(const wchar_t *, const wchar_t *, va_list), (*p_fwscanf)(FILE *, const wchar_t *, ...), (*p_vfwscanf)(FILE *, const wchar_t *, va_list), (*p_wscanf)(const wchar_t *, ...), (*p_vwscanf)(const wchar_t *, va_list);

static const char *EPN[] = { "sprintf_s", "vsprintf_s", "snprintf_s", "vsnprintf_s", "printf_s", "vprintf_s", "fprintf_s", "vfprintf_s",
                             "sscanf_s", "vsscanf_s", "fscanf_s", "vfscanf_s", "scanf_s", "vscanf_s" };
static const char *EPW[] = { "swprintf_s", "vswprintf_s", "snwprintf_s", "vsnwprintf_s", "wprintf_s", "vwprintf_s", "fwprintf_s", "vfwprintf_s",
                             "swscanf_s", "vswscanf_s", "fwscanf_s", "vfwscanf_s", "wscanf_s", "vwscanf_s" };
#define NEP 14
static char cbuf[8192]; static wchar_t wbuf[2048];
static FILE *sink;                       /* memory stream for stream output */
static size_t g_cdmax = 4096, g_wdmax = 1024; static int g_tiny, g_nulld;     /* g_nulld: the buffer entry points get a null dest and dmax 0 (the length-query form of the C library) */
#define CBUF (g_nulld ? (char *)0 : cbuf)
#define WBUF (g_nulld ? (wchar_t *)0 : wbuf)
//     /* dmax handed to the buffer entry points; the truncating ones are run a second time with dmax 3 */
static FILE *osink; static int g_other;    /* a stream of the other orientation (an earlier write of the other family has fixed it): history for the stream entry points */
static const char *epname(int wide, int ep);
static FILE *win, *win2;                 /* wide-oriented input streams (real temp files) */
static wchar_t *wsink_mem; static size_t wsink_len;
static char *sink_mem; static size_t sink_len;
#define ARGS A[0], A[1], A[2], A[3], A[4], A[5]

static int vcall(int ep, int wide, const void *fmt, ...) {
    va_list ap; va_start(ap, fmt); int r = 0;
    if (!wide) switch (ep) {
        case 1: r = p_vsprintf(CBUF, g_cdmax, BOSU, fmt, ap); break; case 3: r = p_vsnprintf(CBUF, g_cdmax, BOSU, fmt, ap); break;
        case 5: r = p_vprintf(fmt, ap); break; case 7: r = p_vfprintf(sink, fmt, ap); break;
        case 9: r = p_vsscanf("7 7 7 7", fmt, ap); break;
        case 11: { FILE *f = fmemopen((void *)"7 7 7 7", 7, "r"); r = p_vfscanf(f, fmt, ap); fclose(f); break; }
        case 13: r = p_vscanf(fmt, ap); break;
    } else switch (ep) {
        case 1: r = p_vswprintf(WBUF, g_wdmax, BOSU, fmt, ap); break; case 3: r = p_vsnwprintf(WBUF, g_wdmax, BOSU, fmt, ap); break;
        case 5: r = p_vwprintf(fmt, ap); break; case 7: r = p_vfwprintf(sink, fmt, ap); break;
        case 9: r = p_vswscanf(L"7 7 7 7", fmt, ap); break;
        case 11: rewind(win); r = p_vfwscanf(win, fmt, ap); break;
        case 13: r = p_vwscanf(fmt, ap); break;
    }
    va_end(ap); return r;
}
static int call(int ep, int wide, const void *fmt) {
    if (ep & 1) return vcall(ep, wide, fmt, ARGS);
    if (!wide) switch (ep) {
        case 0: return p_sprintf(CBUF, g_cdmax, BOSU, fmt, ARGS); case 2: return p_snprintf(CBUF, g_cdmax, BOSU, fmt, ARGS);
        case 4: return p_printf(fmt, ARGS); case 6: return p_fprintf(sink, fmt, ARGS);
        case 8: return p_sscanf("7 7 7 7", fmt, ARGS);
        case 10: { FILE *f = fmemopen((void *)"7 7 7 7", 7, "r"); int r = p_fscanf(f, fmt, ARGS); fclose(f); return r; }
        case 12: return p_scanf(fmt, ARGS);
    } else switch (ep) {
        case 0: return p_swprintf(WBUF, g_wdmax, BOSU, fmt, ARGS); case 2: return p_snwprintf(WBUF, g_wdmax, BOSU, fmt, ARGS);
        case 4: return p_wprintf(fmt, ARGS); case 6: return p_fwprintf(sink, fmt, ARGS);
        case 8: return p_swscanf(L"7 7 7 7", fmt, ARGS);
        case 10: rewind(win); return p_fwscanf(win, fmt, ARGS);
        case 12: return p_wscanf(fmt, ARGS);
    }
    return 0;
}

/* ---- reference parser of the conversion grammar: % flags* width? (.prec)? length? conv
 * returns: has_n; slot_kind[i]: 0 unused/unknown, 1 may-be-stored-by-scanf (non-n conversion), 2 n conversion, 3 read-only use (printf arg / '*');
 * valid = the whole format parsed as literal text and complete directives */
typedef struct { int has_n, valid, nslots; int kind[16]; int first_invalid_slot; } Parse;
static void parse(const char *f, int scan, Parse *p) {
    memset(p, 0, sizeof *p); p->valid = 1; p->first_invalid_slot = 99;
    int slot = 0;
    for (const char *c = f; *c; c++) {
        if (*c != '%') continue;
        c++;
        if (*c == '%') continue;
        int suppress = 0;
        if (scan) { if (*c == '*') { suppress = 1; c++; } }
        else { while (*c && strchr("-+ #0'", *c)) c++; }
        if (!scan && *c == '*') { if (slot < 16) p->kind[slot] = 3; slot++; c++; } else while (*c >= '0' && *c <= '9') c++;
        if (!scan && *c == '.') { c++; if (*c == '*') { if (slot < 16) p->kind[slot] = 3; slot++; c++; } else while (*c >= '0' && *c <= '9') c++; }
        if (scan && *c == '.') { p->valid = 0; if (p->first_invalid_slot == 99) p->first_invalid_slot = slot; return; }
        while (*c && (strchr("hlLjztqZ", *c) || (scan && *c == 'm'))) c++;      /* incl. the glibc modifiers q, Z and scanf's allocation modifier m */
        if (!*c) { p->valid = 0; if (p->first_invalid_slot == 99) p->first_invalid_slot = slot; return; }
        if (*c == 'n') { p->has_n = 1; if (!suppress) { if (slot < 16) p->kind[slot] = 2; slot++; } continue; }
        if (strchr("diouxXcsfFeEgGaAp", *c) || (scan && *c == '[')) {
            if (scan && *c == '[') {   /* scanset: optional ^, optional leading ], up to the closing ] */
                c++; if (*c == '^') c++; if (*c == ']') c++;
                while (*c && *c != ']') c++;
                if (!*c) { p->valid = 0; if (p->first_invalid_slot == 99) p->first_invalid_slot = slot; return; }
            }
            if (!suppress) { if (slot < 16) p->kind[slot] = scan ? 1 : 3; slot++; }
            continue;
        }
        p->valid = 0; if (p->first_invalid_slot == 99) p->first_invalid_slot = slot; return;   /* unknown conversion character */
    }
    p->nslots = slot;
}

static char sigs[128][200], sigcase[128][260]; static long sigcnt[128]; static int nsig; static long n_calls, n_viol, n_with_n, n_rejected;
static void report(const char *ep, const char *what, const char *cls, const char *cs) {
    char sig[200]; snprintf(sig, sizeof sig, "C09|%s|%s|%s", ep, what, cls); n_viol++;
    for (int i = 0; i < nsig; i++) if (!strcmp(sigs[i], sig)) { sigcnt[i]++; return; }
    if (nsig < 128) { strcpy(sigs[nsig], sig); strncpy(sigcase[nsig], cs, 259); sigcnt[nsig] = 1; nsig++; }
}
/* class of the n directive: how it is spelled */
static const char *ncls(const char *f, char *b) {
    const char *c = f; b[0] = 0;
    for (; *c; c++) if (*c == '%') { c++; if (*c == '%') continue; const char *st = c; while (*c && !strchr("diouxXcsfFeEgGaApn[", *c)) c++; if (*c == 'n') {
        int len = c - st; int esc = (st - 1 > f && st[-2] == '%');
        snprintf(b, 60, "%s%s", esc ? "after-escaped-percent," : "", len == 0 ? "plain" : strpbrk(st, "hlLjzt") && strpbrk(st, "hlLjzt") < c ? "length-modifier" : strpbrk(st, "0123456789") && strpbrk(st, "0123456789") < c ? "width" : strchr(st, '.') && strchr(st, '.') < c ? "precision" : "flag");
        return b; } if (!*c) break; }
    return "none";
}
static int verbose;

static void one(int wide, int ep, const char *fmt) {
    static wchar_t wf[5000]; const void *fp = fmt;
    if (wide) { int i = 0; for (; fmt[i]; i++) wf[i] = (unsigned char)fmt[i]; wf[i] = 0; fp = wf; }
    int scan = ep >= 8;
    /* numbered arguments (%3$d): a number that names none of the six arguments passed makes the call itself invalid (libc would read an argument that is not there) */
    for (const char *q = fmt; *q; q++) if (*q >= '0' && *q <= '9') { long v = 0; const char *e = q; while (*e >= '0' && *e <= '9') v = v * 10 + (*e++ - '0'); if (*e == '$' && (v < 1 || v > 6)) return; q = e - 1; if (!*e) break; }
    Parse p; parse(fmt, scan, &p);
    memcpy(sent, sent0, sizeof sent0);
    /* case encoding: an optional pad<N>: prefix stands for N literal 'x' characters */
    size_t npad = 0; while (fmt[npad] == 'x' && npad < 5000) npad++; if (npad < 64) npad = 0;
    char hx[200]; hx[0] = 0; for (int i = npad; fmt[i]; i++) sprintf(hx + 2 * (i - npad), "%02x", (unsigned char)fmt[i]); if (!fmt[npad]) strcpy(hx, "-");
    char cs[260]; snprintf(cs, sizeof cs, "%s %s pad%zu:%s", wide ? "wide" : "narrow", epname(wide, ep), npad, hx);
    const char *epn = epname(wide, ep);
    size_t fbytes = wide ? (wcslen((const wchar_t *)fp) + 1) * sizeof(wchar_t) : strlen(fmt) + 1;
    int c02 = strcmp(g_prop, "C09") != 0;
    for (int placement = 0; placement < (c02 ? 2 : 1); placement++) {
    fp = place_fmt(wide ? (const void *)wf : (const void *)fmt, fbytes, placement);
    h_n = 0; errno = 0; int r = 0, crashed = 0; n_calls++; fault_addr = NULL;
    if (ep == 12 || ep == 13) { if (wide) { rewind(win2); stdin = win2; } else { if (stdin) fclose(stdin); stdin = fmemopen((void *)"7 7 7 7", 7, "r"); } }
    if (sigsetjmp(jb, 1) == 0) { armed = 1; r = call(ep, wide, fp); armed = 0; } else crashed = 1;
    char b[64];
    if (c02 && crashed && got_sig == SIGSEGV && fault_addr) {
        unsigned char *a = fault_addr;
        if (a >= farea && a < farea + 4096) { char sg[200]; snprintf(sg, sizeof sg, "C02|%s|format-read-before-its-start|%s", epn, placement ? "start-at-page-start" : "end-at-page-end"); n_viol++; int k = 0; for (; k < nsig; k++) if (!strcmp(sigs[k], sg)) { sigcnt[k]++; break; } if (k == nsig && nsig < 128) { strcpy(sigs[nsig], sg); strncpy(sigcase[nsig], cs, 259); sigcnt[nsig++] = 1; } if (c02) continue; }
        if (a >= farea + 4096 * (FPAGES - 1) && a < farea + 4096 * FPAGES) { char sg[200]; snprintf(sg, sizeof sg, "C02|%s|format-read-past-its-terminator|%s", epn, p.valid ? "complete-format" : "format-ends-inside-a-directive"); n_viol++; int k = 0; for (; k < nsig; k++) if (!strcmp(sigs[k], sg)) { sigcnt[k]++; break; } if (k == nsig && nsig < 128) { strcpy(sigs[nsig], sg); strncpy(sigcase[nsig], cs, 259); sigcnt[nsig++] = 1; } if (c02) continue; }
    }
    if (c02) continue;
    int changed_any = memcmp(sent, sent0, sizeof sent0) != 0;
    if (verbose) { FILE *so = stdout; stdout = stderr; printf("format \"%.40s%s\" entry %s: ret=%d handler=%d crashed=%d(sig %d) has_n=%d valid=%d sentinel_changed=%d\n", fmt + (npad ? npad : 0), npad ? " (after a long literal prefix)" : "", epn, r, h_n, crashed, got_sig, p.has_n, p.valid, changed_any);
        for (int i = 0; i < NARG; i++) if (memcmp(sent + 64 * i, sent0 + 64 * i, 64)) { printf("  slot %d (kind %d) changed:", i, p.kind[i]); for (int k = 0; k < 12; k++) printf(" %02x", sent[64 * i + k]); printf("\n"); } stdout = so; }
    if (crashed) { if (got_sig == SIGABRT && p.has_n) report(epn, "n-reached-libc(abort)", ncls(fmt, b), cs); else if (p.valid) report(epn, "crash", p.has_n ? ncls(fmt, b) : "no-n", cs); return; }
    if (p.has_n) n_with_n++;
    /* (1) no store on behalf of an n conversion */
    for (int i = 0; i < NARG; i++) {
        if (!memcmp(sent + 64 * i, sent0 + 64 * i, 64)) continue;
        if (!scan) { report(epn, "stored-through-argument", p.has_n ? ncls(fmt, b) : "no-n-in-format", cs); return; }
        if (!strpbrk(fmt, "diouxXeEfFgGaAcsSCp[")) { report(epn, "stored-through-n-argument", "format-without-any-other-conversion", cs); return; }   /* nothing but an n conversion can have stored, however the directive is spelt */
        if (i >= p.first_invalid_slot) continue;                 /* after an unparsable directive: not judged */
        if (p.kind[i] == 2) { report(epn, "stored-through-n-argument", ncls(fmt, b), cs); return; }
        if (p.kind[i] != 1 && p.valid) { report(epn, "stored-through-unused-argument", p.has_n ? ncls(fmt, b) : "no-n-in-format", cs); return; }
    }
    /* (2) a format with an n conversion is rejected as a constraint violation */
    if (p.has_n && p.valid) {
        if (h_n == 0 && r >= 0) { report(epn, "n-format-not-rejected", ncls(fmt, b), cs); return; }
        n_rejected++;
    }
    }
}

static const char *epname(int wide, int ep) { static char b[64]; if (g_nulld) { snprintf(b, sizeof b, "%s@nulldest", (wide ? EPW : EPN)[ep]); return b; } if (g_tiny) { snprintf(b, sizeof b, "%s@dmax3", (wide ? EPW : EPN)[ep]); return b; } if (!g_other) return (wide ? EPW : EPN)[ep]; snprintf(b, sizeof b, "%s@%s-oriented-stream", (wide ? EPW : EPN)[ep], wide ? "byte" : "wide"); return b; }
static void one_tiny(int wide, int ep, const char *fmt) { g_tiny = 1; g_cdmax = g_wdmax = 3; one(wide, ep, fmt); g_cdmax = 4096; g_wdmax = 1024; g_tiny = 0; }
static void one_nulld(int wide, int ep, const char *fmt) { g_nulld = 1; g_cdmax = g_wdmax = 0; one(wide, ep, fmt); g_cdmax = 4096; g_wdmax = 1024; g_nulld = 0; }
static void one_other(int wide, int ep, const char *fmt) { FILE *k = sink; sink = osink; g_other = 1; one(wide, ep, fmt); g_other = 0; sink = k; }

int main(int argc, char **argv) {
    setvbuf(stdout, NULL, _IONBF, 0);
    if (argc < 5) return 2;
    int replay = !strcmp(argv[1], "replay");
    int wide = !strcmp(argv[replay ? 2 : 1], "wide");
    L = dlopen(getenv("CAT_LIB"), RTLD_NOW | RTLD_GLOBAL);
    if (!L) { fprintf(stderr, "cannot load CAT_LIB\n"); return 2; }
#define LD(v, s) *(void **)&v = dlsym(L, s); if (!v) { fprintf(stderr, "missing %s\n", s); return 2; }
    LD(p_sprintf, "_sprintf_s_chk") LD(p_snprintf, "_snprintf_s_chk") LD(p_vsprintf, "_vsprintf_s_chk") LD(p_vsnprintf, "_vsnprintf_s_chk")
    LD(p_printf, "printf_s") LD(p_vprintf, "vprintf_s") LD(p_fprintf, "fprintf_s") LD(p_vfprintf, "vfprintf_s")
    LD(p_swprintf, "_swprintf_s_chk") LD(p_snwprintf, "_snwprintf_s_chk") LD(p_vswprintf, "_vswprintf_s_chk") LD(p_vsnwprintf, "_vsnwprintf_s_chk")
    LD(p_wprintf, "wprintf_s") LD(p_vwprintf, "vwprintf_s") LD(p_fwprintf, "fwprintf_s") LD(p_vfwprintf, "vfwprintf_s")
    LD(p_sscanf, "sscanf_s") LD(p_vsscanf, "vsscanf_s") LD(p_fscanf, "fscanf_s") LD(p_vfscanf, "vfscanf_s") LD(p_scanf, "scanf_s") LD(p_vscanf, "vscanf_s")
    LD(p_swscanf, "swscanf_s") LD(p_vswscanf, "vswscanf_s") LD(p_fwscanf, "fwscanf_s") LD(p_vfwscanf, "vfwscanf_s") LD(p_wscanf, "wscanf_s") LD(p_vwscanf, "vwscanf_s")
    void *(*ss)(void *) = dlsym(L, "set_str_constraint_handler_s"), *(*sm)(void *) = dlsym(L, "set_mem_constraint_handler_s");
    ss((void *)handler); sm((void *)handler);
    /* sentinel blocks at a low fixed address: a small int for %d/'*', a valid (wide) string for %s, a store target for %n */
    if (getenv("C09_PROP")) g_prop = getenv("C09_PROP");
    farea = mmap(NULL, 4096 * FPAGES, PROT_READ | PROT_WRITE, MAP_PRIVATE | MAP_ANONYMOUS, -1, 0); if (farea == MAP_FAILED) return 2;
    mprotect(farea, 4096, PROT_NONE); mprotect(farea + 4096 * (FPAGES - 1), 4096, PROT_NONE);
    sent = mmap((void *)0x20000, 4096, PROT_READ | PROT_WRITE, MAP_PRIVATE | MAP_ANONYMOUS | MAP_FIXED, -1, 0);
    if (sent == MAP_FAILED) { perror("mmap low"); return 2; }
    /* every argument slot, read as a string, is the text "<letter>%n" (narrow or wide): formatted data is never to be interpreted as a format */
    for (int i = 0; i < NARG; i++) { unsigned char *b = sent0 + 64 * i; memset(b, 0xA5, 64); memset(b, 0, 16);
        if (wide) { ((wchar_t *)b)[0] = L'a' + i; ((wchar_t *)b)[1] = L'%'; ((wchar_t *)b)[2] = L'n'; } else { b[0] = 'a' + i; b[1] = '%'; b[2] = 'n'; }
        A[i] = sent + 64 * i; }
    /* stdout -> memory stream */
    FILE *out = fdopen(dup(1), "w"); setvbuf(out, NULL, _IOLBF, 0);
    if (wide) {
        sink = open_wmemstream(&wsink_mem, &wsink_len); stdout = open_wmemstream(&wsink_mem, &wsink_len);
        win = tmpfile(); win2 = tmpfile();
        if (!win || !win2) { fprintf(stderr, "tmpfile failed\n"); return 2; }
        fputs("7 7 7 7", win); fputs("7 7 7 7", win2); fflush(win); fflush(win2);
        win = freopen(NULL, "r", win); win2 = freopen(NULL, "r", win2);
        if (!win || !win2) { fprintf(stderr, "freopen failed\n"); return 2; }
    } else {
        sink = open_memstream(&sink_mem, &sink_len); stdout = open_memstream(&sink_mem, &sink_len);
    }
    { static char *om; static size_t ol; static wchar_t *wom; if (wide) { osink = open_memstream(&om, &ol); fputc('x', osink); } else { osink = open_wmemstream(&wom, &ol); fputwc(L'x', osink); } }
    struct sigaction sa; memset(&sa, 0, sizeof sa); sa.sa_sigaction = on_sig; sa.sa_flags = SA_NODEFER | SA_SIGINFO; sigaction(SIGSEGV, &sa, NULL); sigaction(SIGABRT, &sa, NULL); sigaction(SIGBUS, &sa, NULL); sigaction(SIGFPE, &sa, NULL);
    if (replay) {
        int ep = -1, tiny = strstr(argv[3], "@dmax3") != NULL, nulld = strstr(argv[3], "@nulldest") != NULL, other = !tiny && !nulld && strchr(argv[3], '@') != NULL; char epb[64]; snprintf(epb, sizeof epb, "%.*s", (int)strcspn(argv[3], "@"), argv[3]);
        for (int i = 0; i < NEP; i++) if (!strcmp((wide ? EPW : EPN)[i], epb)) ep = i;
        static char fmt[5200]; int n = 0; const char *enc = argv[4];
        if (!strncmp(enc, "pad", 3)) { long np = atol(enc + 3); for (; n < np; n++) fmt[n] = 'x'; enc = strchr(enc, ':') + 1; }
        if (strcmp(enc, "-")) for (int k = 0; enc[2 * k]; k++) { unsigned v; sscanf(enc + 2 * k, "%2x", &v); fmt[n++] = v; } fmt[n] = 0;
        if (ep < 0) return 2;
        /* a case is replayed as the history it was found in: an accepted, conversion-free format of the same length (hence at the
         * same address) goes through the same entry point first, so that a verdict cached from an earlier call shows again */
        { static char neutral[5200]; memset(neutral, 'x', n); neutral[n] = 0; if (nulld) one_nulld(wide, ep, neutral); else if (tiny) one_tiny(wide, ep, neutral); else if (other) one_other(wide, ep, neutral); else one(wide, ep, neutral); nsig = 0; n_viol = 0; }
        verbose = 1; FILE *keep = stdout; (void)keep;
        if (nulld) one_nulld(wide, ep, fmt); else if (tiny) one_tiny(wide, ep, fmt); else if (other) one_other(wide, ep, fmt); else one(wide, ep, fmt);
        if (nsig) { fprintf(out, "VERDICT violation %s\n", sigs[0]); return 1; }
        fprintf(out, "VERDICT ok\n"); return 0;
    }
    int Lmax = atoi(argv[2]); const char *alpha = argv[3]; long shard = atol(argv[4]), nsh = atol(argv[5]);
    int na = strlen(alpha); long idx = 0, nformats = 0;
    char fmt[16];
    for (int len = 0; len <= Lmax; len++) {
        long cnt = 1; for (int i = 0; i < len; i++) cnt *= na;
        for (long c = 0; c < cnt; c++) {
            if ((idx++ % nsh) != shard) continue;
            long t = c; for (int i = 0; i < len; i++) { fmt[i] = alpha[t % na]; t /= na; } fmt[len] = 0;
            nformats++;
            for (int ep = 0; ep < NEP; ep++) one(wide, ep, fmt);
            one_other(wide, 6, fmt); one_other(wide, 7, fmt);
            for (int ep = 0; ep < 4; ep++) one_nulld(wide, ep, fmt);       /* the four buffer entry points with a null dest and dmax 0 */
            one_tiny(wide, 2, fmt); one_tiny(wide, 3, fmt);                /* the truncating entry points with a result that does not fit */            /* fprintf_s/vfprintf_s (fwprintf_s/vfwprintf_s) on a stream of the other orientation */
            if ((nformats & 255) == 0) { rewind(sink); fflush(stdout); rewind(stdout); rewind(osink); }
        }
    }
    /* the same short formats behind long literal prefixes (lengths around the RSIZE limits of a bounded pre-scan) */
    {
        static const int pads[] = { 1021, 1022, 1023, 1024, 4093, 4094, 4095, 4096 }; static char big[5200];
        int Lp = Lmax < 3 ? Lmax : 3;
        for (int pi = 0; pi < 8; pi++) for (int len = 1; len <= Lp; len++) {
            long cnt = 1; for (int i = 0; i < len; i++) cnt *= na;
            for (long c = 0; c < cnt; c++) {
                if ((idx++ % nsh) != shard) continue;
                memset(big, 'x', pads[pi]); long t = c; for (int i = 0; i < len; i++) { big[pads[pi] + i] = alpha[t % na]; t /= na; } big[pads[pi] + len] = 0;
                if (!strchr(big + pads[pi], 'n')) continue;
                nformats++;
                for (int ep = 0; ep < NEP; ep++) one(wide, ep, big);
                if ((nformats & 63) == 0) { rewind(sink); fflush(stdout); rewind(stdout); }
            }
        }
    }
    for (int i = 0; i < nsig; i++) fprintf(out, "{\"t\":\"viol\",\"sig\":\"%s\",\"n\":%ld,\"case\":\"%s\"}\n", sigs[i], sigcnt[i], sigcase[i]);
    fprintf(out, "{\"t\":\"stat\",\"family\":\"%s\",\"formats\":%ld,\"calls\":%ld,\"calls_with_n\":%ld,\"n_rejected\":%ld,\"violating\":%ld}\n", wide ? "wide" : "narrow", nformats, n_calls, n_with_n, n_rejected, n_viol);
    return 0;
}
