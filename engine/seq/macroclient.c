/* macroclient.c - an application that uses the library only through its public headers and macros (the object size the
 * macros append comes from the compiler), compiled by the driver for every compiler x optimisation x _FORTIFY_SOURCE
 * level.  For each entry point, destination kind (array whose size the compiler sees, heap block and pointer parameter
 * whose size it does not) and case (valid call, null source, zero dmax, dmax one above the array) it prints return
 * value, number of handler invocations and the code handed to the handler.  The driver knows what each line must be.
 * Linked against the library built from the working tree. */
#include <stdio.h>
#include <stdlib.h>
#include <string.h>
#include <wchar.h>
#include "safe_lib.h"
#include "safe_str_lib.h"
#include "safe_mem_lib.h"

static int h_n, h_code;
static void handler(const char *restrict m, void *restrict p, errno_t e) { (void)m; (void)p; h_n++; h_code = e; }
static volatile size_t V0;                       /* an opaque zero: keeps sizes and pointers out of compile-time diagnostics */
#define OP(x) ((x) + V0)
__attribute__((noinline)) static void *heap(size_t n) { void *p = malloc(n + V0); memset(p, 0x55, n); return p; }
static const char *null_s(void) { return (const char *)V0; }
static const wchar_t *null_w(void) { return (const wchar_t *)V0; }

#define BEGIN() do { h_n = 0; h_code = 0; } while (0)
#define END(fn, kind, cs, rc) printf("S %s %s %s rc=%ld hn=%d hc=%d\n", fn, kind, cs, (long)(rc), h_n, h_code)

/* the four cases for one destination expression D of N elements; CALL(dest, dmax, src) is the library call */
#define CASES(fn, kind, D, N, CALL, SRC, NULLSRC, OVER) do { long rc; \
    BEGIN(); rc = CALL(D, OP(N), SRC); END(fn, kind, "valid", rc); \
    BEGIN(); rc = CALL(D, OP(N), NULLSRC); END(fn, kind, "null-src", rc); \
    BEGIN(); rc = CALL(D, OP(0), SRC); END(fn, kind, "dmax-zero", rc); \
    if (OVER) { BEGIN(); rc = CALL(D, OP(N + 1), SRC); END(fn, kind, "dmax-above-object", rc); } } while (0)

#define C_strcpy(d, n, s) strcpy_s(d, n, s)
#define C_strcat(d, n, s) (d[0] = 0, strcat_s(d, n, s))
#define C_strncpy(d, n, s) strncpy_s(d, n, s, 3)
#define C_memcpy(d, n, s) memcpy_s(d, n, s, 3)
#define C_memmove(d, n, s) memmove_s(d, n, s, 3)
#define C_sprintf(d, n, s) sprintf_s(d, n, s, 7)
#define C_snprintf(d, n, s) snprintf_s(d, n, s, 7)
#define C_wcscpy(d, n, s) wcscpy_s(d, n, s)
#define C_wmemcpy(d, n, s) wmemcpy_s(d, n, s, 3)
#define C_strcpyfld(d, n, s) strcpyfld_s(d, n, s, 3)

__attribute__((noinline)) static void via_param(char *d, wchar_t *w) {
    CASES("strcpy_s", "param", d, 16, C_strcpy, "abc", null_s(), 0);
    CASES("strcat_s", "param", d, 16, C_strcat, "abc", null_s(), 0);
    CASES("strncpy_s", "param", d, 16, C_strncpy, "abc", null_s(), 0);
    CASES("memcpy_s", "param", d, 16, C_memcpy, "abc", null_s(), 0);
    CASES("memmove_s", "param", d, 16, C_memmove, "abc", null_s(), 0);
    CASES("sprintf_s", "param", d, 16, C_sprintf, "n=%d", null_s(), 0);
    CASES("snprintf_s", "param", d, 16, C_snprintf, "n=%d", null_s(), 0);
    CASES("strcpyfld_s", "param", d, 16, C_strcpyfld, "abc", null_s(), 0);
    CASES("wcscpy_s", "param", w, 16, C_wcscpy, L"abc", null_w(), 0);
    CASES("wmemcpy_s", "param", w, 16, C_wmemcpy, L"abc", null_w(), 0);
    { long rc; BEGIN(); rc = memset_s(d, OP(16), 0, OP(8)); END("memset_s", "param", "valid", rc); BEGIN(); rc = memset_s(d, OP(0), 0, OP(0)); END("memset_s", "param", "dmax-zero", rc); }
    { long rc; strcpy(d, "abc"); BEGIN(); rc = strnlen_s(d, OP(16)); END("strnlen_s", "param", "valid", rc == 3 ? 0 : -1); }
    { long rc; BEGIN(); rc = strzero_s(d, OP(16)); END("strzero_s", "param", "valid", rc); BEGIN(); rc = strzero_s(d, OP(0)); END("strzero_s", "param", "dmax-zero", rc); }
}

int main(void) {
    setvbuf(stdout, NULL, _IOLBF, 0);
    set_str_constraint_handler_s(handler); set_mem_constraint_handler_s(handler);
    char a[16]; wchar_t wa[16];
    CASES("strcpy_s", "array", a, 16, C_strcpy, "abc", null_s(), 1);
    CASES("strcat_s", "array", a, 16, C_strcat, "abc", null_s(), 1);
    CASES("strncpy_s", "array", a, 16, C_strncpy, "abc", null_s(), 1);
    CASES("memcpy_s", "array", a, 16, C_memcpy, "abc", null_s(), 1);
    CASES("memmove_s", "array", a, 16, C_memmove, "abc", null_s(), 1);
    CASES("sprintf_s", "array", a, 16, C_sprintf, "n=%d", null_s(), 1);
    CASES("snprintf_s", "array", a, 16, C_snprintf, "n=%d", null_s(), 1);
    CASES("strcpyfld_s", "array", a, 16, C_strcpyfld, "abc", null_s(), 1);
    CASES("wcscpy_s", "array", wa, 16, C_wcscpy, L"abc", null_w(), 1);
    CASES("wmemcpy_s", "array", wa, 16, C_wmemcpy, L"abc", null_w(), 1);
    { long rc; BEGIN(); rc = memset_s(a, OP(16), 0, OP(8)); END("memset_s", "array", "valid", rc); BEGIN(); rc = memset_s(a, OP(0), 0, OP(0)); END("memset_s", "array", "dmax-zero", rc);
      BEGIN(); rc = memset_s(a, OP(17), 0, OP(8)); END("memset_s", "array", "dmax-above-object", rc); }
    { long rc; strcpy(a, "abc"); BEGIN(); rc = strnlen_s(a, OP(16)); END("strnlen_s", "array", "valid", rc == 3 ? 0 : -1); }
    { long rc; BEGIN(); rc = strzero_s(a, OP(16)); END("strzero_s", "array", "valid", rc); BEGIN(); rc = strzero_s(a, OP(0)); END("strzero_s", "array", "dmax-zero", rc); }
    char *h = heap(16); wchar_t *wh = heap(16 * sizeof(wchar_t));
    CASES("strcpy_s", "heap", h, 16, C_strcpy, "abc", null_s(), 0);
    CASES("strcat_s", "heap", h, 16, C_strcat, "abc", null_s(), 0);
    CASES("strncpy_s", "heap", h, 16, C_strncpy, "abc", null_s(), 0);
    CASES("memcpy_s", "heap", h, 16, C_memcpy, "abc", null_s(), 0);
    CASES("memmove_s", "heap", h, 16, C_memmove, "abc", null_s(), 0);
    CASES("sprintf_s", "heap", h, 16, C_sprintf, "n=%d", null_s(), 0);
    CASES("snprintf_s", "heap", h, 16, C_snprintf, "n=%d", null_s(), 0);
    CASES("strcpyfld_s", "heap", h, 16, C_strcpyfld, "abc", null_s(), 0);
    CASES("wcscpy_s", "heap", wh, 16, C_wcscpy, L"abc", null_w(), 0);
    CASES("wmemcpy_s", "heap", wh, 16, C_wmemcpy, L"abc", null_w(), 0);
    { long rc; BEGIN(); rc = memset_s(h, OP(16), 0, OP(8)); END("memset_s", "heap", "valid", rc); BEGIN(); rc = memset_s(h, OP(0), 0, OP(0)); END("memset_s", "heap", "dmax-zero", rc); }
    { long rc; strcpy(h, "abc"); BEGIN(); rc = strnlen_s(h, OP(16)); END("strnlen_s", "heap", "valid", rc == 3 ? 0 : -1); }
    { long rc; BEGIN(); rc = strzero_s(h, OP(16)); END("strzero_s", "heap", "valid", rc); BEGIN(); rc = strzero_s(h, OP(0)); END("strzero_s", "heap", "dmax-zero", rc); }
    via_param(h, wh);
    printf("DONE\n");
    return 0;
}
