/* c07.c - C07 overlap detection / memmove exactness: memory layouts, not operand pairs. One arena of
 * M elements over {x, NUL} - all 2^M contents - x every dest position and dmax x every src position
 * x every slen, for the copy/concatenate/memory families in widths 1, 2, 4. Three-zone oracle.
 * usage: c07 <fn|all> <M> <shard> <nshards> | c07 replay <fn> <M> <content-bits> <d> <dmax> <s> <slen>   env CAT_LIB */
#define _GNU_SOURCE
#include <stdio.h>
#include <stdlib.h>
#include <string.h>
#include <signal.h>
#include <setjmp.h>
#include <sys/mman.h>
#include <dlfcn.h>
#include <stdint.h>
#include <ucontext.h>

#define PG 4096UL
#define BOSU ((long)-1)
enum { F_CPY, F_CAT, F_NCPY, F_NCAT, F_STP, F_STPN, F_MEM, F_MOVE, F_FLD, F_FLDIN, F_FLDOUT, F_CCPY };
typedef struct { const char *name; int fam, w, dunit; void *addr; } Fn;   /* dunit: bytes per dmax unit */
static Fn fns[] = {
    { "strcpy_s", F_CPY, 1, 1 }, { "strcat_s", F_CAT, 1, 1 }, { "strncpy_s", F_NCPY, 1, 1 }, { "strncat_s", F_NCAT, 1, 1 },
    { "stpcpy_s", F_STP, 1, 1 }, { "stpncpy_s", F_STPN, 1, 1 }, { "strcpyfld_s", F_FLD, 1, 1 }, { "strcpyfldin_s", F_FLDIN, 1, 1 },
    { "strcpyfldout_s", F_FLDOUT, 1, 1 }, { "memcpy_s", F_MEM, 1, 1 }, { "memmove_s", F_MOVE, 1, 1 }, { "memccpy_s", F_CCPY, 1, 1 },
    { "memcpy16_s", F_MEM, 2, 1 }, { "memmove16_s", F_MOVE, 2, 1 }, { "memcpy32_s", F_MEM, 4, 1 }, { "memmove32_s", F_MOVE, 4, 1 },
    { "wcscpy_s", F_CPY, 4, 4 }, { "wcscat_s", F_CAT, 4, 4 }, { "wcsncpy_s", F_NCPY, 4, 4 }, { "wcsncat_s", F_NCAT, 4, 4 },
    { "wmemcpy_s", F_MEM, 4, 4 }, { "wmemmove_s", F_MOVE, 4, 4 },
};
#define NF ((int)(sizeof fns / sizeof fns[0]))
typedef long (*ufn)(long, long, long, long, long, long, long, long);

static unsigned char *page;     /* [guard][2 pages][guard] */
static sigjmp_buf jb; static volatile int armed; static int fault_w;
static void on_segv(int s, siginfo_t *si, void *uc) { (void)s; (void)si; if (!armed) _exit(3); armed = 0; fault_w = (((ucontext_t *)uc)->uc_mcontext.gregs[REG_ERR] & 2) != 0; siglongjmp(jb, 1); }
static int h_n, h_code; static void handler(const char *m, void *p, int e) { (void)m; (void)p; h_n++; h_code = e; }

static unsigned long eg(const void *p, int w, long i) { return w == 1 ? ((const uint8_t *)p)[i] : w == 2 ? ((const uint16_t *)p)[i] : ((const uint32_t *)p)[i]; }
static void es(void *p, int w, long i, unsigned long v) { if (w == 1) ((uint8_t *)p)[i] = v; else if (w == 2) ((uint16_t *)p)[i] = v; else ((uint32_t *)p)[i] = v; }

typedef struct { int ok; int code; unsigned long post[24]; int rlo, rhi, wlo, whi; int skip; } Ref;   /* R=[rlo,rhi) W=[wlo,whi) as arena indices */
static long slen_at(const unsigned long *a, int M, int s) { for (int i = s; i < M; i++) if (!a[i]) return i - s; return -1; }

/* reference: copy through a temporary (all reads from the snapshot), assuming the operands were disjoint */
static void reference(const Fn *f, const unsigned long *a, int M, int d, int dmax, int s, int slen, Ref *r) {
    memset(r, 0, sizeof *r); for (int i = 0; i < M; i++) r->post[i] = a[i];
    long L = slen_at(a, M, s);
    switch (f->fam) {
    case F_CPY: case F_STP:
        if (L < 0) { r->skip = 1; return; }
        r->rlo = s; r->rhi = s + (L + 1 < dmax ? L + 1 : dmax); r->wlo = d; r->whi = d + (L + 1 < dmax ? L + 1 : dmax);
        if (L + 1 > dmax) { r->ok = 0; r->code = 406; return; }
        r->ok = 1; for (int i = 0; i <= L; i++) r->post[d + i] = a[s + i]; for (int i = L + 1; i < dmax; i++) r->post[d + i] = 0;
        return;
    case F_CAT: case F_NCAT: {
        long p = -1; for (int i = 0; i < dmax; i++) if (!a[d + i]) { p = i; break; }
        if (p < 0) { r->ok = 0; r->code = 407; r->skip = 2; return; }          /* dest unterminated: error expected, zones not applicable */
        long m;
        if (f->fam == F_CAT) { if (L < 0) { r->skip = 1; return; } m = L; r->rlo = s; r->rhi = s + L + 1; }
        else { if (slen == 0) { r->skip = 1; return; } if (L < 0 && s + slen > M) { r->skip = 1; return; } m = (L >= 0 && L < slen) ? L : slen; r->rlo = s; r->rhi = s + ((L >= 0 && L < slen) ? L + 1 : slen); }
        r->wlo = d + p; r->whi = d + p + m + 1 < d + dmax ? d + p + m + 1 : d + dmax;
        if (r->rhi > s + (dmax - p) + 1) r->rhi = s + (dmax - p) + 1 < r->rhi ? s + (dmax - p) + 1 : r->rhi;
        if (p + m + 1 > dmax) { r->ok = 0; r->code = 406; return; }
        r->ok = 1; for (int i = 0; i < m; i++) r->post[d + p + i] = a[s + i]; for (int i = p + m; i < dmax; i++) r->post[d + i] = 0;
        return; }
    case F_NCPY: case F_STPN: {
        if (slen == 0) { r->skip = 1; return; }
        if (L < 0 && s + slen > M) { r->skip = 1; return; }
        long m = (L >= 0 && L < slen) ? L : slen;
        r->rlo = s; r->rhi = s + ((L >= 0 && L < slen) ? L + 1 : slen); if (r->rhi > s + dmax) r->rhi = s + dmax;
        r->wlo = d; r->whi = d + (m + 1 < dmax ? m + 1 : dmax);
        if (m + 1 > dmax) { r->ok = 0; r->code = 406; return; }
        r->ok = 1; for (int i = 0; i < m; i++) r->post[d + i] = a[s + i]; for (int i = m; i < dmax; i++) r->post[d + i] = 0;
        return; }
    case F_MEM: case F_MOVE: case F_FLD:
        if (slen == 0) { r->skip = 1; return; }
        if (s + slen > M) { r->skip = 1; return; }
        r->rlo = s; r->rhi = s + slen; r->wlo = d; r->whi = d + (slen < dmax ? slen : dmax);
        if (f->fam == F_FLD) r->whi = d + dmax;                  /* the rest of the field is nulled */
        if (slen > dmax) { r->ok = 0; r->code = 406; return; }
        r->ok = 1; for (int i = 0; i < slen; i++) r->post[d + i] = a[s + i];
        if (f->fam == F_FLD) for (int i = slen; i < dmax; i++) r->post[d + i] = 0;
        return;
    case F_FLDOUT:
        if (slen == 0) { r->skip = 1; return; }
        if (s + slen > M) { r->skip = 1; return; }
        r->rlo = s; r->rhi = s + slen; r->wlo = d; r->whi = d + (slen + 1 < dmax ? slen + 1 : dmax);
        if (slen >= dmax) { r->skip = 1; return; }
        r->ok = 1; for (int i = 0; i < slen; i++) r->post[d + i] = a[s + i]; r->post[d + slen] = 0; r->skip = 3;   /* what follows the terminator is not specified */
        return;
    case F_FLDIN: {                         /* at most slen characters up to the terminator, the rest of the field nulled */
        if (slen == 0) { r->skip = 1; return; }
        if (L < 0 && s + slen > M) { r->skip = 1; return; }
        long m = (L >= 0 && L < slen) ? L : slen;
        r->rlo = s; r->rhi = s + ((L >= 0 && L < slen) ? L + 1 : slen); r->wlo = d; r->whi = d + dmax;
        if (slen > dmax) { r->ok = 0; r->code = 406; return; }
        r->ok = 1; for (int i = 0; i < m; i++) r->post[d + i] = a[s + i]; for (int i = m; i < dmax; i++) r->post[d + i] = 0;
        return; }
    case F_CCPY: r->skip = 1; return;       /* memccpy_s result semantics are a known finding (C06); overlap of memccpy covered by memcpy_s */
    }
}

static char sigs[64][200], sigcase[64][200]; static long sigcnt[64]; static int nsig; static long n_cases, n_viol, zone_cnt[4];
static void report(const Fn *f, const char *what, const char *rel, const char *cs) {
    char sig[200]; snprintf(sig, sizeof sig, "%s|%s|%s|%s", getenv("C07_PROP") ? getenv("C07_PROP") : "C07", f->name, what, rel); n_viol++;
    for (int i = 0; i < nsig; i++) if (!strcmp(sigs[i], sig)) { sigcnt[i]++; return; }
    if (nsig < 64) { strcpy(sigs[nsig], sig); strncpy(sigcase[nsig], cs, 199); sigcnt[nsig] = 1; nsig++; }
}
static int verbose;
static int bosmode;     /* 0: object sizes unknown; 1: dest size known = dmax, src size known = the rest of the arena (an enclosing larger object) */

static void one(const Fn *f, int M, unsigned bits, int d, int dmax, int s, int slen) {
    int w = f->w; unsigned long a[24]; Ref r;
    for (int i = 0; i < M; i++) a[i] = (bits >> i) & 1 ? ('a' + i) : 0;
    reference(f, a, M, d, dmax, s, slen, &r);
    if (r.skip == 1) return;
    unsigned char *arena = page + PG + 2 * PG - M * w;      /* flush right against the guard */
    unsigned char *pre = arena - 64; memset(pre, 0xEE, 64);
    for (int i = 0; i < M; i++) es(arena, w, i, a[i]);
    char cs[200]; snprintf(cs, sizeof cs, "%s %d %u %d %d %d %d %d", f->name, M, bits, d, dmax, s, slen, bosmode);
    long rc = 0; int faulted = 0; int errv = 0x5A5A5A5A; h_n = 0;
    long D = (long)(arena + d * w), S = (long)(arena + s * w), N = (long)dmax * w / f->dunit, LEN = slen;
    long BD = bosmode ? (long)dmax * w : BOSU, BS = bosmode ? (long)(M - s) * w : BOSU;
    if (bosmode && (long)slen * w > BS) return;       /* a count above the known source size may be rejected for that reason alone */
    n_cases++;
    if (sigsetjmp(jb, 1) == 0) {
        armed = 1;
        switch (f->fam) {
        case F_CPY: case F_CAT: rc = ((ufn)f->addr)(D, N, S, BD, 0, 0, 0, 0); break;
        case F_NCPY: case F_NCAT: case F_MEM: case F_MOVE: rc = ((ufn)f->addr)(D, N, S, LEN, BD, BS, 0, 0); break;
        case F_STP: rc = ((ufn)f->addr)(D, N, S, (long)&errv, BD, BS, 0, 0); rc = errv; break;
        case F_STPN: rc = ((ufn)f->addr)(D, N, S, LEN, (long)&errv, BD, BS, 0); rc = errv; break;
        case F_FLD: case F_FLDIN: case F_FLDOUT: rc = ((ufn)f->addr)(D, N, S, LEN, BD, 0, 0, 0); break;
        default: break;
        }
        armed = 0;
    } else faulted = 1;
    rc = (int)rc;
    /* zones */
    int dlo = d, dhi = d + dmax;
    int destR = !(r.rhi <= dlo || r.rlo >= dhi);            /* dest object intersects the elements read */
    int WR = !(r.whi <= r.rlo || r.wlo >= r.rhi);           /* written intersects read */
    int zone = (d == s) ? 2 : !destR ? 0 : WR ? 1 : 2;      /* 0 = disjoint, 1 = must report, 2 = either */
    if (r.skip == 2) zone = 3;
    zone_cnt[zone]++;
    const char *zn0 = zone == 0 ? "disjoint" : zone == 1 ? "written-intersects-read" : zone == 2 ? (d == s ? "identical-pointers" : "dest-object-touches-source") : "dest-unterminated";
    char znb[80]; snprintf(znb, sizeof znb, "%s%s", zn0, bosmode ? ",object-sizes-known" : ""); const char *zn = znb;
    if (verbose) { printf("rc=%ld handler=%d(code %d) fault=%d zone=%s ref_ok=%d ref_code=%d R=[%d,%d) W=[%d,%d)\narena after :", rc, h_n, h_code, faulted, zn, r.ok, r.code, r.rlo, r.rhi, r.wlo, r.whi); for (int i = 0; i < M; i++) printf(" %02lx", eg(arena, w, i) & 0xff); printf("\narena before:"); for (int i = 0; i < M; i++) printf(" %02lx", a[i] & 0xff); printf("\nreference   :"); for (int i = 0; i < M; i++) printf(" %02lx", r.post[i] & 0xff); printf("\n"); }
    if (faulted) { report(f, fault_w ? "write-past-arena" : "read-past-arena", zn, cs); return; }
    for (int i = 0; i < 64; i++) if (pre[i] != 0xEE) { report(f, "write-before-arena", zn, cs); return; }
    /* nothing outside [dest, dest+dmax) is ever written */
    for (int i = 0; i < M; i++) if ((i < dlo || i >= dhi) && eg(arena, w, i) != a[i]) { report(f, "write-outside-dest", zn, cs); return; }
    if (f->fam == F_MOVE) {
        if (r.ok && rc != 0) { report(f, "memmove-rejected", zn, cs); return; }
        if (r.ok) for (int i = 0; i < M; i++) if (eg(arena, w, i) != r.post[i]) { report(f, "memmove-differs-from-copy-through-temporary", zn, cs); return; }
        return;
    }
    if (rc == 0) {
        if (!r.ok && d != s) { report(f, "success-where-result-cannot-fit", zn, cs); return; }
        if (!r.ok) return;
        int lim = r.skip == 3 ? d + slen + 1 : M;
        int same = 1, unchanged = 1;
        for (int i = 0; i < lim; i++) { if (eg(arena, w, i) != r.post[i]) same = 0; if (eg(arena, w, i) != a[i]) unchanged = 0; }
        if (d == s) {   /* identical pointers: an unchanged dest or the reference result are both accepted (DESIGN 4) */
            int strsame = 1;   /* the string in dest (up to its terminator) is unchanged; the slack may have been nulled */
            for (int i = d; i < d + dmax; i++) { if (eg(arena, w, i) != a[i]) { strsame = 0; break; } if (!a[i]) break; }
            if (!same && !unchanged && !strsame) report(f, "silently-corrupted-copy", zn, cs);
            return;
        }
        if (!same) { report(f, "silently-corrupted-copy", zn, cs); return; }
        if (zone == 1) { report(f, "overlap-not-detected", zn, cs); return; }
    } else if (rc == 404) {
        if (zone == 0) { report(f, "disjoint-operands-rejected-as-overlapping", zn, cs); return; }
        for (int i = dlo; i < dhi; i++) if (eg(arena, w, i) != 0) { report(f, "dest-not-cleared-on-overlap", zn, cs); return; }
    } else {
        if (r.ok && zone == 0) { report(f, "disjoint-valid-call-failed", zn, cs); return; }
        if (r.ok && zone == 1) { /* some other error instead of ESOVRLP: still a reported failure */ }
    }
}


/* memccpy_s(dest, dmax, src, c, n): the copy ends with the first element equal to c converted to unsigned char.  Elements read: up to and
 * including the stop character (else n); the declared source extent is n.  Judged here: overlap detection, corruption, stray writes. */
static long g_c;
static void one_ccpy(const Fn *f, int M, unsigned bits, int d, int dmax, int s, int n) {
    unsigned long a[24];
    for (int i = 0; i < M; i++) a[i] = (bits >> i) & 1 ? ('a' + i) : 0;
    if (s + n > M || n > dmax) return;                       /* truthful sizes only; a count above dmax is rejected at entry (C05) */
    unsigned char *arena = page + PG + 2 * PG - M;
    unsigned char *pre = arena - 64; memset(pre, 0xEE, 64);
    for (int i = 0; i < M; i++) arena[i] = a[i];
    char cs[200]; snprintf(cs, sizeof cs, "%s %d %u %d %d %d %d %d %ld", f->name, M, bits, d, dmax, s, n, bosmode, g_c);
    long rc = 0; int faulted = 0; h_n = 0;
    long BD = bosmode ? (long)dmax : BOSU, BS = bosmode ? (long)(M - s) : BOSU;
    n_cases++;
    if (sigsetjmp(jb, 1) == 0) { armed = 1; rc = ((ufn)f->addr)((long)(arena + d), dmax, (long)(arena + s), g_c, n, BD, BS, 0); armed = 0; } else faulted = 1;
    rc = (int)rc;
    int found = -1; for (int i = 0; i < n; i++) if (a[s + i] == (unsigned long)(g_c & 0xff)) { found = i; break; }
    int nread = found >= 0 ? found + 1 : n;
    int declared = !(s + n <= d || s >= d + dmax);            /* dest object intersects the declared source extent */
    int WR = !(d + nread <= s || d >= s + nread);             /* written intersects read */
    int zone = d == s ? 2 : !declared ? 0 : WR ? 1 : 2;
    zone_cnt[zone]++;
    char znb[96]; snprintf(znb, sizeof znb, "%s%s%s", zone == 0 ? "disjoint" : zone == 1 ? "written-intersects-read" : d == s ? "identical-pointers" : "dest-object-touches-source",
                           g_c < 0 || g_c > 255 ? ",c-outside-unsigned-char" : "", bosmode ? ",object-sizes-known" : ""); const char *zn = znb;
    if (verbose) { printf("rc=%ld handler=%d(code %d) fault=%d zone=%s stop-at=%d\narena after :", rc, h_n, h_code, faulted, zn, found); for (int i = 0; i < M; i++) printf(" %02x", arena[i]); printf("\narena before:"); for (int i = 0; i < M; i++) printf(" %02lx", a[i]); printf("\n"); }
    if (faulted) { report(f, fault_w ? "write-past-arena" : "read-past-arena", zn, cs); return; }
    for (int i = 0; i < 64; i++) if (pre[i] != 0xEE) { report(f, "write-before-arena", zn, cs); return; }
    for (int i = 0; i < M; i++) if ((i < d || i >= d + dmax) && arena[i] != a[i]) { report(f, "write-outside-dest", zn, cs); return; }
    if (rc == 0) {
        if (d != s) for (int i = 0; i < nread; i++) if (arena[d + i] != a[s + i]) { report(f, "silently-corrupted-copy", zn, cs); return; }
        if (zone == 1) { report(f, "overlap-not-detected", zn, cs); return; }
    } else if (rc == 404) {
        if (zone == 0) { report(f, "disjoint-operands-rejected-as-overlapping", zn, cs); return; }
        for (int i = d; i < d + dmax; i++) if (arena[i] != 0) { report(f, "dest-not-cleared-on-overlap", zn, cs); return; }
    } else if (zone == 0 && found >= 0) { report(f, "disjoint-valid-call-failed", zn, cs); return; }
}

/* operands far apart: two mappings whose addresses differ by k * 4 GiB + r bytes (|r| up to a few elements): disjoint for every r, so every
 * copy function must succeed and store what it stores for neighbouring disjoint operands (distances are kept in 64 bits) */
static unsigned char *far_lo, *far_hi[2];
static int far_init(void) {
    for (unsigned long base = 0x200000000000UL; base < 0x600000000000UL; base += 0x10000000000UL) {
        far_lo = mmap((void *)base, 2 * PG, PROT_READ | PROT_WRITE, MAP_PRIVATE | MAP_ANONYMOUS | MAP_FIXED_NOREPLACE, -1, 0);
        if (far_lo == MAP_FAILED) continue;
        int ok = 1;
        for (int k = 0; k < 2; k++) { far_hi[k] = mmap((void *)(base + (k + 1) * 0x100000000UL), 2 * PG, PROT_READ | PROT_WRITE, MAP_PRIVATE | MAP_ANONYMOUS | MAP_FIXED_NOREPLACE, -1, 0); if (far_hi[k] == MAP_FAILED) ok = 0; }
        if (ok) return 0;
        munmap(far_lo, 2 * PG); for (int k = 0; k < 2; k++) if (far_hi[k] != MAP_FAILED) munmap(far_hi[k], 2 * PG);
    }
    return -1;
}
static long far_call(const Fn *f, unsigned char *D, long dmax_el, unsigned char *S, long len_el, int *errv) {
    long N = dmax_el * f->w / f->dunit;
    switch (f->fam) {
    case F_CPY: case F_CAT: return ((ufn)f->addr)((long)D, N, (long)S, BOSU, 0, 0, 0, 0);
    case F_NCPY: case F_NCAT: case F_MEM: case F_MOVE: return ((ufn)f->addr)((long)D, N, (long)S, len_el, BOSU, BOSU, 0, 0);
    case F_STP: ((ufn)f->addr)((long)D, N, (long)S, (long)errv, BOSU, BOSU, 0, 0); return *errv;
    case F_STPN: ((ufn)f->addr)((long)D, N, (long)S, len_el, (long)errv, BOSU, BOSU, 0); return *errv;
    case F_FLD: case F_FLDIN: case F_FLDOUT: return ((ufn)f->addr)((long)D, N, (long)S, len_el, BOSU, 0, 0, 0);
    case F_CCPY: return ((ufn)f->addr)((long)D, N, (long)S, 'e', len_el, BOSU, BOSU, 0);
    }
    return -1;
}
static void far_one(const Fn *f, int k, int dest_high, long r_el, int len_el) {
    int w = f->w; long dmax_el = len_el + 4;
    /* near reference: same contents, operands in one mapping, 64 elements apart */
    unsigned char nd[512], ns[512], *Dn = nd, *Sn = ns; int e1 = 0x5a5a, e2 = 0x5a5a;
    unsigned char *D = dest_high ? far_hi[k] + PG : far_lo + PG, *S = dest_high ? far_lo + PG : far_hi[k] + PG;
    if (dest_high) D += r_el * w; else S += r_el * w;          /* distance: (k+1) * 4 GiB + r */
    for (int pass = 0; pass < 2; pass++) { unsigned char *dd = pass ? D : Dn, *sp = pass ? S : Sn;
        memset(dd, 0x55, dmax_el * w); for (long i = 0; i < dmax_el; i++) es(sp, w, i, i < len_el ? 'a' + i : 0);
        if (f->fam == F_CAT || f->fam == F_NCAT) { es(dd, w, 0, 'X'); es(dd, w, 1, 0); } }
    char cs[200]; snprintf(cs, sizeof cs, "%s far %d %d %ld %d", f->name, k, dest_high, r_el, len_el);
    long rn, rf = 0; int faulted = 0; h_n = 0; n_cases++;
    rn = (int)far_call(f, Dn, dmax_el, Sn, len_el, &e1);
    if (sigsetjmp(jb, 1) == 0) { armed = 1; rf = (int)far_call(f, D, dmax_el, S, len_el, &e2); armed = 0; } else faulted = 1;
    char rel[96]; snprintf(rel, sizeof rel, "far-apart,%s,distance=%dx4GiB%s", dest_high ? "dest-above-src" : "dest-below-src", k + 1, r_el == 0 ? "" : r_el > 0 ? "+r" : "-r");
    if (verbose) printf("near: rc=%ld   far: rc=%ld handler=%d(code %d) fault=%d  dest=%p src=%p\n", rn, rf, h_n, h_code, faulted, (void *)D, (void *)S);
    if (faulted) { report(f, "fault", rel, cs); return; }
    if (rn != 0) return;                                        /* the layout itself is not a valid call for this function */
    if (rf == 404) { report(f, "disjoint-operands-rejected-as-overlapping", rel, cs); return; }
    if (rf != 0) { report(f, "disjoint-valid-call-failed", rel, cs); return; }
    if (memcmp(D, Dn, dmax_el * w)) report(f, "result-differs-from-the-same-copy-between-neighbouring-operands", rel, cs);
}

/* operands at low addresses (memory mapped at vm.mmap_min_addr; the static data of a non-PIE program is not far above): a count whose size in bytes
 * exceeds the numeric address of dest makes "dest - count" wrap below zero.  The same layout is run in ordinary memory; return value and the whole
 * region must agree. */
static unsigned char *low_area, *low_ref; static size_t low_sz;
static int low_init(void) {
    long minaddr = 65536; FILE *mf = fopen("/proc/sys/vm/mmap_min_addr", "r"); if (mf) { if (fscanf(mf, "%ld", &minaddr) != 1) minaddr = 65536; fclose(mf); }
    if (minaddr < 4096) minaddr = 4096;
    low_sz = 1 << 20;
    low_area = mmap((void *)minaddr, low_sz, PROT_READ | PROT_WRITE, MAP_PRIVATE | MAP_ANONYMOUS | MAP_FIXED_NOREPLACE, -1, 0);
    if (low_area == MAP_FAILED) return -1;
    low_ref = mmap(NULL, low_sz, PROT_READ | PROT_WRITE, MAP_PRIVATE | MAP_ANONYMOUS, -1, 0);
    return low_ref == MAP_FAILED ? -1 : 0;
}
static void low_one(const Fn *f, long r_el, int len_el) {
    int w = f->w; size_t span = (size_t)(3 * (size_t)len_el + 64) * w; if (span > low_sz) return;
    long doff = ((r_el < 0 ? -r_el : 0) + 16) * w, soff = doff + r_el * w;      /* dest as low as the layout allows */ if (soff < 0 || (size_t)soff + (size_t)len_el * w > span) return;
    char cs[200]; snprintf(cs, sizeof cs, "%s low %ld %d", f->name, r_el, len_el);
    long rr = 0, rl = 0; int faulted = 0, e1 = 0x5a5a, e2 = 0x5a5a; n_cases++;
    for (int pass = 0; pass < 2; pass++) { unsigned char *m = pass ? low_area : low_ref; for (size_t i = 0; i < span; i++) m[i] = (unsigned char)(i * 13 + (i >> 9) + 1); }
    h_n = 0; rr = (int)far_call(f, low_ref + doff, len_el, low_ref + soff, len_el, &e1); int hr = h_n;
    h_n = 0; if (sigsetjmp(jb, 1) == 0) { armed = 1; rl = (int)far_call(f, low_area + doff, len_el, low_area + soff, len_el, &e2); armed = 0; } else faulted = 1;
    long ar = r_el < 0 ? -r_el : r_el; char rel[96]; snprintf(rel, sizeof rel, "low-address,%s,%s", ar == 0 ? "same" : ar < len_el ? "overlapping" : "disjoint", r_el < 0 ? "src-below-dest" : "src-above-dest");
    if (verbose) printf("ordinary memory: rc=%ld handler=%d   at %p: rc=%ld handler=%d fault=%d\n", rr, hr, (void *)(low_area + doff), rl, h_n, faulted);
    if (faulted) { report(f, "fault", rel, cs); return; }
    if (rl != rr) { report(f, rr == 404 ? "overlap-not-reported" : rl == 404 ? "disjoint-operands-rejected-as-overlapping" : "outcome-differs-from-the-same-call-in-ordinary-memory", rel, cs); return; }
    if (memcmp(low_area, low_ref, span)) report(f, "result-differs-from-the-same-call-in-ordinary-memory", rel, cs);
}

/* long overlapping moves: every shift of src against dest in [-SH, +SH] bytes, every length up to LM bytes, every start alignment:
 * reaches the word loops, their unrolled blocks and the byte tails of the move primitives, which the small arena cannot */
static unsigned char *mv_area;
static void long_move(const Fn *f, int align, int shift_el, int len_el) {
    int w = f->w; long shift = (long)shift_el * w, len = (long)len_el * w;
    unsigned char *base = mv_area + 1024 + align;                /* dest */
    unsigned char *src = base + shift;
    unsigned char img[4096], exp[4096];
    for (int i = 0; i < 4096; i++) mv_area[i] = img[i] = (unsigned char)(i * 7 + 3);
    memcpy(exp, img, 4096); { unsigned char tmp[1024]; memcpy(tmp, img + (src - mv_area), len); memcpy(exp + (base - mv_area), tmp, len); }
    char cs[200]; snprintf(cs, sizeof cs, "%s move %d %d %d", f->name, align, shift_el, len_el);
    long rc = 0; int faulted = 0; h_n = 0; n_cases++;
    long N = len_el ? (f->dunit == 1 ? len : len_el) : 1;
    if (sigsetjmp(jb, 1) == 0) { armed = 1; rc = ((ufn)f->addr)((long)base, N, (long)src, (long)len_el, BOSU, BOSU, 0, 0); armed = 0; } else faulted = 1;
    rc = (int)rc;
    char rel[80]; snprintf(rel, sizeof rel, "long-move,%s,%s", shift == 0 ? "same-place" : shift > 0 ? (shift < len ? "src-above-dest-overlapping" : "src-above-dest-disjoint") : (-shift < len ? "src-below-dest-overlapping" : "src-below-dest-disjoint"), len >= 128 ? "len>=128" : len >= 16 ? "len>=16" : "short");
    if (verbose) printf("rc=%ld handler=%d fault=%d\n", rc, h_n, faulted);
    if (faulted) { report(f, "fault", rel, cs); return; }
    if (len_el == 0) return;                                    /* zero-length request: not judged */
    if (rc != 0) { report(f, "memmove-rejected", rel, cs); return; }
    if (memcmp(mv_area, exp, 4096)) { if (verbose) for (int i = 0; i < 4096; i++) if (mv_area[i] != exp[i]) { printf("first difference at dest%+ld: %02x instead of %02x\n", (long)(mv_area + i - base), mv_area[i], exp[i]); break; } report(f, "memmove-differs-from-copy-through-temporary", rel, cs); }
}

/* 16- and 32-bit operands that are not aligned to each other: src = dest + any number of bytes (two views into one byte buffer).  The memmove family must
 * still equal a copy through a temporary; the memcpy family must report every intersection of the two byte ranges, also one of less than an element */
static void byte_shift(const Fn *f, long shb, int len_el) {
    int w = f->w; long len = (long)len_el * w;
    unsigned char *base = mv_area + 1024;                /* dest, aligned */
    unsigned char *src = base + shb;
    unsigned char img[4096], exp[4096];
    for (int i = 0; i < 4096; i++) mv_area[i] = img[i] = (unsigned char)(i * 7 + 3);
    memcpy(exp, img, 4096); { unsigned char tmp[256]; memcpy(tmp, img + (src - mv_area), len); memcpy(exp + (base - mv_area), tmp, len); }
    char cs[200]; snprintf(cs, sizeof cs, "%s bytes %ld %d -", f->name, shb, len_el);
    long rc = 0; int faulted = 0; h_n = 0; n_cases++;
    long N = f->dunit == 1 ? len : len_el;
    if (sigsetjmp(jb, 1) == 0) { armed = 1; rc = ((ufn)f->addr)((long)base, N, (long)src, (long)len_el, BOSU, BOSU, 0, 0); armed = 0; } else faulted = 1;
    rc = (int)rc;
    int inter = shb != 0 && shb < len && -shb < len;
    char rel[96]; snprintf(rel, sizeof rel, "byte-shift,%s,%s", shb % w ? "operands-misaligned-to-each-other" : "element-aligned", shb == 0 ? "same-place" : inter ? ((shb < 0 ? -shb : shb) > len - w ? "ranges-intersect-by-less-than-an-element" : "ranges-intersect") : "disjoint");
    if (verbose) printf("rc=%ld handler=%d fault=%d (%s)\n", rc, h_n, faulted, rel);
    if (faulted) { report(f, "fault", rel, cs); return; }
    if (f->fam == F_MOVE) {
        if (rc != 0) { report(f, "memmove-rejected", rel, cs); return; }
        if (memcmp(mv_area, exp, 4096)) report(f, "memmove-differs-from-copy-through-temporary", rel, cs);
        return;
    }
    if (shb == 0) return;                                 /* identical pointers: either outcome (the arena pass judges them) */
    if (inter) {
        if (rc == 0) { report(f, memcmp(mv_area, exp, 4096) ? "silently-corrupted-copy" : "overlap-not-detected", rel, cs); return; }
        for (long i = 0; i < 4096; i++) if ((mv_area + i < base || mv_area + i >= base + len) && mv_area[i] != img[i] && !(mv_area + i >= src && mv_area + i < src + len)) { report(f, "write-outside-dest", rel, cs); return; }
    } else {
        if (rc == 404) { report(f, "disjoint-operands-rejected-as-overlapping", rel, cs); return; }
        if (rc != 0) { report(f, "disjoint-valid-call-failed", rel, cs); return; }
        if (memcmp(mv_area, exp, 4096)) report(f, "silently-corrupted-copy", rel, cs);
    }
}

int main(int argc, char **argv) {
    setvbuf(stdout, NULL, _IOLBF, 0);
    void *L = dlopen(getenv("CAT_LIB"), RTLD_NOW | RTLD_GLOBAL);
    if (!L) { fprintf(stderr, "cannot load CAT_LIB\n"); return 2; }
    for (int i = 0; i < NF; i++) { char sym[64]; snprintf(sym, sizeof sym, "_%s_chk", fns[i].name); fns[i].addr = dlsym(L, sym); if (!fns[i].addr) { fprintf(stderr, "missing %s\n", sym); return 2; } }
    void *(*ss)(void *) = dlsym(L, "set_str_constraint_handler_s"), *(*sm)(void *) = dlsym(L, "set_mem_constraint_handler_s");
    ss((void *)handler); sm((void *)handler);
    mv_area = mmap(NULL, 4096, PROT_READ | PROT_WRITE, MAP_PRIVATE | MAP_ANONYMOUS, -1, 0);
    page = mmap(NULL, 4 * PG, PROT_NONE, MAP_PRIVATE | MAP_ANONYMOUS, -1, 0); mprotect(page + PG, 2 * PG, PROT_READ | PROT_WRITE);
    static char alt[1 << 15]; stack_t sst = { .ss_sp = alt, .ss_size = sizeof alt }; sigaltstack(&sst, NULL);
    struct sigaction sa; memset(&sa, 0, sizeof sa); sa.sa_sigaction = on_segv; sa.sa_flags = SA_SIGINFO | SA_ONSTACK | SA_NODEFER; sigaction(SIGSEGV, &sa, NULL);
    if (argc >= 6 && !strcmp(argv[1], "replay")) {
        verbose = 1; const Fn *f = NULL; for (int i = 0; i < NF; i++) if (!strcmp(fns[i].name, argv[2])) f = &fns[i];
        if (!f) return 2;
        if (!strcmp(argv[3], "bytes")) { byte_shift(f, atol(argv[4]), atoi(argv[5])); }
        else if (!strcmp(argv[3], "move")) { long_move(f, atoi(argv[4]), atoi(argv[5]), atoi(argv[6])); }
        else if (!strcmp(argv[3], "low")) { if (low_init()) { printf("cannot map memory at the lowest permitted address\n"); return 2; } low_one(f, atol(argv[4]), atoi(argv[5])); }
        else if (!strcmp(argv[3], "far")) { if (far_init()) { printf("cannot place the mappings\n"); return 2; } far_one(f, atoi(argv[4]), atoi(argv[5]), atol(argv[6]), atoi(argv[7])); }
        else if (f->fam == F_CCPY) { bosmode = atoi(argv[9]); g_c = atol(argv[10]); one_ccpy(f, atoi(argv[3]), strtoul(argv[4], 0, 10), atoi(argv[5]), atoi(argv[6]), atoi(argv[7]), atoi(argv[8])); }
        else { bosmode = argc > 9 ? atoi(argv[9]) : 0; one(f, atoi(argv[3]), strtoul(argv[4], 0, 10), atoi(argv[5]), atoi(argv[6]), atoi(argv[7]), atoi(argv[8])); }
        if (nsig) { printf("VERDICT violation %s\n", sigs[0]); return 1; }
        printf("VERDICT ok\n"); return 0;
    }
    if (argc < 5) return 2;
    if (!strcmp(argv[1], "bytes")) {            /* bytes <maxlen_el> <shard> <n> */
        int LM = atoi(argv[2]); long shard = atol(argv[3]), nsh = atol(argv[4]); long idx = 0;
        for (int fi = 0; fi < NF; fi++) { const Fn *f = &fns[fi]; if ((f->fam != F_MOVE && f->fam != F_MEM) || f->w == 1) continue;
            for (int len = 1; len <= LM; len++) { if ((idx++ % nsh) != shard) continue; for (long shb = -(long)len * f->w - 5; shb <= (long)len * f->w + 5; shb++) byte_shift(f, shb, len); } }
        for (int i = 0; i < nsig; i++) printf("{\"t\":\"viol\",\"sig\":\"%s\",\"n\":%ld,\"case\":\"%s\"}\n", sigs[i], sigcnt[i], sigcase[i]);
        printf("{\"t\":\"stat\",\"layouts\":%ld,\"zone_disjoint\":0,\"zone_must_report\":0,\"zone_either\":0,\"dest_unterminated\":0,\"violating\":%ld}\n", n_cases, n_viol);
        return 0;
    }
    if (!strcmp(argv[1], "low")) {              /* low <unused> <shard> <n> */
        long shard = atol(argv[3]), nsh = atol(argv[4]); long idx = 0;
        if (low_init()) { fprintf(stderr, "cannot map memory at the lowest permitted address\n"); return 2; }
        static const int LEN[] = { 3, 300, 1100, 2048, 5000, 40000 };
        for (int fi = 0; fi < NF; fi++) { const Fn *f = &fns[fi]; if (f->fam != F_MEM && f->fam != F_MOVE) continue;
            for (int li = 0; li < 6; li++) { int len = LEN[li]; if ((idx++ % nsh) != shard) continue;
                long rs[] = { 0, 1, 2, len / 2, len - 1, len, len + 1, len + 7 };
                for (int ri = 0; ri < 8; ri++) for (int sg = 0; sg < 2; sg++) { if (!rs[ri] && sg) continue; low_one(f, sg ? -rs[ri] : rs[ri], len); } } }
        for (int i = 0; i < nsig; i++) printf("{\"t\":\"viol\",\"sig\":\"%s\",\"n\":%ld,\"case\":\"%s\"}\n", sigs[i], sigcnt[i], sigcase[i]);
        printf("{\"t\":\"stat\",\"layouts\":%ld,\"zone_disjoint\":0,\"zone_must_report\":0,\"zone_either\":0,\"dest_unterminated\":0,\"violating\":%ld}\n", n_cases, n_viol);
        return 0;
    }
    if (!strcmp(argv[1], "far")) {              /* far <maxlen_el> <shard> <n> */
        int LM = atoi(argv[2]); long shard = atol(argv[3]), nsh = atol(argv[4]); long idx = 0;
        if (far_init()) { fprintf(stderr, "cannot place mappings 4 GiB apart\n"); return 2; }
        for (int fi = 0; fi < NF; fi++) { const Fn *f = &fns[fi];
            for (int k = 0; k < 2; k++) for (int hi = 0; hi < 2; hi++) for (long r = -(LM + 6); r <= LM + 6; r++) { if ((idx++ % nsh) != shard) continue;
                for (int len = 1; len <= LM; len++) far_one(f, k, hi, r, len); } }
        for (int i = 0; i < nsig; i++) printf("{\"t\":\"viol\",\"sig\":\"%s\",\"n\":%ld,\"case\":\"%s\"}\n", sigs[i], sigcnt[i], sigcase[i]);
        printf("{\"t\":\"stat\",\"layouts\":%ld,\"zone_disjoint\":%ld,\"zone_must_report\":0,\"zone_either\":0,\"dest_unterminated\":0,\"violating\":%ld}\n", n_cases, n_cases, n_viol);
        return 0;
    }
    if (!strcmp(argv[1], "moves")) {            /* moves <maxlen_bytes> <shard> <n> */
        int LM = atoi(argv[2]); long shard = atol(argv[3]), nsh = atol(argv[4]); long idx = 0;
        for (int fi = 0; fi < NF; fi++) { const Fn *f = &fns[fi]; if (f->fam != F_MOVE) continue; int w = f->w;
            for (int align = 0; align < 8; align += (w == 1 ? 1 : w)) for (int sh = -136 / w; sh <= 136 / w; sh++) { if ((idx++ % nsh) != shard) continue;
                for (int len = 0; len <= LM / w; len++) long_move(f, align, sh, len); } }
        for (int i = 0; i < nsig; i++) printf("{\"t\":\"viol\",\"sig\":\"%s\",\"n\":%ld,\"case\":\"%s\"}\n", sigs[i], sigcnt[i], sigcase[i]);
        printf("{\"t\":\"stat\",\"layouts\":%ld,\"zone_disjoint\":0,\"zone_must_report\":0,\"zone_either\":0,\"dest_unterminated\":0,\"violating\":%ld}\n", n_cases, n_viol);
        return 0;
    }
    int M = atoi(argv[2]); long shard = atol(argv[3]), nsh = atol(argv[4]);
    long idx = 0;
    for (int fi = 0; fi < NF; fi++) {
        if (strcmp(argv[1], "all") && strcmp(argv[1], fns[fi].name)) continue;
        const Fn *f = &fns[fi];
        int uses_len = !(f->fam == F_CPY || f->fam == F_CAT || f->fam == F_STP);
        for (unsigned bits = 0; bits < (1u << M); bits++) {
            if ((idx++ % nsh) != shard) continue;
            for (int d = 0; d < M; d++) for (int dmax = 1; d + dmax <= M; dmax++) for (int s = 0; s < M; s++)
                for (int slen = uses_len ? 1 : 0; slen <= (uses_len ? M : 0); slen++)
                    for (bosmode = 0; bosmode < 2; bosmode++) {
                        if (f->fam != F_CCPY) { one(f, M, bits, d, dmax, s, slen); continue; }
                        /* stop characters: every value present in the arena, one absent, the terminator, and two values outside unsigned char whose low byte is present */
                        for (int ci = 0; ci < M + 4; ci++) { g_c = ci < M ? 'a' + ci : ci == M ? 'z' : ci == M + 1 ? 0 : ci == M + 2 ? 0x100 + 'a' + (s % M) : ('a' + ((s + 1) % M)) - 256;
                            if (ci < M && !((bits >> ci) & 1)) continue;
                            one_ccpy(f, M, bits, d, dmax, s, slen); } }
        }
    }
    for (int i = 0; i < nsig; i++) printf("{\"t\":\"viol\",\"sig\":\"%s\",\"n\":%ld,\"case\":\"%s\"}\n", sigs[i], sigcnt[i], sigcase[i]);
    printf("{\"t\":\"stat\",\"layouts\":%ld,\"zone_disjoint\":%ld,\"zone_must_report\":%ld,\"zone_either\":%ld,\"dest_unterminated\":%ld,\"violating\":%ld}\n", n_cases, zone_cnt[0], zone_cnt[1], zone_cnt[2], zone_cnt[3], n_viol);
    return 0;
}
