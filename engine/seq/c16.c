/* c16.c - C16 qsort_s / bsearch_s: all arrays over keys {0,1,2} up to nmemb N x element sizes, exact-fit
 * guarded arrays, checking comparator (pointer bounds, alignment, context), permutation+order oracle,
 * bsearch_s on every sorted array x every key; structured families up to nmemb 200; thorough: all
 * permutations of 0..7.
 * usage: c16 <N> <perms 0|1> <shard> <nshards> | c16 replay <kind> <size> <nmemb> <hexkeys> [key]   env CAT_LIB */
#define _GNU_SOURCE
#include <stdio.h>
#include <stdlib.h>
#include <string.h>
#include <errno.h>
#include <signal.h>
#include <setjmp.h>
#include <sys/mman.h>
#include <dlfcn.h>
#include <stdint.h>

#define PG 4096UL
typedef int (*cmp_t)(const void *, const void *, void *);
static int (*qs)(void *, size_t, size_t, cmp_t, void *, size_t);
static void *(*bs)(const void *, const void *, size_t, size_t, cmp_t, void *, size_t);
static unsigned char *arena; static size_t asz = 64 * PG;
static sigjmp_buf jb; static volatile int armed;
static void on_segv(int s) { (void)s; if (!armed) _exit(3); armed = 0; siglongjmp(jb, 1); }
static int time_limit = 600; static void on_alarm(int s) { (void)s; if (!armed) return; armed = 0; siglongjmp(jb, 2); }

static unsigned char *base; static size_t g_n, g_sz; static int ctx_cookie; static const void *g_key;
static int bad_ptr, bad_ctx; static long ncmp;
static int in_array(const void *p) { const unsigned char *q = p; return q >= base && q < base + g_n * g_sz && (size_t)(q - base) % g_sz == 0; }
static int cmp_sort(const void *a, const void *b, void *c) {
    ncmp++; if (c != &ctx_cookie) bad_ctx = 1;
    if (!in_array(a) || !in_array(b)) { bad_ptr = 1; return 0; }
    errno = ERANGE;      /* a consistent comparator may have side effects on errno (strtol saturating while parsing a key) */
    return (int)*(const unsigned char *)a - (int)*(const unsigned char *)b;
}
static int cmp_search(const void *k, const void *e, void *c) {
    ncmp++; if (c != &ctx_cookie) bad_ctx = 1;
    if (k != g_key) bad_ptr = 1;
    if (!in_array(e)) { bad_ptr = 1; return 0; }
    errno = ERANGE;
    return (int)*(const unsigned char *)k - (int)*(const unsigned char *)e;
}
static char sigs[32][160], sigcase[32][400]; static long sigcnt[32]; static int nsig; static long n_arrays, n_searches, n_viol, n_cmp;
static void report(const char *sig, const char *cs) {
    n_viol++;
    for (int i = 0; i < nsig; i++) if (!strcmp(sigs[i], sig)) { sigcnt[i]++; return; }
    if (nsig < 32) { strncpy(sigs[nsig], sig, 159); strncpy(sigcase[nsig], cs, 399); sigcnt[nsig] = 1; nsig++; }
}
static const char *szclass(size_t sz, char *b) { sprintf(b, sz < 256 ? "size<256" : sz == 256 ? "size=256" : "size>256"); return b; }
static int verbose;
static int g_known;      /* 1: the array's size in bytes is passed as the object size the compiler would know */

/* keys[]: nmemb key bytes. returns 0 ok */
static void do_sort(const unsigned char *keys, size_t n, size_t sz, const char *kind) {
    char cs[400], hx[420] = "", sig[160], sb[32];
    for (size_t i = 0; i < n && i < 200; i++) sprintf(hx + 2 * i, "%02x", keys[i]);
    snprintf(cs, sizeof cs, "%s %zu %zu %s", g_known ? "sortk" : "sort", sz, n, n ? hx : "-");
    size_t bytes = n * sz; if (bytes > asz - 2 * PG) return;
    base = arena + asz - PG - bytes;            /* flush against the trailing guard; exact fit */
    g_n = n; g_sz = sz;
    memset(arena + PG, 0xEE, asz - 2 * PG - bytes);
    for (size_t i = 0; i < n; i++) { unsigned char *e = base + i * sz; e[0] = keys[i]; for (size_t k = 1; k < sz; k++) e[k] = (unsigned char)(i * 7 + k * 13 + 1); }
    unsigned char *before = malloc(bytes + 1); memcpy(before, base, bytes);
    bad_ptr = bad_ctx = ncmp = 0; n_arrays++;
    int rc = 0, faulted = 0;
    if (sigsetjmp(jb, 1) == 0) { armed = 1; rc = qs(base, n, sz, cmp_sort, &ctx_cookie, g_known ? bytes : (size_t)-1); armed = 0; } else faulted = 1;
    n_cmp += ncmp;
    if (verbose) { printf("qsort_s rc=%d fault=%d comparisons=%d keys after:", rc, faulted, (int)ncmp); for (size_t i = 0; i < n; i++) printf(" %d", base[i * sz]); printf("\n"); }
    if (faulted) { snprintf(sig, sizeof sig, "C16|qsort_s|access-outside-array|%s", szclass(sz, sb)); report(sig, cs); free(before); return; }
    if (rc != 0) { snprintf(sig, sizeof sig, "C16|qsort_s|fails-on-valid-array|rc%d", rc); report(sig, cs); free(before); return; }
    if (bad_ptr) { snprintf(sig, sizeof sig, "C16|qsort_s|comparator-got-foreign-pointer|%s", szclass(sz, sb)); report(sig, cs); }
    if (bad_ctx) { snprintf(sig, sizeof sig, "C16|qsort_s|context-not-passed|%s", szclass(sz, sb)); report(sig, cs); }
    for (size_t i = 1; i < n; i++) if (base[(i - 1) * sz] > base[i * sz]) { snprintf(sig, sizeof sig, "C16|qsort_s|not-sorted|%s|%s", szclass(sz, sb), kind); report(sig, cs); break; }
    /* permutation: every original element (all bytes) occurs exactly once */
    unsigned char *used = calloc(n + 1, 1); int perm = 1;
    for (size_t i = 0; i < n && perm; i++) { int f = 0; for (size_t j = 0; j < n; j++) if (!used[j] && !memcmp(base + i * sz, before + j * sz, sz)) { used[j] = 1; f = 1; break; } if (!f) perm = 0; }
    if (!perm) { snprintf(sig, sizeof sig, "C16|qsort_s|not-a-permutation|%s|%s", szclass(sz, sb), kind); report(sig, cs); }
    for (size_t k = 0; k < asz - 2 * PG - bytes; k++) if (arena[PG + k] != 0xEE) { snprintf(sig, sizeof sig, "C16|qsort_s|write-before-array|%s", szclass(sz, sb)); report(sig, cs); break; }
    free(used); free(before);
}
static void do_search(const unsigned char *sorted, size_t n, size_t sz, int key) {
    char cs[400], hx[420] = "", sig[160], sb[32];
    for (size_t i = 0; i < n && i < 200; i++) sprintf(hx + 2 * i, "%02x", sorted[i]);
    snprintf(cs, sizeof cs, "%s %zu %zu %s %d", g_known ? "searchk" : "search", sz, n, n ? hx : "-", key);
    size_t bytes = n * sz; if (bytes > asz - 4 * PG) return;
    base = arena + asz - PG - bytes; g_n = n; g_sz = sz;
    for (size_t i = 0; i < n; i++) { unsigned char *e = base + i * sz; e[0] = sorted[i]; for (size_t k = 1; k < sz; k++) e[k] = (unsigned char)(i * 7 + k); }
    /* a stale matching element right before the array: must never be returned or compared */
    if ((size_t)(base - (arena + PG)) >= sz) { base[-(long)sz] = key; }
    static unsigned char keyobj[600]; keyobj[0] = key; g_key = keyobj;
    bad_ptr = bad_ctx = ncmp = 0; n_searches++;
    void *r = NULL; int faulted = 0;
    if (sigsetjmp(jb, 1) == 0) { armed = 1; r = bs(keyobj, base, n, sz, cmp_search, &ctx_cookie, g_known ? bytes : (size_t)-1); armed = 0; } else faulted = 1;
    n_cmp += ncmp;
    int exists = 0; for (size_t i = 0; i < n; i++) if (sorted[i] == key) exists = 1;
    if (verbose) printf("bsearch_s -> %s (index %ld) fault=%d comparisons=%d exists=%d\n", r ? "found" : "NULL", r ? (long)(((unsigned char *)r - base) / (long)sz) : -1L, faulted, (int)ncmp, exists);
    if (faulted) { snprintf(sig, sizeof sig, "C16|bsearch_s|access-outside-array|%s", szclass(sz, sb)); report(sig, cs); return; }
    if (bad_ptr) { snprintf(sig, sizeof sig, "C16|bsearch_s|comparator-got-foreign-pointer|%s", szclass(sz, sb)); report(sig, cs); }
    if (bad_ctx) { snprintf(sig, sizeof sig, "C16|bsearch_s|context-not-passed|%s", szclass(sz, sb)); report(sig, cs); }
    if (exists && !r) { snprintf(sig, sizeof sig, "C16|bsearch_s|present-key-not-found|%s", szclass(sz, sb)); report(sig, cs); }
    if (!exists && r && n) { snprintf(sig, sizeof sig, "C16|bsearch_s|absent-key-found|%s", szclass(sz, sb)); report(sig, cs); }
    if (r && n && (!in_array(r) || *(unsigned char *)r != key)) { snprintf(sig, sizeof sig, "C16|bsearch_s|returned-non-matching-or-outside|%s", szclass(sz, sb)); report(sig, cs); }
}

/* ---- nested use: the comparator of the outer sort itself sorts another array (other element size) before answering */
static size_t in_sz; static unsigned char inner[5 * 600]; static int inner_bad, nest_every;
static int cmp_inner(const void *a, const void *b, void *c) { if (c != inner) inner_bad |= 2; return (int)*(const unsigned char *)a - (int)*(const unsigned char *)b; }
static int cmp_nest(const void *a, const void *b, void *c) {
    ncmp++; if (c != &ctx_cookie) bad_ctx = 1;
    if (!in_array(a) || !in_array(b)) { bad_ptr = 1; return 0; }
    if (nest_every == 1 || ncmp == nest_every) {
        static const unsigned char IK[5] = { 4, 1, 3, 0, 2 };
        for (int i = 0; i < 5; i++) memset(inner + i * in_sz, IK[i], in_sz);
        if (qs(inner, 5, in_sz, cmp_inner, inner, (size_t)-1) != 0) inner_bad |= 1;
        for (int i = 0; i < 5; i++) for (size_t k = 0; k < in_sz; k++) if (inner[i * in_sz + k] != i) inner_bad |= 4;
    }
    return (int)*(const unsigned char *)a - (int)*(const unsigned char *)b;
}
static void do_nested(const unsigned char *keys, size_t n, size_t sz, size_t isz, int every) {
    char cs[400], hx[420] = "", sig[160];
    for (size_t i = 0; i < n && i < 200; i++) sprintf(hx + 2 * i, "%02x", keys[i]);
    snprintf(cs, sizeof cs, "nested %zu %zu %s %zu %d", sz, n, n ? hx : "-", isz, every);
    size_t bytes = n * sz; base = arena + asz - PG - bytes; g_n = n; g_sz = sz; in_sz = isz; nest_every = every; inner_bad = 0;
    for (size_t i = 0; i < n; i++) { unsigned char *e = base + i * sz; e[0] = keys[i]; for (size_t k = 1; k < sz; k++) e[k] = (unsigned char)(i * 7 + k * 13 + 1); }
    unsigned char *before = malloc(bytes + 1); memcpy(before, base, bytes);
    bad_ptr = bad_ctx = ncmp = 0; n_arrays++;
    int rc = 0, faulted = 0;
    if (sigsetjmp(jb, 1) == 0) { armed = 1; rc = qs(base, n, sz, cmp_nest, &ctx_cookie, (size_t)-1); armed = 0; } else faulted = 1;
    n_cmp += ncmp;
    const char *rel = sz == isz ? "same-size" : sz < isz ? "inner-larger" : "inner-smaller";
    if (verbose) { printf("qsort_s (comparator sorts 5 x %zu bytes %s) rc=%d fault=%d comparisons=%d inner_bad=%d keys after:", isz, every == 1 ? "in every call" : "in one call", rc, faulted, (int)ncmp, inner_bad); for (size_t i = 0; i < n; i++) printf(" %d", base[i * sz]); printf("\n"); }
    if (faulted) { snprintf(sig, sizeof sig, "C16|qsort_s|nested:access-outside-array|%s", rel); report(sig, cs); free(before); return; }
    if (rc != 0) { snprintf(sig, sizeof sig, "C16|qsort_s|nested:fails-on-valid-array|rc%d", rc); report(sig, cs); free(before); return; }
    if (inner_bad) { snprintf(sig, sizeof sig, "C16|qsort_s|nested:inner-sort-wrong|%s", rel); report(sig, cs); }
    if (bad_ptr) { snprintf(sig, sizeof sig, "C16|qsort_s|nested:comparator-got-foreign-pointer|%s", rel); report(sig, cs); }
    if (bad_ctx) { snprintf(sig, sizeof sig, "C16|qsort_s|nested:context-not-passed|%s", rel); report(sig, cs); }
    for (size_t i = 1; i < n; i++) if (base[(i - 1) * sz] > base[i * sz]) { snprintf(sig, sizeof sig, "C16|qsort_s|nested:not-sorted|%s", rel); report(sig, cs); break; }
    unsigned char *used = calloc(n + 1, 1); int perm = 1;
    for (size_t i = 0; i < n && perm; i++) { int f = 0; for (size_t j = 0; j < n; j++) if (!used[j] && !memcmp(base + i * sz, before + j * sz, sz)) { used[j] = 1; f = 1; break; } if (!f) perm = 0; }
    if (!perm) { snprintf(sig, sizeof sig, "C16|qsort_s|nested:not-a-permutation|%s", rel); report(sig, cs); }
    free(used); free(before);
}

/* ---- large arrays: element = key byte + 32-bit original index (5 bytes); families chosen by the shape of the Leonardo heap */
static unsigned char big_key(int fam, size_t i, size_t n, size_t p) {
    switch (fam) {
    case 0: return (unsigned char)(i * 250 / n);                 /* ascending */
    case 1: return (unsigned char)(249 - i * 250 / n);           /* descending */
    case 2: return 7;                                            /* all equal */
    case 3: return i == p ? 0 : 1;                               /* one minimum at p */
    case 4: return i == p ? 2 : 1;                               /* one maximum at p */
    case 5: return (unsigned char)(i & 1);                       /* two values */
    case 6: return (unsigned char)((i * 2654435761u) >> 24);     /* scrambled */
    default: return (unsigned char)(i < n / 2 ? i * 500 / n : (n - 1 - i) * 500 / n);   /* organ pipe */
    }
}
static int cmp_big(const void *a, const void *b, void *c) {
    ncmp++; if (c != &ctx_cookie) bad_ctx = 1;
    if (!in_array(a) || !in_array(b)) { bad_ptr = 1; return 0; }
    return (int)*(const unsigned char *)a - (int)*(const unsigned char *)b;
}
static void do_big_child(size_t n, int fam, size_t p) {
    static const char *FN[] = { "ascending", "descending", "all-equal", "one-minimum", "one-maximum", "two-value", "scrambled", "organ-pipe" };
    char cs[200], sig[160]; snprintf(cs, sizeof cs, "big %zu %d %zu", n, fam, p);
    size_t bytes = n * 5, span = (bytes + PG - 1) / PG * PG;
    unsigned char *m = mmap(NULL, span + 2 * PG, PROT_READ | PROT_WRITE, MAP_PRIVATE | MAP_ANONYMOUS, -1, 0); if (m == MAP_FAILED) { fprintf(stderr, "mmap failed\n"); exit(2); }
    mprotect(m, PG, PROT_NONE); mprotect(m + PG + span, PG, PROT_NONE);
    base = m + PG + span - bytes; g_n = n; g_sz = 5; memset(m + PG, 0xEE, span - bytes);
    for (size_t i = 0; i < n; i++) { unsigned char *e = base + i * 5; e[0] = big_key(fam, i, n, p); e[1] = i; e[2] = i >> 8; e[3] = i >> 16; e[4] = i >> 24; }
    bad_ptr = bad_ctx = 0; long long nc0 = 0; ncmp = 0; n_arrays++;
    int rc = 0, faulted = 0;
    int how = sigsetjmp(jb, 1);
    if (how == 0) { armed = 1; alarm(time_limit); rc = qs(base, n, 5, cmp_big, &ctx_cookie, (size_t)-1); armed = 0; alarm(0); } else faulted = how;
    (void)nc0; n_cmp += ncmp;
    if (verbose) printf("qsort_s nmemb=%zu family=%s p=%zu rc=%d fault=%d\n", n, FN[fam], p, rc, faulted);
    if (faulted == 2) { snprintf(sig, sizeof sig, "C16|qsort_s|large:does-not-return|%s", FN[fam]); report(sig, cs); munmap(m, span + 2 * PG); return; }   /* the slowest family takes well under a minute at these sizes; the limit is 10 times that */
    if (faulted) { snprintf(sig, sizeof sig, "C16|qsort_s|large:access-outside-array|%s", FN[fam]); report(sig, cs); munmap(m, span + 2 * PG); return; }
    if (rc != 0) { snprintf(sig, sizeof sig, "C16|qsort_s|large:fails-on-valid-array|rc%d", rc); report(sig, cs); munmap(m, span + 2 * PG); return; }
    if (bad_ptr) { snprintf(sig, sizeof sig, "C16|qsort_s|large:comparator-got-foreign-pointer|%s", FN[fam]); report(sig, cs); }
    if (bad_ctx) { snprintf(sig, sizeof sig, "C16|qsort_s|large:context-not-passed|%s", FN[fam]); report(sig, cs); }
    for (size_t i = 1; i < n; i++) if (base[(i - 1) * 5] > base[i * 5]) { snprintf(sig, sizeof sig, "C16|qsort_s|large:not-sorted|%s", FN[fam]); report(sig, cs); break; }
    unsigned char *seen = calloc(n / 8 + 1, 1); int perm = 1;
    for (size_t i = 0; i < n; i++) { unsigned char *e = base + i * 5; size_t o = e[1] | (size_t)e[2] << 8 | (size_t)e[3] << 16 | (size_t)e[4] << 24; if (o >= n || (seen[o / 8] >> (o % 8) & 1) || e[0] != big_key(fam, o, n, p)) { perm = 0; break; } seen[o / 8] |= 1 << (o % 8); }
    if (!perm) { snprintf(sig, sizeof sig, "C16|qsort_s|large:not-a-permutation|%s", FN[fam]); report(sig, cs); }
    for (size_t k = 0; k < span - bytes; k++) if (m[PG + k] != 0xEE) { snprintf(sig, sizeof sig, "C16|qsort_s|large:write-before-array|%s", FN[fam]); report(sig, cs); break; }
    free(seen); munmap(m, span + 2 * PG);
}
/* one large sort per forked child: a call that corrupts its own stack ends the child (abort, fault outside the armed window), which is a verdict, not a harness failure */
#include <sys/wait.h>
static void do_big(size_t n, int fam, size_t p) {
    static const char *FN[] = { "ascending", "descending", "all-equal", "one-minimum", "one-maximum", "two-value", "scrambled", "organ-pipe" };
    int pf[2]; if (pipe(pf)) exit(2);
    fflush(stdout); pid_t pid = fork(); if (pid < 0) exit(2);
    if (pid == 0) { close(pf[0]); nsig = 0; do_big_child(n, fam, p); fflush(stdout); if (nsig) write(pf[1], sigs[0], strlen(sigs[0])); _exit(0); }
    close(pf[1]); char got[200] = ""; ssize_t r = read(pf[0], got, sizeof got - 1); if (r > 0) got[r] = 0; close(pf[0]);
    int st = 0; waitpid(pid, &st, 0); n_arrays++;
    char cs[200], sig[200]; snprintf(cs, sizeof cs, "big %zu %d %zu", n, fam, p);
    if (got[0]) report(got, cs);
    else if (!WIFEXITED(st) || WEXITSTATUS(st) != 0) { snprintf(sig, sizeof sig, "C16|qsort_s|large:call-ends-the-process|%s", FN[fam]); if (verbose) printf("child status %#x\n", st); report(sig, cs); }
}
static int cmp_uc(const void *a, const void *b) { return (int)*(const unsigned char *)a - (int)*(const unsigned char *)b; }

/* element counts and sizes that are not true: above the documented limit, or with a product that does not fit a size_t and
 * wraps to something small.  The array is 10 four-byte elements; with the object size unknown and with it known (40 bytes).
 * Every such call must be refused and reported exactly once, and the comparator must not be called at all. */
static int lh_n; static void lim_handler(const char *m, void *p, int e) { (void)m; (void)p; (void)e; lh_n++; }
static void *(*set_mem_h)(void *); static void *(*set_str_h)(void *);
static void do_limits(void) {
    static const size_t NS[][2] = { { ((size_t)1 << 61) + 1, 8 }, { ((size_t)1 << 62) + 1, 4 }, { ((size_t)1 << 63) + 5, 2 }, { (size_t)-1 / 4 + 3, 4 }, { (size_t)-1, 4 }, { (size_t)-1, (size_t)-1 },
        { (size_t)1 << 32, (size_t)1 << 32 }, { (size_t)1 << 63, 2 }, { (256UL << 20) + 1, 4 }, { 3, (256UL << 20) + 1 }, { (size_t)1 << 40, 4 }, { 11, 4 }, { 10, 5 } };
    if (!set_mem_h || !set_str_h) return;
    set_mem_h((void *)lim_handler); set_str_h((void *)lim_handler);
    for (int fn = 0; fn < 2; fn++) for (int known = 0; known < 2; known++) for (unsigned i = 0; i < sizeof NS / sizeof NS[0]; i++) {
        size_t n = NS[i][0], sz = NS[i][1]; char cs[200], sig[160];
        if (!known && i >= 11) continue;      /* the last two are wrong only against the known size of the object */
        snprintf(cs, sizeof cs, "limits %d %d %u", fn, known, i);
        base = arena + asz - PG - 40; g_n = 10; g_sz = 4; for (int k = 0; k < 10; k++) { memset(base + 4 * k, 0, 4); base[4 * k] = k; }
        static unsigned char keyobj[8]; keyobj[0] = 7; g_key = keyobj;
        bad_ptr = bad_ctx = ncmp = 0; lh_n = 0; n_arrays++;
        int rc = 0, faulted = 0; void *r = NULL; errno = 0;
        if (sigsetjmp(jb, 1) == 0) { armed = 1; alarm(20); if (fn == 0) rc = qs(base, n, sz, cmp_sort, &ctx_cookie, known ? 40 : (size_t)-1); else r = bs(keyobj, base, n, sz, cmp_search, &ctx_cookie, known ? 40 : (size_t)-1); alarm(0); armed = 0; } else { alarm(0); faulted = 1; }
        const char *f = fn ? "bsearch_s" : "qsort_s", *kn = known ? "object-size-known" : "object-size-unknown";
        if (verbose) printf("%s nmemb=%zu size=%zu %s: rc=%d r=%p errno=%d fault=%d comparisons=%ld handler=%d\n", f, n, sz, kn, rc, r, errno, faulted, ncmp, lh_n);
        if (faulted) { snprintf(sig, sizeof sig, "C16|%s|limits:access-outside-array|%s", f, kn); report(sig, cs); continue; }
        if (ncmp) { snprintf(sig, sizeof sig, "C16|%s|limits:comparator-called-for-a-count-that-cannot-be-true|%s", f, kn); report(sig, cs); continue; }
        if (fn == 0 ? rc == 0 : (r != NULL || lh_n == 0)) { snprintf(sig, sizeof sig, "C16|%s|limits:not-refused|%s", f, kn); report(sig, cs); continue; }
        if (lh_n != 1) { snprintf(sig, sizeof sig, "C16|%s|limits:reported-%d-times|%s", f, lh_n, kn); report(sig, cs); }
    }
    /* and a table that is large but true: 300 elements of 1 MiB (each number within the documented limit, the product above it), object size unknown and known */
    { size_t n = 300, sz = (size_t)1 << 20; unsigned char *big = mmap(NULL, n * sz, PROT_READ | PROT_WRITE, MAP_PRIVATE | MAP_ANONYMOUS | MAP_NORESERVE, -1, 0);
      if (big != MAP_FAILED) {
        for (size_t i = 0; i < n; i++) big[i * sz] = (unsigned char)(i * 255 / 299);      /* sorted keys 0..255, some repeated */
        for (int known = 0; known < 2; known++) for (int key = 0; key < 256; key += 51) {
            char cs[200], sig[160]; snprintf(cs, sizeof cs, "limits 9 %d %d", known, key);
            base = big; g_n = n; g_sz = sz; static unsigned char keyobj[8]; keyobj[0] = key; g_key = keyobj; bad_ptr = bad_ctx = ncmp = 0; lh_n = 0; n_searches++;
            void *r = NULL; int faulted = 0;
            if (sigsetjmp(jb, 1) == 0) { armed = 1; r = bs(keyobj, big, n, sz, cmp_search, &ctx_cookie, known ? n * sz : (size_t)-1); armed = 0; } else faulted = 1;
            int exists = 0; for (size_t i = 0; i < n; i++) if (big[i * sz] == key) exists = 1;
            if (verbose) printf("bsearch_s in 300 x 1 MiB, object size %s, key %d: %s fault=%d handler=%d\n", known ? "known" : "unknown", key, r ? "found" : "NULL", faulted, lh_n);
            if (faulted || bad_ptr || (exists && (!r || *(unsigned char *)r != key)) || (!exists && r) || lh_n) { snprintf(sig, sizeof sig, "C16|bsearch_s|large-table:%s|%s", faulted ? "access-outside-array" : lh_n ? "refused" : "wrong-answer", known ? "object-size-known" : "object-size-unknown"); report(sig, cs); }
        }
        munmap(big, n * sz); } }
    /* an array at a numeric address smaller than one element (static data of a non-PIE program with large records, or memory mapped low):
       pointer arithmetic that steps one element below the base wraps around address zero */
    { size_t sz = (size_t)128 << 10; long minaddr = 65536; FILE *mf = fopen("/proc/sys/vm/mmap_min_addr", "r"); if (mf) { if (fscanf(mf, "%ld", &minaddr) != 1) minaddr = 65536; fclose(mf); }
      if (minaddr < 4096) minaddr = 4096;
      unsigned char *low = (size_t)minaddr < sz ? mmap((void *)minaddr, 8 * sz, PROT_READ | PROT_WRITE, MAP_PRIVATE | MAP_ANONYMOUS | MAP_FIXED_NOREPLACE, -1, 0) : MAP_FAILED;
      if (low != MAP_FAILED && (size_t)low < sz) {
        int stop = 0;
        for (int n = 2; n <= 7 && !stop; n++) for (int fam = 0; fam < 3 && !stop; fam++) {      /* a call that does not return costs its whole time limit: stop at the first */
            char cs[200], sig[160]; snprintf(cs, sizeof cs, "limits 8 %d %d", n, fam);
            base = low; g_n = n; g_sz = sz; for (int i = 0; i < n; i++) low[i * sz] = fam == 0 ? i : fam == 1 ? n - i : (i * 5 + 3) % 7;
            bad_ptr = bad_ctx = ncmp = 0; lh_n = 0; n_arrays++; int rc = 0, faulted = 0;
            int r0 = sigsetjmp(jb, 1); if (r0 == 0) { armed = 1; alarm(5); rc = qs(low, n, sz, cmp_sort, &ctx_cookie, (size_t)-1); alarm(0); armed = 0; } else { alarm(0); faulted = r0; stop = 1; }
            int sorted = 1; for (int i = 1; i < n; i++) if (low[(i - 1) * sz] > low[i * sz]) sorted = 0;
            if (verbose) printf("qsort_s of %d x 128 KiB at address %p: rc=%d fault=%d foreign-pointer=%d sorted=%d\n", n, (void *)low, rc, faulted, bad_ptr, sorted);
            if (faulted || bad_ptr || rc || !sorted) { snprintf(sig, sizeof sig, "C16|qsort_s|array-at-low-address:%s", faulted == 2 ? "does-not-return" : faulted ? "access-outside-array" : bad_ptr ? "comparator-got-foreign-pointer" : rc ? "refused" : "not-sorted"); report(sig, cs); }
        }
        munmap(low, 8 * sz); } }
    set_mem_h(NULL); set_str_h(NULL);
}

int main(int argc, char **argv) {
    setvbuf(stdout, NULL, _IOLBF, 0);
    void *L = dlopen(getenv("CAT_LIB"), RTLD_NOW | RTLD_GLOBAL);
    if (!L) { fprintf(stderr, "cannot load CAT_LIB\n"); return 2; }
    qs = dlsym(L, "_qsort_s_chk"); bs = dlsym(L, "_bsearch_s_chk");
    if (!qs || !bs) { fprintf(stderr, "missing symbols\n"); return 2; }
    set_mem_h = dlsym(L, "set_mem_constraint_handler_s"); set_str_h = dlsym(L, "set_str_constraint_handler_s");
    arena = mmap(NULL, asz, PROT_READ | PROT_WRITE, MAP_PRIVATE | MAP_ANONYMOUS, -1, 0);
    mprotect(arena, PG, PROT_NONE); mprotect(arena + asz - PG, PG, PROT_NONE);
    signal(SIGSEGV, on_segv); signal(SIGALRM, on_alarm); if (getenv("C16_TIME_LIMIT")) time_limit = atoi(getenv("C16_TIME_LIMIT"));
    if (argc >= 6 && !strcmp(argv[1], "replay")) {
        verbose = 1; size_t sz = atol(argv[3]), n = atol(argv[4]); unsigned char k[256];
        if (strcmp(argv[2], "big")) for (size_t i = 0; i < n && i < 256; i++) { unsigned v = 0; sscanf(argv[5] + 2 * i, "%2x", &v); k[i] = v; }
        if (!strcmp(argv[2], "big")) do_big(atol(argv[3]), atoi(argv[4]), atol(argv[5]));
        else if (!strcmp(argv[2], "nested")) do_nested(k, n, sz, atol(argv[6]), atoi(argv[7]));
        else if (!strcmp(argv[2], "limits")) do_limits();
        else if (!strcmp(argv[2], "sort") || !strcmp(argv[2], "sortk")) { g_known = argv[2][4] == 'k'; do_sort(k, n, sz, "replay"); } else { g_known = !strcmp(argv[2], "searchk"); do_search(k, n, sz, atoi(argv[6])); }
        if (nsig) { printf("VERDICT violation %s\n", sigs[0]); return 1; }
        printf("VERDICT ok\n"); return 0;
    }
    if (argc < 5) return 2;
    if (!strcmp(argv[1], "big")) {
        do_big(atol(argv[2]), atoi(argv[3]), atol(argv[4]));
        for (int i = 0; i < nsig; i++) printf("{\"t\":\"viol\",\"sig\":\"%s\",\"n\":%ld,\"case\":\"%s\"}\n", sigs[i], sigcnt[i], sigcase[i]);
        printf("{\"t\":\"stat\",\"arrays_sorted\":%ld,\"searches\":%ld,\"comparisons\":%ld,\"violating\":%ld}\n", n_arrays, n_searches, n_cmp, n_viol);
        return 0;
    }
    int N = atoi(argv[1]), perms = atoi(argv[2]); long shard = atol(argv[3]), nsh = atol(argv[4]);
    if (shard == 0) do_limits();
    static const size_t SZ[] = { 1, 2, 3, 4, 7, 8, 12, 16, 24, 255, 256, 257, 300, 513 };
    int nszs = sizeof SZ / sizeof SZ[0];
    long idx = 0; unsigned char k[256], srt[256];
    for (int n = 0; n <= N; n++) {
        long cnt = 1; for (int i = 0; i < n; i++) cnt *= 3;
        for (long c = 0; c < cnt; c++) {
            if ((idx++ % nsh) != shard) continue;
            long t = c; for (int i = 0; i < n; i++) { k[i] = t % 3; t /= 3; }
            for (int s = 0; s < nszs; s++) {
                do_sort(k, n, SZ[s], "keys3");
                int sorted = 1; for (int i = 1; i < n; i++) if (k[i - 1] > k[i]) sorted = 0;
                if (sorted) for (int key = 0; key <= 3; key++) do_search(k, n, SZ[s], key);
                if (SZ[s] == 4 || SZ[s] == 257) {      /* the same with the object size known to the library (what the public macro passes for an array) */
                    g_known = 1; do_sort(k, n, SZ[s], "keys3"); if (sorted) for (int key = 0; key <= 3; key++) do_search(k, n, SZ[s], key); g_known = 0; }
            }
        }
    }
    /* nested use: all key arrays with nmemb 3..min(N,7), outer x inner element sizes, inner sort in every comparison or only in the k-th */
    { static const size_t PAIRS[][2] = { {4, 8}, {8, 4}, {4, 257}, {257, 1}, {8, 8}, {16, 300} };
      for (int n = 3; n <= (N < 7 ? N : 7); n++) {
        long cnt = 1; for (int i = 0; i < n; i++) cnt *= 3;
        for (long c = 0; c < cnt; c++) {
            if ((idx++ % nsh) != shard) continue;
            long t = c; for (int i = 0; i < n; i++) { k[i] = t % 3; t /= 3; }
            for (int pi = 0; pi < 6; pi++) { do_nested(k, n, PAIRS[pi][0], PAIRS[pi][1], 1); for (int ev = 2; ev <= 4; ev++) do_nested(k, n, PAIRS[pi][0], PAIRS[pi][1], ev); }
        }
      } }
    /* structured families up to 200 */
    static const size_t SZ2[] = { 4, 8, 257 };
    for (int n = 8; n <= 200; n++) {
        if ((idx++ % nsh) != shard) continue;
        for (int fam = 0; fam < 6; fam++) {
            for (int i = 0; i < n; i++) k[i] = fam == 0 ? i : fam == 1 ? n - 1 - i : fam == 2 ? 7 : fam == 3 ? (i < n / 2 ? i : n - 1 - i) : fam == 4 ? (i & 1) : (i * 37 + 11) % 251;
            for (int s = 0; s < 3; s++) {
                if (n > 64 && SZ2[s] == 257 && n % 8) continue;
                do_sort(k, n, SZ2[s], fam == 0 ? "ascending" : fam == 1 ? "descending" : fam == 2 ? "all-equal" : fam == 3 ? "organ-pipe" : fam == 4 ? "two-value" : "scrambled");
                memcpy(srt, k, n); qsort(srt, n, 1, cmp_uc);
                if (s == 0) { do_search(srt, n, SZ2[s], srt[0]); do_search(srt, n, SZ2[s], srt[n - 1]); do_search(srt, n, SZ2[s], srt[n / 2]); do_search(srt, n, SZ2[s], 252); if (srt[0] > 0) do_search(srt, n, SZ2[s], 0); }
            }
        }
    }
    if (perms) {   /* all permutations of 0..7 (40320) with element size 4 and 257 */
        int p[8] = { 0, 1, 2, 3, 4, 5, 6, 7 }; long pi = 0;
        for (;;) {
            if ((pi++ % nsh) == shard) { for (int i = 0; i < 8; i++) k[i] = p[i]; do_sort(k, 8, 4, "perm8"); if (pi % 16 == 0) do_sort(k, 8, 257, "perm8"); }
            int i = 6; while (i >= 0 && p[i] > p[i + 1]) i--; if (i < 0) break;
            int j = 7; while (p[j] < p[i]) j--; int t = p[i]; p[i] = p[j]; p[j] = t;
            for (int a = i + 1, b = 7; a < b; a++, b--) { t = p[a]; p[a] = p[b]; p[b] = t; }
        }
    }
    for (int i = 0; i < nsig; i++) printf("{\"t\":\"viol\",\"sig\":\"%s\",\"n\":%ld,\"case\":\"%s\"}\n", sigs[i], sigcnt[i], sigcase[i]);
    printf("{\"t\":\"stat\",\"arrays_sorted\":%ld,\"searches\":%ld,\"comparisons\":%ld,\"violating\":%ld}\n", n_arrays, n_searches, n_cmp, n_viol);
    return 0;
}
