/* c16.c - C16 qsort_s / bsearch_s: all arrays over keys {0,1,2} up to nmemb N x element sizes, exact-fit
 * guarded arrays, checking comparator (pointer bounds, alignment, context), permutation+order oracle,
 * bsearch_s on every sorted array x every key; structured families up to nmemb 200; thorough: all
 * permutations of 0..7.
 * usage: c16 <N> <perms 0|1> <shard> <nshards> | c16 replay <kind> <size> <nmemb> <hexkeys> [key]   env CAT_LIB */
#define _GNU_SOURCE
#include <stdio.h>
#include <stdlib.h>
#include <string.h>
#include <errno.h>
#include <signal.h>
#include <setjmp.h>
#include <sys/mman.h>
#include <dlfcn.h>
#include <stdint.h>

#define PG 4096UL
typedef int (*cmp_t)(const void *, const void *, void *);
static int (*qs)(void *, size_t, size_t, cmp_t, void *, size_t);
static void *(*bs)(const void *, const void *, size_t, size_t, cmp_t, void *, size_t);
static unsigned char *arena; static size_t asz = 64 * PG;
static sigjmp_buf jb; static volatile int armed;
static void on_segv(int s) { (void)s; if (!armed) _exit(3); armed = 0; siglongjmp(jb, 1); }

static unsigned char *base; static size_t g_n, g_sz; static int ctx_cookie; static const void *g_key;
static int bad_ptr, bad_ctx, ncmp;
static int in_array(const void *p) { const unsigned char *q = p; return q >= base && q < base + g_n * g_sz && (size_t)(q - base) % g_sz == 0; }
static int cmp_sort(const void *a, const void *b, void *c) {
    ncmp++; if (c != &ctx_cookie) bad_ctx = 1;
    if (!in_array(a) || !in_array(b)) { bad_ptr = 1; return 0; }
    errno = ERANGE;      /* a consistent comparator may have side effects on errno (strtol saturating while parsing a key) */
    return (int)*(const unsigned char *)a - (int)*(const unsigned char *)b;
}
static int cmp_search(const void *k, const void *e, void *c) {
    ncmp++; if (c != &ctx_cookie) bad_ctx = 1;
    if (k != g_key) bad_ptr = 1;
    if (!in_array(e)) { bad_ptr = 1; return 0; }
    errno = ERANGE;
    return (int)*(const unsigned char *)k - (int)*(const unsigned char *)e;
}
static char sigs[32][160], sigcase[32][400]; static long sigcnt[32]; static int nsig; static long n_arrays, n_searches, n_viol, n_cmp;
static void report(const char *sig, const char *cs) {
    n_viol++;
    for (int i = 0; i < nsig; i++) if (!strcmp(sigs[i], sig)) { sigcnt[i]++; return; }
    if (nsig < 32) { strncpy(sigs[nsig], sig, 159); strncpy(sigcase[nsig], cs, 399); sigcnt[nsig] = 1; nsig++; }
}
static const char *szclass(size_t sz, char *b) { sprintf(b, sz < 256 ? "size<256" : sz == 256 ? "size=256" : "size>256"); return b; }
static int verbose;

/* keys[]: nmemb key bytes. returns 0 ok */
static void do_sort(const unsigned char *keys, size_t n, size_t sz, const char *kind) {
    char cs[400], hx[420] = "", sig[160], sb[32];
    for (size_t i = 0; i < n && i < 200; i++) sprintf(hx + 2 * i, "%02x", keys[i]);
    snprintf(cs, sizeof cs, "sort %zu %zu %s", sz, n, n ? hx : "-");
    size_t bytes = n * sz; if (bytes > asz - 2 * PG) return;
    base = arena + asz - PG - bytes;            /* flush against the trailing guard; exact fit */
    g_n = n; g_sz = sz;
    memset(arena + PG, 0xEE, asz - 2 * PG - bytes);
    for (size_t i = 0; i < n; i++) { unsigned char *e = base + i * sz; e[0] = keys[i]; for (size_t k = 1; k < sz; k++) e[k] = (unsigned char)(i * 7 + k * 13 + 1); }
    unsigned char *before = malloc(bytes + 1); memcpy(before, base, bytes);
    bad_ptr = bad_ctx = ncmp = 0; n_arrays++;
    int rc = 0, faulted = 0;
    if (sigsetjmp(jb, 1) == 0) { armed = 1; rc = qs(base, n, sz, cmp_sort, &ctx_cookie, (size_t)-1); armed = 0; } else faulted = 1;
    n_cmp += ncmp;
    if (verbose) { printf("qsort_s rc=%d fault=%d comparisons=%d keys after:", rc, faulted, ncmp); for (size_t i = 0; i < n; i++) printf(" %d", base[i * sz]); printf("\n"); }
    if (faulted) { snprintf(sig, sizeof sig, "C16|qsort_s|access-outside-array|%s", szclass(sz, sb)); report(sig, cs); free(before); return; }
    if (rc != 0) { snprintf(sig, sizeof sig, "C16|qsort_s|fails-on-valid-array|rc%d", rc); report(sig, cs); free(before); return; }
    if (bad_ptr) { snprintf(sig, sizeof sig, "C16|qsort_s|comparator-got-foreign-pointer|%s", szclass(sz, sb)); report(sig, cs); }
    if (bad_ctx) { snprintf(sig, sizeof sig, "C16|qsort_s|context-not-passed|%s", szclass(sz, sb)); report(sig, cs); }
    for (size_t i = 1; i < n; i++) if (base[(i - 1) * sz] > base[i * sz]) { snprintf(sig, sizeof sig, "C16|qsort_s|not-sorted|%s|%s", szclass(sz, sb), kind); report(sig, cs); break; }
    /* permutation: every original element (all bytes) occurs exactly once */
    unsigned char *used = calloc(n + 1, 1); int perm = 1;
    for (size_t i = 0; i < n && perm; i++) { int f = 0; for (size_t j = 0; j < n; j++) if (!used[j] && !memcmp(base + i * sz, before + j * sz, sz)) { used[j] = 1; f = 1; break; } if (!f) perm = 0; }
    if (!perm) { snprintf(sig, sizeof sig, "C16|qsort_s|not-a-permutation|%s|%s", szclass(sz, sb), kind); report(sig, cs); }
    for (size_t k = 0; k < asz - 2 * PG - bytes; k++) if (arena[PG + k] != 0xEE) { snprintf(sig, sizeof sig, "C16|qsort_s|write-before-array|%s", szclass(sz, sb)); report(sig, cs); break; }
    free(used); free(before);
}
static void do_search(const unsigned char *sorted, size_t n, size_t sz, int key) {
    char cs[400], hx[420] = "", sig[160], sb[32];
    for (size_t i = 0; i < n && i < 200; i++) sprintf(hx + 2 * i, "%02x", sorted[i]);
    snprintf(cs, sizeof cs, "search %zu %zu %s %d", sz, n, n ? hx : "-", key);
    size_t bytes = n * sz; if (bytes > asz - 4 * PG) return;
    base = arena + asz - PG - bytes; g_n = n; g_sz = sz;
    for (size_t i = 0; i < n; i++) { unsigned char *e = base + i * sz; e[0] = sorted[i]; for (size_t k = 1; k < sz; k++) e[k] = (unsigned char)(i * 7 + k); }
    /* a stale matching element right before the array: must never be returned or compared */
    if ((size_t)(base - (arena + PG)) >= sz) { base[-(long)sz] = key; }
    static unsigned char keyobj[600]; keyobj[0] = key; g_key = keyobj;
    bad_ptr = bad_ctx = ncmp = 0; n_searches++;
    void *r = NULL; int faulted = 0;
    if (sigsetjmp(jb, 1) == 0) { armed = 1; r = bs(keyobj, base, n, sz, cmp_search, &ctx_cookie, (size_t)-1); armed = 0; } else faulted = 1;
    n_cmp += ncmp;
    int exists = 0; for (size_t i = 0; i < n; i++) if (sorted[i] == key) exists = 1;
    if (verbose) printf("bsearch_s -> %s (index %ld) fault=%d comparisons=%d exists=%d\n", r ? "found" : "NULL", r ? (long)(((unsigned char *)r - base) / (long)sz) : -1L, faulted, ncmp, exists);
    if (faulted) { snprintf(sig, sizeof sig, "C16|bsearch_s|access-outside-array|%s", szclass(sz, sb)); report(sig, cs); return; }
    if (bad_ptr) { snprintf(sig, sizeof sig, "C16|bsearch_s|comparator-got-foreign-pointer|%s", szclass(sz, sb)); report(sig, cs); }
    if (bad_ctx) { snprintf(sig, sizeof sig, "C16|bsearch_s|context-not-passed|%s", szclass(sz, sb)); report(sig, cs); }
    if (exists && !r) { snprintf(sig, sizeof sig, "C16|bsearch_s|present-key-not-found|%s", szclass(sz, sb)); report(sig, cs); }
    if (!exists && r && n) { snprintf(sig, sizeof sig, "C16|bsearch_s|absent-key-found|%s", szclass(sz, sb)); report(sig, cs); }
    if (r && n && (!in_array(r) || *(unsigned char *)r != key)) { snprintf(sig, sizeof sig, "C16|bsearch_s|returned-non-matching-or-outside|%s", szclass(sz, sb)); report(sig, cs); }
}
static int cmp_uc(const void *a, const void *b) { return (int)*(const unsigned char *)a - (int)*(const unsigned char *)b; }

int main(int argc, char **argv) {
    setvbuf(stdout, NULL, _IOLBF, 0);
    void *L = dlopen(getenv("CAT_LIB"), RTLD_NOW | RTLD_GLOBAL);
    if (!L) { fprintf(stderr, "cannot load CAT_LIB\n"); return 2; }
    qs = dlsym(L, "_qsort_s_chk"); bs = dlsym(L, "_bsearch_s_chk");
    if (!qs || !bs) { fprintf(stderr, "missing symbols\n"); return 2; }
    arena = mmap(NULL, asz, PROT_READ | PROT_WRITE, MAP_PRIVATE | MAP_ANONYMOUS, -1, 0);
    mprotect(arena, PG, PROT_NONE); mprotect(arena + asz - PG, PG, PROT_NONE);
    signal(SIGSEGV, on_segv);
    if (argc >= 6 && !strcmp(argv[1], "replay")) {
        verbose = 1; size_t sz = atol(argv[3]), n = atol(argv[4]); unsigned char k[256];
        for (size_t i = 0; i < n; i++) { unsigned v = 0; sscanf(argv[5] + 2 * i, "%2x", &v); k[i] = v; }
        if (!strcmp(argv[2], "sort")) do_sort(k, n, sz, "replay"); else do_search(k, n, sz, atoi(argv[6]));
        if (nsig) { printf("VERDICT violation %s\n", sigs[0]); return 1; }
        printf("VERDICT ok\n"); return 0;
    }
    if (argc < 5) return 2;
    int N = atoi(argv[1]), perms = atoi(argv[2]); long shard = atol(argv[3]), nsh = atol(argv[4]);
    static const size_t SZ[] = { 1, 2, 3, 4, 7, 8, 12, 16, 24, 255, 256, 257, 300, 513 };
    int nszs = sizeof SZ / sizeof SZ[0];
    long idx = 0; unsigned char k[256], srt[256];
    for (int n = 0; n <= N; n++) {
        long cnt = 1; for (int i = 0; i < n; i++) cnt *= 3;
        for (long c = 0; c < cnt; c++) {
            if ((idx++ % nsh) != shard) continue;
            long t = c; for (int i = 0; i < n; i++) { k[i] = t % 3; t /= 3; }
            for (int s = 0; s < nszs; s++) {
                do_sort(k, n, SZ[s], "keys3");
                int sorted = 1; for (int i = 1; i < n; i++) if (k[i - 1] > k[i]) sorted = 0;
                if (sorted) for (int key = 0; key <= 3; key++) do_search(k, n, SZ[s], key);
            }
        }
    }
    /* structured families up to 200 */
    static const size_t SZ2[] = { 4, 8, 257 };
    for (int n = 8; n <= 200; n++) {
        if ((idx++ % nsh) != shard) continue;
        for (int fam = 0; fam < 6; fam++) {
            for (int i = 0; i < n; i++) k[i] = fam == 0 ? i : fam == 1 ? n - 1 - i : fam == 2 ? 7 : fam == 3 ? (i < n / 2 ? i : n - 1 - i) : fam == 4 ? (i & 1) : (i * 37 + 11) % 251;
            for (int s = 0; s < 3; s++) {
                if (n > 64 && SZ2[s] == 257 && n % 8) continue;
                do_sort(k, n, SZ2[s], fam == 0 ? "ascending" : fam == 1 ? "descending" : fam == 2 ? "all-equal" : fam == 3 ? "organ-pipe" : fam == 4 ? "two-value" : "scrambled");
                memcpy(srt, k, n); qsort(srt, n, 1, cmp_uc);
                if (s == 0) { do_search(srt, n, SZ2[s], srt[0]); do_search(srt, n, SZ2[s], srt[n - 1]); do_search(srt, n, SZ2[s], srt[n / 2]); do_search(srt, n, SZ2[s], 252); if (srt[0] > 0) do_search(srt, n, SZ2[s], 0); }
            }
        }
    }
    if (perms) {   /* all permutations of 0..7 (40320) with element size 4 and 257 */
        int p[8] = { 0, 1, 2, 3, 4, 5, 6, 7 }; long pi = 0;
        for (;;) {
            if ((pi++ % nsh) == shard) { for (int i = 0; i < 8; i++) k[i] = p[i]; do_sort(k, 8, 4, "perm8"); if (pi % 16 == 0) do_sort(k, 8, 257, "perm8"); }
            int i = 6; while (i >= 0 && p[i] > p[i + 1]) i--; if (i < 0) break;
            int j = 7; while (p[j] < p[i]) j--; int t = p[i]; p[i] = p[j]; p[j] = t;
            for (int a = i + 1, b = 7; a < b; a++, b--) { t = p[a]; p[a] = p[b]; p[b] = t; }
        }
    }
    for (int i = 0; i < nsig; i++) printf("{\"t\":\"viol\",\"sig\":\"%s\",\"n\":%ld,\"case\":\"%s\"}\n", sigs[i], sigcnt[i], sigcase[i]);
    printf("{\"t\":\"stat\",\"arrays_sorted\":%ld,\"searches\":%ld,\"comparisons\":%ld,\"violating\":%ld}\n", n_arrays, n_searches, n_cmp, n_viol);
    return 0;
}
