/* c20.c - C20 allocation failure: the library variant linked with --wrap=malloc,... routes only the
 * library's own allocations here. For every case that allocates: a dry run counts the requests, then
 * the case is re-run with the k-th request failing for every k (thorough: every pair k<j).
 * Oracle: no fault, failure indication, dest cleared, no live library block at return; and no live
 * block after any unfaulted case.
 * usage: c20 <pairs 0|1> | c20 replay <case> <k> [<j>]     env CAT_LIB (wrap variant) */
#define _GNU_SOURCE
#include <stdio.h>
#include <stdarg.h>
#include <stdlib.h>
#include <string.h>
#include <signal.h>
#include <setjmp.h>
#include <dlfcn.h>
#include <wchar.h>
#include <locale.h>

extern void *__libc_malloc(size_t); extern void *__libc_realloc(void *, size_t); extern void *__libc_calloc(size_t, size_t); extern void __libc_free(void *);
static long req_no, fail_a = -1, fail_b = -1, live; static int tracking;
static void *blocks[256]; static int nblocks;
static void track(void *p) { if (p && nblocks < 256) blocks[nblocks++] = p; if (p) live++; }
static void untrack(void *p) { for (int i = 0; i < nblocks; i++) if (blocks[i] == p) { blocks[i] = blocks[--nblocks]; live--; return; } }
static int should_fail(void) { req_no++; return tracking && (req_no == fail_a || req_no == fail_b); }
void *__wrap_malloc(size_t n) { if (should_fail()) return NULL; void *p = __libc_malloc(n); if (tracking) track(p); return p; }
void *__wrap_calloc(size_t a, size_t b) { if (should_fail()) return NULL; void *p = __libc_calloc(a, b); if (tracking) track(p); return p; }
void *__wrap_realloc(void *o, size_t n) { if (should_fail()) return NULL; void *p = __libc_realloc(o, n); if (tracking && p) { if (o) untrack(o); track(p); } return p; }
void __wrap_free(void *p) { if (tracking && p) untrack(p); __libc_free(p); }

static sigjmp_buf jb; static volatile int armed;
static void on_segv(int s) { (void)s; if (!armed) _exit(3); armed = 0; siglongjmp(jb, 1); }
static int h_n, h_jump; static sigjmp_buf hjb;      /* h_jump: the handler leaves through longjmp (Annex K handlers need not return) */
static void handler(const char *m, void *p, int e) { (void)m; (void)p; (void)e; h_n++; if (h_jump) { h_jump = 0; tracking = 0; siglongjmp(hjb, 1); } }

#define BOSU ((size_t)-1)
static int (*sprintf_p)(char *, size_t, size_t, const char *, ...);
static int (*snprintf_p)(char *, size_t, size_t, const char *, ...);
static int (*swprintf_p)(wchar_t *, size_t, size_t, const wchar_t *, ...);
static int (*snwprintf_p)(wchar_t *, size_t, size_t, const wchar_t *, ...);
static int (*wcsnorm_p)(wchar_t *, size_t, const wchar_t *, int, size_t *, size_t);
static int (*wcsicmp_p)(const wchar_t *, size_t, const wchar_t *, size_t, int *, size_t, size_t);
static int (*wcsnatcmp_p)(const wchar_t *, size_t, const wchar_t *, size_t, int, int *, size_t, size_t);
static int (*fprintf_p)(FILE *, const char *, ...);

typedef struct { long rc; int failind; int dest_cleared; int has_dest; } Res;
static char cd[256]; static wchar_t wd[1200]; static wchar_t longsrc[200], marks[40], marks2[40];
static void prep(void) { memset(cd, 0x55, sizeof cd); for (int i = 0; i < 1200; i++) wd[i] = 0x5555; }
#define CRES(r) do { res->rc = (r); res->failind = (r) < 0; res->has_dest = 1; res->dest_cleared = cd[0] == 0; } while (0)
#define WRES(r) do { res->rc = (r); res->failind = (r) < 0; res->has_dest = 1; res->dest_cleared = wd[0] == 0; } while (0)
static void c_ls(Res *res) { prep(); int r = sprintf_p(cd, 64, BOSU, "<%ls>", L"wide text"); CRES(r); }
static void c_ls_bad(Res *res) { static const wchar_t bad[] = { 'o', 'k', 0xd800, 'x', 0 }; prep(); int r = sprintf_p(cd, 64, BOSU, "<%ls>", bad); CRES(r); }
static void c_ls2(Res *res) { prep(); int r = sprintf_p(cd, 64, BOSU, "%ls+%ls", L"ab", L"cd"); CRES(r); }
static void c_ls_trunc(Res *res) { prep(); int r = snprintf_p(cd, 6, BOSU, "%ls", L"wide text too long"); CRES(r); }
static void c_Lf(Res *res) { prep(); int r = sprintf_p(cd, 64, BOSU, "%Lf|tail", (long double)2.5); CRES(r); }
static void c_Le(Res *res) { prep(); int r = sprintf_p(cd, 64, BOSU, "%Le|tail", (long double)2.5); CRES(r); }
static void c_La(Res *res) { prep(); int r = sprintf_p(cd, 64, BOSU, "%La|tail", (long double)2.5); CRES(r); }
static void c_a(Res *res) { prep(); int r = sprintf_p(cd, 64, BOSU, "%a|tail", 2.5); CRES(r); }
static void c_Lf_wide(Res *res) { prep(); int r = sprintf_p(cd, 200, BOSU, "%120.3Lf|%-90La|%ls", (long double)2.5, (long double)1.0, L"w"); CRES(r); }
static void c_Lf_ls(Res *res) { prep(); int r = sprintf_p(cd, 64, BOSU, "%Lf|%ls|%a|", (long double)1.25, L"xy", 3.0); CRES(r); }
static void c_sw_nospc(Res *res) { prep(); int r = swprintf_p(wd, 4, BOSU, L"%d", 1234567); WRES(r); }
static void c_sw_nospc_big(Res *res) { prep(); int r = swprintf_p(wd, 600, BOSU, L"%0700d", 7); WRES(r); }
static void c_snw_nospc_big(Res *res) { prep(); int r = snwprintf_p(wd, 600, BOSU, L"%0700d", 7); res->rc = r; res->failind = 1; res->has_dest = 0; res->dest_cleared = 1; }
static void c_norm_long(Res *res) { prep(); size_t len = 0; int r = wcsnorm_p(wd, 400, longsrc, 1, &len, BOSU); res->rc = r; res->failind = r != 0; res->has_dest = 1; res->dest_cleared = wd[0] == 0; }
static wchar_t tworuns[64];
static void c_norm_tworuns_nfc(Res *res) { prep(); size_t len = 0; int r = wcsnorm_p(wd, 200, tworuns, 1, &len, BOSU); res->rc = r; res->failind = r != 0; res->has_dest = 1; res->dest_cleared = wd[0] == 0; }
static void c_norm_tworuns_nfd(Res *res) { prep(); size_t len = 0; int r = wcsnorm_p(wd, 200, tworuns, 0, &len, BOSU); res->rc = r; res->failind = r != 0; res->has_dest = 1; res->dest_cleared = wd[0] == 0; }
static void c_norm_marks(Res *res) { prep(); size_t len = 0; int r = wcsnorm_p(wd, 100, marks, 1, &len, BOSU); res->rc = r; res->failind = r != 0; res->has_dest = 1; res->dest_cleared = wd[0] == 0; }
static void c_norm_marks2(Res *res) { prep(); size_t len = 0; int r = wcsnorm_p(wd, 100, marks2, 0, &len, BOSU); res->rc = r; res->failind = r != 0; res->has_dest = 1; res->dest_cleared = wd[0] == 0; }
static void c_norm_marks_nolen(Res *res) { prep(); int r = wcsnorm_p(wd, 100, marks, 1, NULL, BOSU); res->rc = r; res->failind = r != 0; res->has_dest = 1; res->dest_cleared = wd[0] == 0; }
static void c_norm_marks2_nolen(Res *res) { prep(); int r = wcsnorm_p(wd, 100, marks2, 0, NULL, BOSU); res->rc = r; res->failind = r != 0; res->has_dest = 1; res->dest_cleared = wd[0] == 0; }
static void c_norm_long_nolen(Res *res) { prep(); int r = wcsnorm_p(wd, 400, longsrc, 1, NULL, BOSU); res->rc = r; res->failind = r != 0; res->has_dest = 1; res->dest_cleared = wd[0] == 0; }
static void c_icmp(Res *res) { int d = 99; int r = wcsicmp_p(L"Hello World", 12, L"hello world", 12, &d, BOSU, BOSU); res->rc = r; res->failind = r != 0; res->has_dest = 1; res->dest_cleared = (r != 0) ? d == 0 || d == 99 : 1; }
static void c_natcmp(Res *res) { int d = 99; int r = wcsnatcmp_p(L"File10 Name", 12, L"file9 name", 12, 1, &d, BOSU, BOSU); res->rc = r; res->failind = r != 0; res->has_dest = 0; res->dest_cleared = 1; }
static void c_fprintf_ls(Res *res) { char *mb = NULL; size_t ml = 0; tracking = 0; FILE *f = open_memstream(&mb, &ml); tracking = 1; int r = fprintf_p(f, "[%ls|%Lf]", L"stream", (long double)1.5); tracking = 0; fclose(f); __libc_free(mb); tracking = 1; res->rc = r; res->failind = r < 0; res->has_dest = 0; res->dest_cleared = 1; }


/* a stream has no bound that would stop a call whose conversion failed: hex-float and long double text of 64 characters and more comes from the heap */
static void c_fprintf_a_long(Res *res) { char *mb = NULL; size_t ml = 0; tracking = 0; FILE *f = open_memstream(&mb, &ml); tracking = 1; int r = fprintf_p(f, "[%.70a] and the rest of the line\n", 1.0 / 3); tracking = 0; fclose(f); __libc_free(mb); tracking = 1; res->rc = r; res->failind = r < 0; res->has_dest = 0; res->dest_cleared = 1; }
static void c_fprintf_La_long(Res *res) { char *mb = NULL; size_t ml = 0; tracking = 0; FILE *f = open_memstream(&mb, &ml); tracking = 1; int r = fprintf_p(f, "[%.70La] and the rest of the line\n", (long double)1.0 / 3); tracking = 0; fclose(f); __libc_free(mb); tracking = 1; res->rc = r; res->failind = r < 0; res->has_dest = 0; res->dest_cleared = 1; }
static void c_fprintf_Lf_long(Res *res) { char *mb = NULL; size_t ml = 0; tracking = 0; FILE *f = open_memstream(&mb, &ml); tracking = 1; int r = fprintf_p(f, "[%.70Lf] and the rest of the line\n", (long double)1.0 / 3); tracking = 0; fclose(f); __libc_free(mb); tracking = 1; res->rc = r; res->failind = r < 0; res->has_dest = 0; res->dest_cleared = 1; }
/* a directive of 64 characters and more (repeated flags are legal) is itself copied to the heap; here its conversion cannot succeed (dest too small) or can */
#define LONGDIR "%0000000000000000000000000000000000000000000000000000000000000012.3"
static void c_longdir_nospc(Res *res) { prep(); int r = sprintf_p(cd, 8, BOSU, "[" LONGDIR "Lf] t", (long double)3.25); CRES(r); }
static void c_longdir_ok(Res *res) { prep(); int r = sprintf_p(cd, 64, BOSU, "[" LONGDIR "Lf] t", (long double)3.25); CRES(r); }
static void c_longdir_La_nospc(Res *res) { prep(); int r = sprintf_p(cd, 8, BOSU, "[" LONGDIR "La] t", (long double)3.25); CRES(r); }
static void c_longdir_trunc(Res *res) { prep(); int r = snprintf_p(cd, 8, BOSU, "[" LONGDIR "Le] t", (long double)3.25); CRES(r); }
/* the v-entry points have their own probe buffers: reached through a va_list */
static int (*vswprintf_p)(wchar_t *, size_t, size_t, const wchar_t *, va_list);
static int (*vsnwprintf_p)(wchar_t *, size_t, size_t, const wchar_t *, va_list);
static int vsw(wchar_t *d, size_t dmax, const wchar_t *fmt, ...) { va_list ap; va_start(ap, fmt); int r = vswprintf_p(d, dmax, BOSU, fmt, ap); va_end(ap); return r; }
static int vsnw(wchar_t *d, size_t dmax, const wchar_t *fmt, ...) { va_list ap; va_start(ap, fmt); int r = vsnwprintf_p(d, dmax, BOSU, fmt, ap); va_end(ap); return r; }
static void c_vsw_nospc_big(Res *res) { prep(); int r = vsw(wd, 600, L"%0700d", 7); WRES(r); }
static void c_vsnw_nospc_big(Res *res) { prep(); int r = vsnw(wd, 600, L"%0700d", 7); res->rc = r; res->failind = 1; res->has_dest = 0; res->dest_cleared = 1; }
/* a conversion error (a narrow %s argument that is no multibyte string in this locale) instead of a space problem, with dmax on either side of the 512-element probe limit */
static void c_sw_badmb_big(Res *res) { prep(); int r = swprintf_p(wd, 600, BOSU, L"<%s>", "\xff\xfe"); WRES(r); }
static void c_sw_badmb_small(Res *res) { prep(); int r = swprintf_p(wd, 64, BOSU, L"<%s>", "\xff\xfe"); WRES(r); }
static void c_vsw_badmb_big(Res *res) { prep(); int r = vsw(wd, 600, L"<%s>", "\xff\xfe"); WRES(r); }
static void c_snw_badmb_big(Res *res) { prep(); int r = snwprintf_p(wd, 600, BOSU, L"<%s>", "\xff\xfe"); WRES(r); }
static void c_vsnw_badmb_big(Res *res) { prep(); int r = vsnw(wd, 600, L"<%s>", "\xff\xfe"); WRES(r); }
static void c_sw_ok_big(Res *res) { prep(); int r = swprintf_p(wd, 600, BOSU, L"%d|%ls|%s", 5, L"wide", "narrow"); WRES(r); }
static void c_vsw_ok_big(Res *res) { prep(); int r = vsw(wd, 600, L"%d|%ls|%s", 5, L"wide", "narrow"); WRES(r); }
/* operands whose case folding triples in length, bounds of length + 1 */
static const wchar_t exp2[] = { 0x390, 0x390, 0 }, exp2b[] = { 0x3b0, 0x390, 0 }, exp10[] = { 0x390, 0x390, 0x390, 0x390, 0x390, 0x390, 0x390, 0x390, 0x390, 0x390, 0 };
static void c_natcmp_exp(Res *res) { int d = 99; int r = wcsnatcmp_p(exp10, 11, exp2b, 3, 1, &d, BOSU, BOSU); res->rc = r; res->failind = r != 0; res->has_dest = 0; res->dest_cleared = 1; }
static void c_natcmp_exp_src(Res *res) { int d = 99; int r = wcsnatcmp_p(L"ab", 3, exp10, 11, 1, &d, BOSU, BOSU); res->rc = r; res->failind = r != 0; res->has_dest = 0; res->dest_cleared = 1; }
static void c_icmp_exp(Res *res) { int d = 99; int r = wcsicmp_p(exp10, 11, exp10, 11, &d, BOSU, BOSU); res->rc = r; res->failind = r != 0; res->has_dest = 0; res->dest_cleared = 1; }

static struct { const char *name; void (*fn)(Res *); } cases[] = {
    { "sprintf_ls", c_ls }, { "sprintf_ls_unconvertible", c_ls_bad }, { "sprintf_ls2", c_ls2 }, { "snprintf_ls_trunc", c_ls_trunc }, { "sprintf_Lf", c_Lf }, { "sprintf_Le", c_Le },
    { "sprintf_La", c_La }, { "sprintf_a", c_a }, { "sprintf_Lf_ls_a", c_Lf_ls }, { "sprintf_Lf_wide_field", c_Lf_wide }, { "swprintf_nospc", c_sw_nospc }, { "swprintf_nospc_big", c_sw_nospc_big },
    { "snwprintf_nospc_big", c_snw_nospc_big }, { "wcsnorm_long", c_norm_long }, { "wcsnorm_marks_nfc", c_norm_marks }, { "wcsnorm_marks_nfd", c_norm_marks2 }, { "wcsnorm_marks_nfc_lenp_null", c_norm_marks_nolen }, { "wcsnorm_marks_nfd_lenp_null", c_norm_marks2_nolen }, { "wcsnorm_long_lenp_null", c_norm_long_nolen },
    { "wcsicmp", c_icmp }, { "wcsnatcmp_fold", c_natcmp }, { "fprintf_ls_Lf", c_fprintf_ls },
    { "vswprintf_nospc_big", c_vsw_nospc_big }, { "vsnwprintf_nospc_big", c_vsnw_nospc_big }, { "swprintf_badmb_big", c_sw_badmb_big }, { "swprintf_badmb_small", c_sw_badmb_small }, { "vswprintf_badmb_big", c_vsw_badmb_big },
    { "snwprintf_badmb_big", c_snw_badmb_big }, { "vsnwprintf_badmb_big", c_vsnw_badmb_big }, { "swprintf_ok_big", c_sw_ok_big }, { "vswprintf_ok_big", c_vsw_ok_big },
    { "wcsnorm_two_long_mark_runs_nfc", c_norm_tworuns_nfc }, { "wcsnorm_two_long_mark_runs_nfd", c_norm_tworuns_nfd }, { "wcsnatcmp_fold_expanding", c_natcmp_exp }, { "wcsnatcmp_fold_expanding_src", c_natcmp_exp_src }, { "wcsicmp_expanding", c_icmp_exp },
    { "fprintf_a_70_digits", c_fprintf_a_long }, { "fprintf_La_70_digits", c_fprintf_La_long }, { "fprintf_Lf_70_digits", c_fprintf_Lf_long },
    { "sprintf_long_directive_nospc", c_longdir_nospc }, { "sprintf_long_directive", c_longdir_ok }, { "sprintf_long_directive_La_nospc", c_longdir_La_nospc }, { "snprintf_long_directive_trunc", c_longdir_trunc },
};
#define NC ((int)(sizeof cases / sizeof cases[0]))
static int verbose; static long n_runs, n_viol;
static long dry_count;
static int g_jump;
static void viol(const char *cs, const char *what, long k, long j, long count) {
    if (dry_count) count = dry_count;
    n_viol++;
    printf("{\"t\":\"viol\",\"sig\":\"C20|%s|%s|%s\",\"case\":\"%s %ld %ld%s\"}\n", cs, what, k == 0 ? "no-failure" : j > 0 ? "two-failures" : k == count ? "last-allocation" : k == 1 ? "first-allocation" : "middle-allocation", cs, k, j, g_jump ? " jump" : "");
}
/* returns number of allocation requests */
static long run_case(int ci, long k, long j) {
    Res res; memset(&res, 0, sizeof res);
    req_no = 0; fail_a = k > 0 ? k : -1; fail_b = j > 0 ? j : -1; live = 0; nblocks = 0; h_n = 0;
    int crashed = 0; n_runs++;
    int jumped = 0; h_jump = 0;
    if (sigsetjmp(jb, 1) == 0) { armed = 1;
        if (g_jump) { if (sigsetjmp(hjb, 1) == 0) { h_jump = 1; tracking = 1; cases[ci].fn(&res); tracking = 0; h_jump = 0; } else { jumped = 1; tracking = 0; } }
        else { tracking = 1; cases[ci].fn(&res); tracking = 0; }
        armed = 0; } else { crashed = 1; tracking = 0; h_jump = 0; }
    long count = req_no; int injected = (k > 0 && k <= count) || (j > 0 && j <= count);
    if (verbose) printf("case %s fail@%ld,%ld: requests=%ld crashed=%d rc=%ld failure_indicated=%d dest_cleared=%d live_blocks=%ld handler=%d\n", cases[ci].name, k, j, count, crashed, res.rc, res.failind, res.dest_cleared, live, h_n);
    if (crashed) { viol(cases[ci].name, "crash", k, j, count); return count; }
    if (jumped) { if (verbose) printf("  the handler left through longjmp; blocks still allocated by the library: %ld\n", live); if (live != 0) viol(cases[ci].name, "leak-when-the-handler-does-not-return", k, j, count); return count; }
    if (live != 0) viol(cases[ci].name, "leak", k, j, count);
    if (injected) {
        if (!res.failind) viol(cases[ci].name, "failure-not-indicated", k, j, count);
        else if (res.has_dest && !res.dest_cleared) viol(cases[ci].name, "dest-not-cleared", k, j, count);
    }
    return count;
}

int main(int argc, char **argv) {
    setvbuf(stdout, NULL, _IOLBF, 0); setlocale(LC_ALL, "C.UTF-8");
    void *L = dlopen(getenv("CAT_LIB"), RTLD_NOW | RTLD_GLOBAL);
    if (!L) { fprintf(stderr, "cannot load CAT_LIB: %s\n", dlerror()); return 2; }
    sprintf_p = dlsym(L, "_sprintf_s_chk"); snprintf_p = dlsym(L, "_snprintf_s_chk"); swprintf_p = dlsym(L, "_swprintf_s_chk"); snwprintf_p = dlsym(L, "_snwprintf_s_chk");
    wcsnorm_p = dlsym(L, "_wcsnorm_s_chk"); wcsicmp_p = dlsym(L, "_wcsicmp_s_chk"); wcsnatcmp_p = dlsym(L, "_wcsnatcmp_s_chk"); fprintf_p = dlsym(L, "fprintf_s"); vswprintf_p = dlsym(L, "_vswprintf_s_chk"); vsnwprintf_p = dlsym(L, "_vsnwprintf_s_chk");
    void *(*ss)(void *) = dlsym(L, "set_str_constraint_handler_s"), *(*sm)(void *) = dlsym(L, "set_mem_constraint_handler_s");
    if (!vswprintf_p || !vsnwprintf_p || !sprintf_p || !wcsnorm_p || !wcsicmp_p || !ss || !fprintf_p) { fprintf(stderr, "missing symbols\n"); return 2; }
    ss((void *)handler); sm((void *)handler);
    for (int i = 0; i < 150; i++) longsrc[i] = 0x00e9;   /* 150 x e-acute: decomposes to 300 elements */
    longsrc[150] = 0;
    marks[0] = 'a'; for (int i = 1; i <= 24; i++) marks[i] = 0x0300 + (i % 5); marks[25] = 0;      /* > CC_SEQ_SIZE + CC_SEQ_STEP combining marks */
    { int k = 0; tworuns[k++] = 'a'; for (int i = 0; i < 14; i++) tworuns[k++] = 0x0316 + (i % 3); tworuns[k++] = 'b'; for (int i = 0; i < 14; i++) tworuns[k++] = 0x0300 + (i % 5); tworuns[k++] = 'c'; for (int i = 0; i < 13; i++) tworuns[k++] = 0x0316 + (i % 2); tworuns[k] = 0; }      /* three separate runs, each longer than the on-stack sequence buffer */
    marks2[0] = 'e'; for (int i = 1; i <= 13; i++) marks2[i] = 0x0316 + (i % 3); marks2[14] = 0;
    static char alt[1 << 15]; stack_t sst = { .ss_sp = alt, .ss_size = sizeof alt }; sigaltstack(&sst, NULL);
    struct sigaction sa; memset(&sa, 0, sizeof sa); sa.sa_handler = on_segv; sa.sa_flags = SA_ONSTACK | SA_NODEFER; sigaction(SIGSEGV, &sa, NULL); sigaction(SIGABRT, &sa, NULL);
    if (argc >= 4 && !strcmp(argv[1], "replay")) {
        verbose = 1; int ci = -1; for (int i = 0; i < NC; i++) if (!strcmp(cases[i].name, argv[2])) ci = i;
        if (ci < 0) return 2;
        long before = n_viol; g_jump = argc > 5 && !strcmp(argv[5], "jump"); run_case(ci, atol(argv[3]), argc > 4 ? atol(argv[4]) : 0);
        printf(n_viol > before ? "VERDICT violation\n" : "VERDICT ok\n"); return n_viol > before;
    }
    int pairs = argc > 1 ? atoi(argv[1]) : 0; long sites = 0;
    for (int ci = 0; ci < NC; ci++) {
        dry_count = 0; long count = run_case(ci, 0, 0);            /* dry run: count requests, leak check */
        dry_count = count;
        printf("{\"t\":\"case\",\"name\":\"%s\",\"allocations\":%ld}\n", cases[ci].name, count);
        sites += count;
        g_jump = 1; run_case(ci, 0, 0); for (long k = 1; k <= count; k++) run_case(ci, k, 0); g_jump = 0;      /* the same failure positions with a handler that does not return */
        for (long k = 1; k <= count; k++) {
            run_case(ci, k, 0);
            if (pairs) for (long j = k + 1; j <= count + 1; j++) run_case(ci, k, j);
        }
    }
    printf("{\"t\":\"stat\",\"cases\":%d,\"allocation_requests\":%ld,\"runs\":%ld,\"violating\":%ld}\n", NC, sites, n_runs, n_viol);
    return 0;
}
