/* c15.c - C15 multibyte <-> wide conversions agree with libc and round-trip.
 * Strings of <= N characters over one representative per UTF-8 length plus invalid units; len and dmax
 * below/at/above the converted length; dest NULL (query) or not; the process runs in one locale.
 * usage: c15 <locale> <N> <shard> <nshards> | c15 replay <locale> <fn> <hexsrc> <dmax> <len> <destnull>   env CAT_LIB */
#define _GNU_SOURCE
#include <stdio.h>
#include <stdlib.h>
#include <string.h>
#include <wchar.h>
#include <locale.h>
#include <errno.h>
#include <signal.h>
#include <setjmp.h>
#include <sys/mman.h>
#include <dlfcn.h>
#include <limits.h>

#define PG 4096UL
#define BOSU ((size_t)-1)
static int (*f_mbstowcs)(size_t *, wchar_t *, size_t, const char *, size_t, size_t);
static int (*f_mbsrtowcs)(size_t *, wchar_t *, size_t, const char **, size_t, mbstate_t *, size_t);
static int (*f_wcstombs)(size_t *, char *, size_t, const wchar_t *, size_t, size_t);
static int (*f_wcsrtombs)(size_t *, char *, size_t, const wchar_t **, size_t, mbstate_t *, size_t);
static int (*f_wcrtomb)(size_t *, char *, size_t, wchar_t, mbstate_t *, size_t);
static int (*f_wctomb)(int *, char *, size_t, wchar_t, size_t);
static unsigned char *arena;   /* [guard][4 pages][guard] */
static sigjmp_buf jb; static volatile int armed;
static void on_segv(int s) { (void)s; if (!armed) _exit(3); armed = 0; siglongjmp(jb, 1); }
static int h_n, h_code; static void handler(const char *m, void *p, int e) { (void)m; (void)p; h_n++; h_code = e; }
static const char *loc;

static char sigs[96][220], sigcase[96][200]; static long sigcnt[96]; static int nsig; static long n_calls, n_viol, n_fault;
static void report(const char *fn, const char *what, const char *cls, const char *cs) {
    char sig[220]; snprintf(sig, sizeof sig, "C15|%s|%s|%s|%s", fn, what, cls, loc); n_viol++;
    for (int i = 0; i < nsig; i++) if (!strcmp(sigs[i], sig)) { sigcnt[i]++; return; }
    if (nsig < 96) { strcpy(sigs[nsig], sig); strncpy(sigcase[nsig], cs, 199); sigcnt[nsig] = 1; nsig++; }
}
static int verbose;
static void *dest_at(size_t elems, size_t w) { return arena + PG + 4 * PG - elems * w; }   /* exact fit, flush against the guard */

/* relation class of dmax/len to the converted length */
static const char *cls(size_t need, size_t dmax, size_t len, int dnull, int valid, char *b) {
    sprintf(b, "%s,%s,%s,%s", valid ? "valid" : "invalid-seq", dnull ? "query" : need + 1 <= dmax ? "fits" : need == dmax ? "need=dmax" : "need>dmax",
            len > dmax && !dnull ? "len>dmax" : len < need ? "len<need" : "len>=need", need == 0 ? "empty" : "nonempty");
    return b;
}

/* ---- mb -> wide */
/* split > 0 (mbsrtowcs_s only): the first split bytes of src (an incomplete character) have already been consumed into the state object by mbrtowc;
   the call continues from that state on the rest, as the standard function does */
static unsigned char *uarea;
static int g_unterm_mb;      /* the multibyte source is handed over without its terminator, its last byte in front of an inaccessible page (len ends the conversion) */
static void t_mbstowcs(const char *src0, size_t dmax, size_t len, int dnull, int restart, int split) {
    const char *src = src0 + split;
    char cs[200], hx[80] = "", cb[140]; for (size_t i = 0; src0[i]; i++) sprintf(hx + 2 * i, "%02x", (unsigned char)src0[i]); if (!src0[0]) strcpy(hx, "-");
    const char *fn = restart ? "mbsrtowcs_s" : "mbstowcs_s";
    snprintf(cs, sizeof cs, "%s %s %s %zu %zu %d %d %d", loc, fn, hx, dmax, len, dnull, split, g_unterm_mb);
    const char *given = src;
    if (g_unterm_mb) { size_t nb = strlen(src); char *u = (char *)(uarea + 2 * PG) - nb; memcpy(u, src, nb); given = u; }
    mbstate_t primed; memset(&primed, 0, sizeof primed);
    if (split) { wchar_t t; if (mbrtowc(&t, src0, split, &primed) != (size_t)-2) return; }   /* not an incomplete character in this locale: no such history */
    /* reference */
    wchar_t ref[64]; mbstate_t st = primed; const char *sp = src;
    size_t full = mbsrtowcs(NULL, &sp, 0, &st); int valid = full != (size_t)-1;
    st = primed; sp = src; size_t rn = mbsrtowcs(ref, &sp, len < 60 ? len : 60, &st);
    int valid_prefix = rn != (size_t)-1;      /* the part libc is asked to convert is valid */
    size_t need = valid_prefix ? rn : 0;
    wchar_t *dest = dnull ? NULL : dest_at(dmax, sizeof(wchar_t));
    if (dest) for (size_t i = 0; i < dmax; i++) dest[i] = 0x5a5a;
    size_t ret = 0x7777; int rc = 0, faulted = 0; h_n = 0; errno = 84; n_calls++;   /* an earlier call may have left errno set: results must not depend on it */
    mbstate_t ps = primed; const char *srcp = given;
    if (sigsetjmp(jb, 1) == 0) { armed = 1;
        rc = restart ? f_mbsrtowcs(&ret, dest, dnull ? (dmax ? 64 : 0) : dmax, &srcp, len, &ps, BOSU) : f_mbstowcs(&ret, dest, dnull ? (dmax ? 64 : 0) : dmax, given, len, BOSU);   /* query form: dest NULL, dmax is 0 or only a limit */
        armed = 0; } else faulted = 1;
    if (verbose) { printf("%s: rc=%d *retvalp=%zu handler=%d fault=%d  libc: full=%zd valid=%d need=%zu\n", fn, rc, ret, h_n, faulted, (ssize_t)full, valid, need); if (dest && !faulted) { printf("  dest:"); for (size_t i = 0; i < dmax; i++) printf(" %x", (unsigned)dest[i]); printf("\n"); } }
    if (faulted) { n_fault++; report(fn, "access-outside-the-space-available", "fault", cs); return; }   /* 'limited to the space available' is part of this property too */
    cls(need, dmax, len, dnull, valid_prefix, cb); if (split) strcat(cb, ",continues-a-pending-character"); if (g_unterm_mb) strcat(cb, ",source-ends-at-len-without-terminator");
    if (dnull) {
        if (valid && len >= full) { if (rc != 0 || ret != full) report(fn, "query-wrong-length", cb, cs); }
        else if (!valid_prefix && rc == 0) report(fn, "query-accepts-invalid-sequence", cb, cs);
        return;
    }
    if (!valid_prefix) {
        if (rc == 0) { report(fn, "invalid-sequence-accepted", cb, cs); return; }
        if (dest[0] != 0) report(fn, "dest-not-cleared-on-invalid-sequence", cb, cs);
        if (restart && !split) {   /* the state object must be usable again (with a pending character handed in, "usable" is what was handed in: not judged) */
            size_t r2 = 0x7777; const char *ok = "ok"; const char *okp = ok; wchar_t *d2 = dest_at(4, sizeof(wchar_t));
            int rc2 = f_mbsrtowcs(&r2, d2, 4, &okp, 4, &ps, BOSU);
            if (rc2 != 0 || r2 != 2 || d2[0] != L'o' || d2[1] != L'k') report(fn, "state-unusable-after-invalid-sequence", cb, cs);
        }
        return;
    }
    if (need + 1 <= dmax) {
        if (rc != 0) { report(fn, "valid-conversion-failed", cb, cs); return; }
        if (ret != need) { report(fn, "wrong-count", cb, cs); return; }
        for (size_t i = 0; i < need; i++) if (dest[i] != ref[i]) { report(fn, "wrong-characters", cb, cs); return; }
        if (dest[need] != 0) { report(fn, "not-terminated", cb, cs); return; }
        if (restart && len <= dmax && !g_unterm_mb) { if (srcp != sp) report(fn, "wrong-source-pointer", cb, cs); }   /* sp: where libc left the pointer for the same len */
    } else {
        if (rc == 0) { report(fn, "success-without-room-for-terminator", cb, cs); return; }
        if (dest[0] != 0) report(fn, "dest-not-cleared-on-no-space", cb, cs);
    }
}
/* ---- wide -> mb */
/* unterm: the source is an array of exactly its characters with no terminator, flush against an inaccessible page; only used where len ends the
   conversion before a terminator would be looked at (single-byte characters, len <= their number), which is what the standard function allows */
static void t_wcstombs(const wchar_t *src, size_t dmax, size_t len, int dnull, int restart, int unterm) {
    char cs[200], hx[120] = "", cb[180]; size_t wl = wcslen(src); for (size_t i = 0; i < wl; i++) sprintf(hx + strlen(hx), "%x.", (unsigned)src[i]); if (!wl) strcpy(hx, "-");
    const char *fn = restart ? "wcsrtombs_s" : "wcstombs_s";
    snprintf(cs, sizeof cs, "%s %s %s %zu %zu %d %d", loc, fn, hx, dmax, len, dnull, unterm);
    const wchar_t *given = src;
    if (unterm) { wchar_t *u = (wchar_t *)(uarea + 2 * PG) - wl; memcpy(u, src, wl * sizeof(wchar_t)); given = u; }
    char ref[128]; mbstate_t st; memset(&st, 0, sizeof st); const wchar_t *sp = src;
    size_t full = wcsrtombs(NULL, &sp, 0, &st); int valid = full != (size_t)-1;
    memset(&st, 0, sizeof st); sp = src; size_t rn = wcsrtombs(ref, &sp, len < 120 ? len : 120, &st);
    int valid_prefix = rn != (size_t)-1; size_t need = valid_prefix ? rn : 0;
    char *dest = dnull ? NULL : dest_at(dmax, 1);
    if (dest) memset(dest, 0x5a, dmax);
    size_t ret = 0x7777; int rc = 0, faulted = 0; h_n = 0; errno = 84; n_calls++;   /* an earlier call may have left errno set: results must not depend on it */
    mbstate_t ps; memset(&ps, 0, sizeof ps); const wchar_t *srcp = given;
    if (sigsetjmp(jb, 1) == 0) { armed = 1;
        rc = restart ? f_wcsrtombs(&ret, dest, dnull ? 64 : dmax, &srcp, len, &ps, BOSU) : f_wcstombs(&ret, dest, dnull ? 64 : dmax, given, len, BOSU);
        armed = 0; } else faulted = 1;
    if (verbose) { printf("%s: rc=%d *retvalp=%zu handler=%d fault=%d  libc: full=%zd need(len-limited)=%zu\n", fn, rc, ret, h_n, faulted, (ssize_t)full, need); if (dest && !faulted) { printf("  dest:"); for (size_t i = 0; i < dmax; i++) printf(" %02x", (unsigned char)dest[i]); printf("\n"); } }
    if (faulted) { n_fault++; report(fn, "access-outside-the-space-available", "fault", cs); return; }
    cls(need, dmax, len, dnull, valid_prefix, cb); if (unterm) strcat(cb, ",source-ends-at-len-without-terminator");
    if (dnull) {
        if (valid && len >= full) { if (rc != 0 || ret != full) report(fn, "query-wrong-length", cb, cs); }
        return;
    }
    if (!valid_prefix) {
        if (rc == 0) { report(fn, "invalid-character-accepted", cb, cs); return; }
        if (dest[0] != 0) report(fn, "dest-not-cleared-on-invalid-character", cb, cs);
        if (restart) { size_t r2 = 0; const wchar_t *okp = L"ok"; char *d2 = dest_at(4, 1); int rc2 = f_wcsrtombs(&r2, d2, 4, &okp, 4, &ps, BOSU); if (rc2 != 0 || r2 != 2 || d2[0] != 'o') report(fn, "state-unusable-after-invalid-character", cb, cs); }
        return;
    }
    if (need + 1 <= dmax) {
        if (rc != 0) { report(fn, "valid-conversion-failed", cb, cs); return; }
        if (ret != need) { report(fn, "wrong-count", cb, cs); return; }
        if (memcmp(dest, ref, need)) { report(fn, "wrong-bytes", cb, cs); return; }
        if (dest[need] != 0) { report(fn, "not-terminated", cb, cs); return; }
        /* round trip: back to wide through the library's own converter */
        if (valid && len >= full && !restart) {
            size_t r3 = 0; wchar_t *w2 = (wchar_t *)(arena + PG); int rc3 = f_mbstowcs(&r3, w2, 64, dest, 64, BOSU);
            if (rc3 != 0 || r3 != wl || wmemcmp(w2, src, wl)) report(fn, "round-trip-changes-string", cb, cs);
        }
    } else {
        if (rc == 0) { report(fn, "success-without-room-for-terminator", cb, cs); return; }
        if (dest[0] != 0) report(fn, "dest-not-cleared-on-no-space", cb, cs);
    }
}
static void t_wc1(wchar_t wc, size_t dmax, int dnull, int which) {
    char cs[200], cb[64]; const char *fn = which ? "wctomb_s" : "wcrtomb_s";
    snprintf(cs, sizeof cs, "%s %s %x. %zu 0 %d", loc, fn, (unsigned)wc, dmax, dnull);
    char ref[MB_LEN_MAX + 1]; mbstate_t st; memset(&st, 0, sizeof st); size_t need = wcrtomb(ref, wc, &st); int valid = need != (size_t)-1;
    char *dest = dnull ? NULL : dest_at(dmax, 1); if (dest) memset(dest, 0x5a, dmax);
    size_t ret = 0x7777; int reti = 0x7777; int rc = 0, faulted = 0; h_n = 0; errno = 84; n_calls++;   /* an earlier call may have left errno set: results must not depend on it */ mbstate_t ps; memset(&ps, 0, sizeof ps);
    if (sigsetjmp(jb, 1) == 0) { armed = 1; rc = which ? f_wctomb(&reti, dest, dnull ? 0 : dmax, wc, BOSU) : f_wcrtomb(&ret, dest, dnull ? 0 : dmax, wc, &ps, BOSU); armed = 0; } else faulted = 1;
    if (which) ret = (size_t)reti;
    if (verbose) printf("%s: rc=%d *retvalp=%zd fault=%d libc need=%zd\n", fn, rc, (ssize_t)ret, faulted, (ssize_t)need);
    if (faulted) { n_fault++; report(fn, "access-outside-the-space-available", "fault", cs); return; }
    sprintf(cb, "%s,%s", valid ? "valid" : "invalid-char", dnull ? "query" : !valid ? "-" : need + 1 <= dmax ? "fits" : "need>=dmax");
    if (dnull) { if (which && (rc != 0 || h_n)) report(fn, "state-query-with-null-dest-fails", cb, cs); return; }      /* wctomb_s(&r, NULL, 0, wc): does the encoding have state - never an error, whatever errno held */
    if (!valid) { if (rc == 0) report(fn, "invalid-character-accepted", cb, cs); else if (dest[0] != 0) report(fn, "dest-not-cleared-on-invalid-character", cb, cs); return; }
    if (wc == 0 || need == 0) return;      /* an empty conversion (the terminator; characters glibc's ASCII converter silently drops, U+E0000..E007F) is not judged */
    if (need + 1 <= dmax) {
        if (rc != 0) { report(fn, "valid-conversion-failed", cb, cs); return; }
        if (ret != need) { report(fn, "wrong-count", cb, cs); return; }
        if (memcmp(dest, ref, need)) report(fn, "wrong-bytes", cb, cs);
    } else if (rc == 0) report(fn, "success-without-room", cb, cs);
    else if (dest[0] != 0) report(fn, "dest-not-cleared-on-no-space", cb, cs);
}

/* long conversions into a destination whose size the compiler knows (the limit of such a call is the documented RSIZE_MAX_STR / RSIZE_MAX_WSTR,
 * not a smaller internal one): n single-byte or two-byte characters, results compared with the C library's */
static int g_long_unknown;      /* the object size is not passed: the documented limit of the char destinations is RSIZE_MAX_STR all the same */
static void t_long(int which, size_t n, int twobyte) {
    static wchar_t w[4100], wout[4100]; static char mb[8300], out[8300]; char cs[200], cb[64];
    if (twobyte && MB_CUR_MAX < 2) return;
    static const char *FN[] = { "wcstombs_s", "wcsrtombs_s", "mbstowcs_s", "mbsrtowcs_s" };
    for (size_t i = 0; i < n; i++) w[i] = twobyte ? 0xe9 : 'a' + i % 26; w[n] = 0;
    size_t nb = wcstombs(mb, w, sizeof mb); if (nb == (size_t)-1) return;
    snprintf(cs, sizeof cs, "%s %s long %zu %d %d %d", loc, FN[which], n, twobyte, which, g_long_unknown); snprintf(cb, sizeof cb, "long,%s%s", twobyte ? "two-byte" : "single-byte", g_long_unknown ? ",object-size-unknown" : "");
    if (g_long_unknown && which >= 2) return;
    size_t ret = 0x7777; int rc = 0, faulted = 0; h_n = 0; errno = 0; n_calls++; mbstate_t ps; memset(&ps, 0, sizeof ps);
    if (which < 2) {
        size_t dmax = nb + 1; if (dmax > 4096) return; memset(out, 0x5a, sizeof out); const wchar_t *sp = w;
        if (sigsetjmp(jb, 1) == 0) { armed = 1; rc = which ? f_wcsrtombs(&ret, out, dmax, &sp, dmax, &ps, g_long_unknown ? BOSU : dmax) : f_wcstombs(&ret, out, dmax, w, dmax, g_long_unknown ? BOSU : dmax); armed = 0; } else faulted = 1;
        if (verbose) printf("%s: %zu characters -> %zu bytes, dmax=len=object size=%zu: rc=%d *retvalp=%zu fault=%d handler=%d\n", FN[which], n, nb, dmax, rc, ret, faulted, h_n);
        if (faulted) { report(FN[which], "crash", cb, cs); return; }
        if (rc != 0 || ret != nb || memcmp(out, mb, nb + 1)) report(FN[which], rc ? "failure-on-valid" : "wrong-result", cb, cs);
    } else {
        size_t dmax = n + 1; if (dmax > 1024) return; const char *sp = mb;
        if (sigsetjmp(jb, 1) == 0) { armed = 1; rc = which == 3 ? f_mbsrtowcs(&ret, wout, dmax, &sp, dmax, &ps, dmax * sizeof(wchar_t)) : f_mbstowcs(&ret, wout, dmax, mb, dmax, dmax * sizeof(wchar_t)); armed = 0; } else faulted = 1;
        if (verbose) printf("%s: %zu bytes -> %zu characters, dmax=len=%zu: rc=%d *retvalp=%zu fault=%d handler=%d\n", FN[which], nb, n, dmax, rc, ret, faulted, h_n);
        if (faulted) { report(FN[which], "crash", cb, cs); return; }
        if (rc != 0 || ret != n || memcmp(wout, w, (n + 1) * sizeof(wchar_t))) report(FN[which], rc ? "failure-on-valid" : "wrong-result", cb, cs);
    }
}

int main(int argc, char **argv) {
    setvbuf(stdout, NULL, _IOLBF, 0);
    if (argc < 5) return 2;
    int replay = !strcmp(argv[1], "replay");
    loc = replay ? argv[2] : argv[1];
    /* "A>B": a history over locales: every converter is called once under locale A, then the enumeration runs under B */
    char first[64] = "", second[64]; snprintf(second, sizeof second, "%s", loc);
    if (strchr(loc, '>')) { snprintf(first, sizeof first, "%.*s", (int)(strchr(loc, '>') - loc), loc); snprintf(second, sizeof second, "%s", strchr(loc, '>') + 1); }
    /* "P+T": process locale P through setlocale, the calling thread's locale T through uselocale: libc converts by the thread's locale */
    char thr[64] = ""; if (strchr(loc, '+')) { snprintf(thr, sizeof thr, "%s", strchr(loc, '+') + 1); snprintf(second, sizeof second, "%.*s", (int)(strchr(loc, '+') - loc), loc); first[0] = 0; }
    if (!setlocale(LC_ALL, first[0] ? first : second)) { fprintf(stderr, "cannot set locale %s\n", loc); return 2; }
    if (thr[0]) { locale_t nl = newlocale(LC_ALL_MASK, thr, (locale_t)0); if (!nl) { fprintf(stderr, "cannot create locale %s\n", thr); return 2; } uselocale(nl); }
    void *L = dlopen(getenv("CAT_LIB"), RTLD_NOW | RTLD_GLOBAL);
    if (!L) { fprintf(stderr, "cannot load CAT_LIB\n"); return 2; }
    *(void **)&f_mbstowcs = dlsym(L, "_mbstowcs_s_chk"); *(void **)&f_mbsrtowcs = dlsym(L, "_mbsrtowcs_s_chk"); *(void **)&f_wcstombs = dlsym(L, "_wcstombs_s_chk");
    *(void **)&f_wcsrtombs = dlsym(L, "_wcsrtombs_s_chk"); *(void **)&f_wcrtomb = dlsym(L, "_wcrtomb_s_chk"); *(void **)&f_wctomb = dlsym(L, "_wctomb_s_chk");
    void *(*ss)(void *) = dlsym(L, "set_str_constraint_handler_s");
    if (!f_mbstowcs || !f_mbsrtowcs || !f_wcstombs || !f_wcsrtombs || !f_wcrtomb || !f_wctomb || !ss) { fprintf(stderr, "missing symbols\n"); return 2; }
    ss((void *)handler);
    arena = mmap(NULL, 6 * PG, PROT_NONE, MAP_PRIVATE | MAP_ANONYMOUS, -1, 0); mprotect(arena + PG, 4 * PG, PROT_READ | PROT_WRITE);
    uarea = mmap(NULL, 3 * PG, PROT_NONE, MAP_PRIVATE | MAP_ANONYMOUS, -1, 0); mprotect(uarea, 2 * PG, PROT_READ | PROT_WRITE);
    signal(SIGSEGV, on_segv);
    if (first[0]) {
        size_t r; int ri; wchar_t wb[8]; char cb[16]; const char *sp = "a"; const wchar_t *wp = L"a"; mbstate_t st; memset(&st, 0, sizeof st);
        f_mbstowcs(&r, wb, 8, "a", 1, BOSU); f_mbsrtowcs(&r, wb, 8, &sp, 1, &st, BOSU); f_wcstombs(&r, cb, 16, L"a", 1, BOSU); f_wcsrtombs(&r, cb, 16, &wp, 1, &st, BOSU);
        f_wcrtomb(&r, cb, 16, L'a', &st, BOSU); f_wctomb(&ri, cb, 16, L'a', BOSU);
        if (!setlocale(LC_ALL, second)) { fprintf(stderr, "cannot set locale %s\n", second); return 2; }
    }
    /* alphabets */
    static const char *MB[] = { "a", "\xc3\xa9", "\xe2\x82\xac", "\xf0\x9f\x98\x80", "\x80", "\xc3", "\xed\xa0\x80", "\xf5" };
    static const wchar_t WC[] = { L'a', 0xe9, 0x20ac, 0x1f600, 0xd800, 0x110000 };
    if (replay) {
        verbose = 1; const char *fn = argv[3]; size_t dmax = atol(argv[5]), len = atol(argv[6]); int dnull = atoi(argv[7]); int extra = argc > 8 ? atoi(argv[8]) : 0; g_unterm_mb = argc > 9 ? atoi(argv[9]) : 0;
        if (!strcmp(argv[4], "long")) { g_long_unknown = argc > 8 ? atoi(argv[8]) : 0; t_long(atoi(argv[7]), atol(argv[5]), atoi(argv[6])); if (nsig) { printf("VERDICT violation %s\n", sigs[0]); return 1; } printf("VERDICT ok\n"); return 0; }
        if (!strncmp(fn, "mb", 2)) { char s[64]; int n = 0; if (strcmp(argv[4], "-")) for (; argv[4][2 * n]; n++) { unsigned v; sscanf(argv[4] + 2 * n, "%2x", &v); s[n] = v; } s[n] = 0; t_mbstowcs(s, dmax, len, dnull, !strcmp(fn, "mbsrtowcs_s"), extra); }
        else { wchar_t w[32]; int n = 0; char *t = strdup(argv[4]); if (strcmp(t, "-")) for (char *p = strtok(t, "."); p; p = strtok(NULL, ".")) w[n++] = strtoul(p, 0, 16); w[n] = 0;
               if (!strcmp(fn, "wcrtomb_s")) t_wc1(w[0], dmax, dnull, 0); else if (!strcmp(fn, "wctomb_s")) t_wc1(w[0], dmax, dnull, 1); else t_wcstombs(w, dmax, len, dnull, !strcmp(fn, "wcsrtombs_s"), extra); }
        if (nsig) { printf("VERDICT violation %s\n", sigs[0]); return 1; }
        printf("VERDICT ok%s\n", n_fault ? " (faulted: judged by C01/C02)" : ""); return 0;
    }
    if (!strcmp(argv[2], "sweep")) {            /* every code point (and a few values beyond) through the single-character converters */
        long shard = atol(argv[3]), nsh = atol(argv[4]);
        for (long wc = 1; wc <= 0x110100; wc++) { if ((wc % nsh) != shard) continue;
            for (int which = 0; which < 2; which++) { t_wc1((wchar_t)wc, 1, 0, which); t_wc1((wchar_t)wc, 3, 0, which); t_wc1((wchar_t)wc, 5, 0, which); t_wc1((wchar_t)wc, 8, 0, which); }
            char ref[MB_LEN_MAX + 1]; mbstate_t st; memset(&st, 0, sizeof st); size_t n = wcrtomb(ref, (wchar_t)wc, &st);
            if (n != (size_t)-1 && n > 0) { ref[n] = 0; t_mbstowcs(ref, 2, 1, 0, 0, 0); t_mbstowcs(ref, 2, 4, 0, 1, 0); for (size_t j = 1; j < n; j++) { t_mbstowcs(ref, 2, 4, 0, 1, (int)j); t_mbstowcs(ref, 0, 4, 1, 1, (int)j); } } }
        for (int i = 0; i < nsig; i++) printf("{\"t\":\"viol\",\"sig\":\"%s\",\"n\":%ld,\"case\":\"%s\"}\n", sigs[i], sigcnt[i], sigcase[i]);
        printf("{\"t\":\"stat\",\"locale\":\"%s\",\"calls\":%ld,\"faulted_left_to_C01\":%ld,\"violating\":%ld}\n", loc, n_calls, n_fault, n_viol);
        return 0;
    }
    int N = atoi(argv[2]); long shard = atol(argv[3]), nsh = atol(argv[4]); long idx = 0;
    for (int nc = 0; nc <= N; nc++) {
        long cnt = 1; for (int i = 0; i < nc; i++) cnt *= 8;
        for (long c = 0; c < cnt; c++) {
            if ((idx++ % nsh) != shard) continue;
            char s[64] = ""; long t = c; int ninv = 0; for (int i = 0; i < nc; i++) { int k = t % 8; t /= 8; strcat(s, MB[k]); if (k >= 4) ninv++; }
            if (ninv > 1) continue;                                   /* at most one invalid unit per string */
            size_t bytes = strlen(s); size_t full = mbstowcs(NULL, s, 0); size_t nch = full == (size_t)-1 ? (size_t)nc : full;
            size_t dms[6] = { nch ? nch : 1, nch + 1, nch + 3, 1, 2, bytes + 1 }; size_t lens[6] = { 0, nch ? nch - 1 : 0, nch, nch + 1, nch + 5, bytes + 4 };
            for (int di = 0; di < 6; di++) for (int li = 0; li < 6; li++) for (int r = 0; r < 2; r++) {
                int dup = 0; for (int k = 0; k < di; k++) if (dms[k] == dms[di]) dup = 1; for (int k = 0; k < li; k++) if (lens[k] == lens[li]) dup = 1; if (dup) continue;
                t_mbstowcs(s, dms[di], lens[li], 0, r, 0);
                if (di == 0) { t_mbstowcs(s, 0, lens[li], 1, r, 0); t_mbstowcs(s, 64, lens[li], 1, r, 0); }
                if (nc && bytes == (size_t)nc && ninv == 0 && di == 0 && li == 0) { g_unterm_mb = 1;      /* single-byte characters only: with multibyte ones libc itself looks beyond the len characters */ for (size_t dmx = nch + 1; dmx <= nch + 2; dmx++) t_mbstowcs(s, dmx, nch, 0, r, 0); g_unterm_mb = 0; }
                if (r && nc) { size_t fb = strlen(MB[c % 8]);      /* histories: 1..3 bytes of the first unit already pending in the state object */
                    for (size_t j = 1; j < fb; j++) { t_mbstowcs(s, dms[di], lens[li], 0, 1, (int)j); if (di == 0) { t_mbstowcs(s, 0, lens[li], 1, 1, (int)j); t_mbstowcs(s, 64, lens[li], 1, 1, (int)j); } } }
            }
        }
    }
    for (int nc = 0; nc <= N; nc++) {
        long cnt = 1; for (int i = 0; i < nc; i++) cnt *= 6;
        for (long c = 0; c < cnt; c++) {
            if ((idx++ % nsh) != shard) continue;
            wchar_t w[16]; long t = c; int ninv = 0; for (int i = 0; i < nc; i++) { int k = t % 6; t /= 6; w[i] = WC[k]; if (k >= 4) ninv++; } w[nc] = 0;
            if (ninv > 1) continue;
            size_t full = wcstombs(NULL, w, 0); size_t nb = full == (size_t)-1 ? (size_t)nc * 2 : full;
            size_t dms[7] = { nb ? nb : 1, nb + 1, nb + 4, 1, 2, nb > 1 ? nb - 1 : 1, 4 }; size_t lens[6] = { 0, nb ? nb - 1 : 0, nb, nb + 1, nb + 6, 3 };
            for (int di = 0; di < 7; di++) for (int li = 0; li < 6; li++) for (int r = 0; r < 2; r++) {
                int dup = 0; for (int k = 0; k < di; k++) if (dms[k] == dms[di]) dup = 1; for (int k = 0; k < li; k++) if (lens[k] == lens[li]) dup = 1; if (dup) continue;
                t_wcstombs(w, dms[di], lens[li], 0, r, 0);
                if (di == 0) t_wcstombs(w, 0, lens[li], 1, r, 0);
            }
            int ascii = nc > 0; for (int i = 0; i < nc; i++) if (w[i] >= 0x80) ascii = 0;
            if (ascii) for (size_t len = 0; len <= (size_t)nc; len++) for (size_t dmax = len + 1; dmax <= len + 3; dmax++) for (int r = 0; r < 2; r++) t_wcstombs(w, dmax, len, 0, r, 1);
        }
    }
    if (shard == 0) for (int k = 0; k < 6; k++) for (size_t dmax = 1; dmax <= 6; dmax++) for (int which = 0; which < 2; which++) { t_wc1(WC[k], dmax, 0, which); }
    if (shard == 0) for (int k = 0; k < 4; k++) for (int which = 0; which < 2; which++) t_wc1(WC[k], 0, 1, which);      /* the query forms */
    /* wchar_t values beyond U+10FFFF: glibc's UTF-8 converter still encodes them, in 4, 5 and 6 bytes (MB_CUR_MAX is 6) */
    if (shard == 0) { static const wchar_t BIGW[] = { 0x110000, 0x1fffff, 0x200000, 0x3ffffff, 0x4000000, 0x7fffffff, (wchar_t)0x80000000, (wchar_t)-1 };
        for (int k = 0; k < 8; k++) for (size_t dmax = 1; dmax <= 9; dmax++) for (int which = 0; which < 2; which++) t_wc1(BIGW[k], dmax, 0, which);
        for (int k = 0; k < 8; k++) { wchar_t w[3] = { 'a', BIGW[k], 0 }; for (size_t dmax = 1; dmax <= 9; dmax++) for (int r = 0; r < 2; r++) t_wcstombs(w, dmax, 8, 0, r, 0); } }
    /* strings of the five- and six-byte characters: all of length 1..3 over {U+200000, U+7FFFFFFF, a}, dmax around what they need and well above */
    if (shard == 0) { static const wchar_t BA[] = { 0x200000, 0x7fffffff, 'a' };
        for (int nc = 1; nc <= 3; nc++) { long cnt = 1; for (int i = 0; i < nc; i++) cnt *= 3;
            for (long c = 0; c < cnt; c++) { wchar_t w[4]; long t = c; for (int i = 0; i < nc; i++) { w[i] = BA[t % 3]; t /= 3; } w[nc] = 0;
                size_t nb = wcstombs(NULL, w, 0); if (nb == (size_t)-1) continue;
                size_t dms[5] = { nb > 1 ? nb - 1 : 1, nb, nb + 1, 16, 20 };
                for (int di = 0; di < 5; di++) for (int r = 0; r < 2; r++) { t_wcstombs(w, dms[di], dms[di] + 1, 0, r, 0); t_wcstombs(w, dms[di], nb, 0, r, 0); } } } }
    if (shard == 0) { static const size_t LN[] = { 600, 1000, 1023, 1024, 1500, 2047, 2048, 4000, 4095 };
        for (g_long_unknown = 0; g_long_unknown < 2; g_long_unknown++) for (int which = 0; which < 4; which++) for (int li = 0; li < 9; li++) for (int tb = 0; tb < 2; tb++) t_long(which, LN[li], tb); g_long_unknown = 0; }
    for (int i = 0; i < nsig; i++) printf("{\"t\":\"viol\",\"sig\":\"%s\",\"n\":%ld,\"case\":\"%s\"}\n", sigs[i], sigcnt[i], sigcase[i]);
    printf("{\"t\":\"stat\",\"locale\":\"%s\",\"calls\":%ld,\"faulted_left_to_C01\":%ld,\"violating\":%ld}\n", loc, n_calls, n_fault, n_viol);
    return 0;
}
