/* special.c - the memory / termination / reporting oracles (C01 C02 C03 C04 C05 C08) for the entry points
 * whose shape does not fit the role-driven catalogue: formatted output to buffers (narrow and wide), the
 * multibyte converters, fold/normalize, strerror_s, asctime_s/ctime_s, gmtime_s/localtime_s, getenv_s,
 * gets_s. Every destination is exact-fit flush against a guard page (write-trap, or PROT_NONE for C02),
 * pre-filled without any NUL.
 * usage: special <prop> <variant> <locale> <group|all> | special replay <prop> <variant> <locale> <case...>   env CAT_LIB */
#define _GNU_SOURCE
#include <stdio.h>
#include <stdlib.h>
#include <string.h>
#include <stdarg.h>
#include <wchar.h>
#include <locale.h>
#include <errno.h>
#include <signal.h>
#include <setjmp.h>
#include <sys/mman.h>
#include <dlfcn.h>
#include <time.h>
#include <ucontext.h>
#include <stdint.h>
#include <unistd.h>

#define PG 4096UL
#define BOSU ((size_t)-1)
enum { SP = 1, CE = 2, SL = 4 };
static int P; static const char *g_prop, *g_variant, *g_loc; static int prod;
static void *L;
/* ---- arena: slots with a guard page after (R) */
#define NSLOT 4
static unsigned char *slot[NSLOT];      /* each: [guard][4 pages][guard]; slot[i] points at the data start */
#define SLOTSZ (4 * PG)
static void arena_init(void) {
    for (int i = 0; i < NSLOT; i++) {
        unsigned char *r = mmap(NULL, SLOTSZ + 2 * PG, PROT_READ | PROT_WRITE, MAP_PRIVATE | MAP_ANONYMOUS, -1, 0);
        memset(r, 0xEE, PG); memset(r + PG + SLOTSZ, 0xEE, PG);
        int gp = P == 2 ? PROT_NONE : PROT_READ;
        mprotect(r, PG, gp); mprotect(r + PG + SLOTSZ, PG, gp);
        slot[i] = r + PG;
    }
}
static void *flush(int s, size_t bytes) { return slot[s] + SLOTSZ - bytes; }
/* a read-only source placed flush against its guard */
static void *mksrc(int s, const void *data, size_t bytes) { mprotect(slot[s], SLOTSZ, PROT_READ | PROT_WRITE); void *p = flush(s, bytes); memset(slot[s], 0xEE, SLOTSZ - bytes); memcpy(p, data, bytes); mprotect(slot[s], SLOTSZ, PROT_READ); return p; }

static sigjmp_buf jb; static volatile int armed; static int fault, fault_slot; static long fault_off;
static unsigned char *cur_dest; static size_t cur_dbytes;
static void on_sig(int sig, siginfo_t *si, void *ucv) {
    if (!armed) { static const char m[] = "{\"t\":\"internal\",\"msg\":\"fault outside armed region\"}\n"; if (write(1, m, sizeof m - 1)) {} _exit(3); }
    armed = 0; ucontext_t *uc = ucv;
    fault = sig == SIGSEGV ? ((uc->uc_mcontext.gregs[REG_ERR] & 2) ? 1 : 2) : 3;
    unsigned char *a = si->si_addr; fault_slot = -1;
    for (int i = 0; i < NSLOT; i++) if (a >= slot[i] - PG && a < slot[i] + SLOTSZ + PG) { fault_slot = i; fault_off = a - (slot[i] + SLOTSZ); }
    siglongjmp(jb, 1);
}
static int h_n, h_code[4];
static void handler(const char *m, void *p, int e) { (void)m; (void)p; if (h_n < 4) h_code[h_n] = e; h_n++; errno = 0; }   /* a handler may do anything, e.g. log through stdio: errno is not preserved */

static char sigs[256][220], sigcase[256][260]; static long sigcnt[256]; static int nsig; static long n_cases, n_nontriv;
static const char *cur_fn, *cur_rel; static char cur_cs[260];
static void report(const char *what) {
    char sig[220]; snprintf(sig, sizeof sig, "%s|%s|%s|%s%s%s", g_prop, cur_fn, what, cur_rel, prod ? "" : "|", prod ? "" : g_variant);
    for (int i = 0; i < nsig; i++) if (!strcmp(sigs[i], sig)) { sigcnt[i]++; return; }
    if (nsig < 256) { strcpy(sigs[nsig], sig); strncpy(sigcase[nsig], cur_cs, 259); sigcnt[nsig] = 1; nsig++; }
}
static int verbose;
static const char *exp_str; static int exp_mustfail;   /* C06: expected dest contents on success / the complete result cannot fit */

/* ---- destination object */
typedef struct { unsigned char *p; size_t n; int w; size_t obj; unsigned char prior[4200]; } Dest;
static Dest D; static unsigned char before_byte = 0xEE;
static void *mkdest(size_t dmax, int w, size_t extra_elems) {
    D.n = dmax; D.w = w; D.obj = (dmax + extra_elems) * w;
    if (D.obj > sizeof D.prior) D.obj = sizeof D.prior;
    D.p = flush(0, D.obj); memset(slot[0], 0xEE, SLOTSZ - D.obj);
    memset(D.p, 0xAA, D.obj); memcpy(D.prior, D.p, D.obj);
    cur_dest = D.p; cur_dbytes = D.obj; before_byte = 0xEE;
    return D.p;
}
/* dest at the very start of its slot: the page in front of it is the guard (a read or write before dest faults) */
static void *mkdest_left(size_t dmax, int w) {
    D.n = dmax; D.w = w; D.obj = dmax * w; if (D.obj > sizeof D.prior) D.obj = sizeof D.prior;
    D.p = slot[0]; memset(slot[0], 0xEE, SLOTSZ); memset(D.p, 0xAA, D.obj); memcpy(D.prior, D.p, D.obj);
    cur_dest = D.p; cur_dbytes = D.obj; before_byte = 0xEE;
    return D.p;
}
/* the byte in front of dest (ordinarily filler) holds a given value: dest as the next slot of a text block */
static void set_before(unsigned char v) { D.p[-1] = v; before_byte = v; }
static unsigned long dget(size_t i) { return D.w == 1 ? D.p[i] : ((uint32_t *)D.p)[i]; }
static int g_east;      /* the os group run once more with the local time zone 14 hours east of Greenwich */
static void begin(const char *fn, const char *rel, const char *fmt, ...) { cur_fn = fn; cur_rel = rel; exp_str = NULL; exp_mustfail = 0; va_list ap; va_start(ap, fmt); int o_ = g_east ? sprintf(cur_cs, "east ") : 0; vsnprintf(cur_cs + o_, sizeof cur_cs - o_, fmt, ap); va_end(ap); h_n = 0; fault = 0; errno = 0; n_cases++; }
#define CALL(stmt) do { if (sigsetjmp(jb, 1) == 0) { armed = 1; stmt; armed = 0; } } while (0)

/* judge: usable = dest non-null, 0 < dmax <= limit; failed: 1 failure indicated, 0 success, -1 cannot tell; code = returned code (0 unknown) */
static void judge(int usable, int failed, int code, unsigned flags, int has_dest) {
    if (verbose) { printf("OBS fault=%d(slot %d off %ld) handler=%d code0=%d failed=%d retcode=%d\n", fault, fault_slot, fault_off, h_n, h_code[0], failed, code);
        if (has_dest && !fault) { printf("DEST after:"); for (size_t i = 0; i < D.obj && i < 48; i++) printf(" %02x", D.p[i]); printf("\n"); } }
    int triv = h_n && (h_code[0] == 400 || h_code[0] == 401 || h_code[0] == 403 || h_code[0] == 75); if (!triv) n_nontriv++;
    if (fault == 3) { if (P == 1) report("crash"); return; }
    if (P == 1) {
        if (fault == 1) { char b[64]; snprintf(b, sizeof b, "write-fault|%s", fault_slot == 0 ? "dest+end" : fault_slot > 0 ? "other-operand" : "wild"); report(b); return; }
        if (fault) return;
        if (has_dest && D.obj > D.n * D.w && memcmp(D.p + D.n * D.w, D.prior + D.n * D.w, D.obj - D.n * D.w)) report("canary-after-dmax");
        if (has_dest) { if (D.p[-1] != before_byte) report("write-before-dest"); else for (int i = 2; i <= 64; i++) if (D.p[-i] != 0xEE) { report("write-before-dest"); break; } }
        return;
    }
    if (P == 2) { if (fault == 2) { char b[64]; snprintf(b, sizeof b, "read-fault|%s", fault_slot == 0 && fault_off < -(long)SLOTSZ ? "before-dest" : fault_slot == 0 ? "dest+end" : fault_slot > 0 ? "source+end" : "wild"); report(b); } return; }
    if (fault) return;
    int reported = failed > 0 || h_n > 0;
    if (P == 3) {
        if (!(flags & SP) || !usable || !has_dest) return;
        for (size_t i = 0; i < D.n; i++) if (!dget(i)) return;
        report(reported ? "unterminated|fail" : "unterminated|ok"); return;
    }
    if (P == 4) {
        if (!(flags & CE) || !usable || !has_dest || !reported) return;
        int c = h_n ? h_code[0] : code; char b[64];
        if (dget(0) != 0) { snprintf(b, sizeof b, "dest0-nonzero|code%d", c); report(b); return; }
        if (prod) for (size_t i = 0; i < D.n; i++) { unsigned long v = dget(i); if (v != 0 && v != (D.w == 1 ? 0xAAUL : 0xAAAAAAAAUL)) { snprintf(b, sizeof b, "partial-result-left|code%d", c); report(b); return; } }
        if (prod && (c == 406 || c == 404 || c == 407)) for (size_t i = 0; i < D.n; i++) if (dget(i)) { snprintf(b, sizeof b, "not-all-cleared|code%d", c); report(b); return; }
        return;
    }
    if (P == 5) {
        char b[80];
        if (h_n > 1) { snprintf(b, sizeof b, "handler-invoked-%dx|codes%d,%d", h_n, h_code[0], h_code[1]); report(b); return; }
        if (h_n == 1 && failed == 0) { snprintf(b, sizeof b, "handler-but-success|code%d", h_code[0]); report(b); return; }
        if (h_n == 1 && failed > 0 && code && code != h_code[0]) { snprintf(b, sizeof b, "code-mismatch|handler%d-ret%d", h_code[0], code); report(b); return; }
        if (h_n == 0 && failed > 0) { snprintf(b, sizeof b, "failure-without-handler|ret%d", code); report(b); return; }
        return;
    }
    if (P == 6) {
        if (!has_dest || !usable) return;
        if (exp_mustfail && failed == 0) { report("success-where-result-cannot-fit"); return; }
        if (exp_str && failed == 0) { if (D.w == 1 && strncmp((char *)D.p, exp_str, D.n)) report("wrong-result"); else if (D.w == 1 && !memchr(D.p, 0, D.n)) report("wrong-result"); return; }
        if (exp_str && failed > 0 && !exp_mustfail && strlen(exp_str) < D.n) report("failure-on-valid");
        return;
    }
    if (P == 8) {
        if (!(flags & SL) || !usable || !has_dest || reported) return;
        long t = -1; for (size_t i = 0; i < D.n; i++) if (!dget(i)) { t = i; break; }
        if (t < 0) { report("no-terminator"); return; }
        if (prod) for (size_t i = t; i < D.n; i++) if (dget(i)) { report(D.n > 0x20 ? "stale-slack|dmax>0x20" : "stale-slack|dmax<=0x20"); return; }
        return;
    }
}

/* ================================================================ groups */
static int want(const char *g, const char *sel) { return !strcmp(sel, "all") || !strcmp(sel, g); }

/* ---- formatted output to buffers */
typedef int (*spf)(char *, size_t, size_t, const char *, ...);
typedef int (*vspf)(char *, size_t, size_t, const char *, va_list);
typedef int (*swpf)(wchar_t *, size_t, size_t, const wchar_t *, ...);
typedef int (*vswpf)(wchar_t *, size_t, size_t, const wchar_t *, va_list);
static int vn(vspf f, char *d, size_t n, const char *fmt, ...) { va_list ap; va_start(ap, fmt); int r = f(d, n, BOSU, fmt, ap); va_end(ap); return r; }
static int vw(vswpf f, wchar_t *d, size_t n, const wchar_t *fmt, ...) { va_list ap; va_start(ap, fmt); int r = f(d, n, BOSU, fmt, ap); va_end(ap); return r; }

static void g_printf(void) {
    static const char *names[4] = { "sprintf_s", "vsprintf_s", "snprintf_s", "vsnprintf_s" };
    void *fp[4]; for (int i = 0; i < 4; i++) { char s[64]; snprintf(s, sizeof s, "_%s_chk", names[i]); fp[i] = dlsym(L, s); if (!fp[i]) { fprintf(stderr, "missing %s\n", s); exit(2); } }
    /* argument kinds: 0 none, 1 int, 2 char*, 3 wchar_t*, 4 wint_t, 5 double, 6 unterminated char[3] flush to guard, 7 NULL char*, 8 long double,
       9 unterminated wchar_t[iv] flush to guard (a precision makes that legitimate: no more wide characters are needed than bytes are written) */
    struct { const char *fmt; int ak; long iv; const char *sv; const wchar_t *wv; double dv; int need; } F[] = {
        { "plain", 0, 0, 0, 0, 0, 5 }, { "%d", 1, 12345, 0, 0, 0, 5 }, { "%5d|", 1, -42, 0, 0, 0, 6 }, { "%-6x|", 1, 0xbeef, 0, 0, 0, 7 }, { "%s", 2, 0, "", 0, 0, 0 },
        { "%s", 2, 0, "abcde", 0, 0, 5 }, { "<%s>", 2, 0, "xyz", 0, 0, 5 }, { "%.2s", 2, 0, "abcdef", 0, 0, 2 }, { "%.3s", 6, 0, "abc", 0, 0, 3 }, { "%c%%", 1, 'Q', 0, 0, 0, 2 },
        { "%ls", 3, 0, 0, L"wide", 0, 4 }, { "%ls", 3, 0, 0, L"é€", 0, 5 }, { "%ls", 3, 0, 0, L"\U0001f600", 0, 4 }, { "%lc", 4, 'z', 0, 0, 0, 1 }, { "%lc", 4, 0xe9, 0, 0, 0, 2 },
        { "%lc", 4, 0x20ac, 0, 0, 0, 3 }, { "%lc", 4, 0x1f600, 0, 0, 0, 4 }, { "ab%lc", 4, 0x20ac, 0, 0, 0, 5 }, { "%f", 5, 0, 0, 0, 1.5, 8 }, { "%e", 5, 0, 0, 0, 12345.678, 12 },
        { "%g", 5, 0, 0, 0, 0.0001, 6 }, { "%.0f", 5, 0, 0, 0, 2.5, 1 }, { "%10.3f", 5, 0, 0, 0, -3.14159, 10 }, { "%s", 7, 0, 0, 0, 0, 0 }, { "%Lf|", 8, 0, 0, 0, 2.25, 9 },
        { "%a", 5, 0, 0, 0, 1.0, 6 }, { "%n", 1, 0, 0, 0, 0, 0 }, { "%40d", 1, 7, 0, 0, 0, 40 }, { "%.40d", 1, 7, 0, 0, 0, 40 }, { "%#o %+d", 1, 8, 0, 0, 0, 6 },
        { "%.s", 6, 0, "abc", 0, 0, 0 }, { "%4.s|", 6, 0, "abc", 0, 0, 5 }, { "%-4.s|", 6, 0, "abc", 0, 0, 5 },      /* a lone period is precision 0: the argument is not read at all */
        { "%.3ls", 9, 3, 0, L"abc", 0, 3 }, { "%.5ls", 9, 2, 0, L"é€", 0, 5 }, { "<%.4ls>", 9, 2, 0, L"é€", 0, 4 },
    };
    int nf = sizeof F / sizeof F[0];
    for (int e = 0; e < 4; e++) for (int fi = 0; fi < nf; fi++) {
        int need = F[fi].need;
        size_t dms[10]; int nd = 0; dms[nd++] = 1; dms[nd++] = 2; if (need > 1) dms[nd++] = need - 1; dms[nd++] = need ? need : 1; dms[nd++] = need + 1; dms[nd++] = need + 2; dms[nd++] = need + 0x22; dms[nd++] = 0;
        for (int di = 0; di < nd; di++) for (int extra = 0; extra < 2; extra++) for (int dnull = 0; dnull < 2; dnull++) {
            size_t dmax = dms[di]; if (dnull && (di || extra)) continue;
            char rel[80]; snprintf(rel, sizeof rel, "%s,%s", dnull ? "dnull" : dmax == 0 ? "dmax0" : (int)dmax > need ? "fits" : (int)dmax == need ? "need=dmax" : "need>dmax", F[fi].ak == 3 ? "ls" : F[fi].ak == 4 ? "lc" : F[fi].ak == 5 || F[fi].ak == 8 ? "float" : F[fi].ak == 6 || F[fi].ak == 9 ? "unterminated-arg" : F[fi].ak == 7 ? "null-arg" : !strcmp(F[fi].fmt, "%n") ? "n" : "int-str");
            begin(names[e], rel, "printf %d %d %zu %d %d", e, fi, dmax, extra, dnull);
            char *d = dnull ? NULL : mkdest(dmax, 1, extra ? 3 : 0);
            const char *arg6 = F[fi].ak == 6 ? mksrc(1, F[fi].sv, 3) : NULL;
            const wchar_t *arg9 = F[fi].ak == 9 ? mksrc(1, F[fi].wv, F[fi].iv * sizeof(wchar_t)) : NULL;
            int r = 0;
#define DO(fnp, FMT) switch (F[fi].ak) { \
            case 0: CALL(r = fnp(d, dmax, FMT)); break; case 1: CALL(r = fnp(d, dmax, FMT, (int)F[fi].iv)); break; \
            case 2: CALL(r = fnp(d, dmax, FMT, F[fi].sv)); break; case 3: CALL(r = fnp(d, dmax, FMT, F[fi].wv)); break; \
            case 4: CALL(r = fnp(d, dmax, FMT, (wint_t)F[fi].iv)); break; case 5: CALL(r = fnp(d, dmax, FMT, F[fi].dv)); break; \
            case 6: CALL(r = fnp(d, dmax, FMT, arg6)); break; case 7: CALL(r = fnp(d, dmax, FMT, (char *)NULL)); break; case 8: CALL(r = fnp(d, dmax, FMT, (long double)F[fi].dv)); break; case 9: CALL(r = fnp(d, dmax, FMT, arg9)); break; }
#define N_S(dd, nn, ...) ((spf)fp[e])(dd, nn, BOSU, __VA_ARGS__)
#define N_V(dd, nn, ...) vn((vspf)fp[e], dd, nn, __VA_ARGS__)
            if (e & 1) { DO(N_V, F[fi].fmt) } else { DO(N_S, F[fi].fmt) }
            judge(!dnull && dmax > 0, r < 0, r < 0 ? -r : 0, SP | CE | SL, !dnull);
        }
    }
}
static void g_wprintf(void) {
    static const char *names[4] = { "swprintf_s", "vswprintf_s", "snwprintf_s", "vsnwprintf_s" };
    void *fp[4]; for (int i = 0; i < 4; i++) { char s[64]; snprintf(s, sizeof s, "_%s_chk", names[i]); fp[i] = dlsym(L, s); if (!fp[i]) { fprintf(stderr, "missing %s\n", s); exit(2); } }
    struct { const wchar_t *fmt; int ak; long iv; const char *sv; const wchar_t *wv; double dv; int need; } F[] = {
        { L"plain", 0, 0, 0, 0, 0, 5 }, { L"%d", 1, 12345, 0, 0, 0, 5 }, { L"%5d|", 1, -42, 0, 0, 0, 6 }, { L"%ls", 3, 0, 0, L"wide", 0, 4 }, { L"%ls", 3, 0, 0, L"", 0, 0 },
        { L"<%ls>", 3, 0, 0, L"é€", 0, 4 }, { L"%s", 2, 0, "abc", 0, 0, 3 }, { L"%lc", 4, 0x20ac, 0, 0, 0, 1 }, { L"%f", 5, 0, 0, 0, 1.5, 8 }, { L"%.2ls", 3, 0, 0, L"abcdef", 0, 2 },
        { L"%n", 1, 0, 0, 0, 0, 0 }, { L"%600d", 1, 7, 0, 0, 0, 600 }, { L"%x-%x", 1, 255, 0, 0, 0, 5 },
    };
    int nf = sizeof F / sizeof F[0];
    for (int e = 0; e < 4; e++) for (int fi = 0; fi < nf; fi++) {
        int need = F[fi].need;
        size_t dms[10]; int nd = 0; dms[nd++] = 1; dms[nd++] = 2; if (need > 1) dms[nd++] = need - 1; dms[nd++] = need ? need : 1; dms[nd++] = need + 1; dms[nd++] = need + 3; dms[nd++] = 0; if (need < 100) dms[nd++] = 513;
        for (int di = 0; di < nd; di++) for (int extra = 0; extra < 2; extra++) for (int dnull = 0; dnull < 2; dnull++) {
            size_t dmax = dms[di]; if (dnull && (di || extra)) continue;
            char rel[80]; snprintf(rel, sizeof rel, "%s,%s", dnull ? "dnull" : dmax == 0 ? "dmax0" : (int)dmax > need ? "fits" : (int)dmax == need ? "need=dmax" : "need>dmax", F[fi].ak == 3 ? "ls" : F[fi].ak == 4 ? "lc" : F[fi].ak == 5 ? "float" : !wcscmp(F[fi].fmt, L"%n") ? "n" : "int-str");
            begin(names[e], rel, "wprintf %d %d %zu %d %d", e, fi, dmax, extra, dnull);
            wchar_t *d = dnull ? NULL : mkdest(dmax, 4, extra ? 3 : 0);
            const char *arg6 = NULL; const wchar_t *arg9 = NULL; int r = 0;
#define W_S(dd, nn, ...) ((swpf)fp[e])(dd, nn, BOSU, __VA_ARGS__)
#define W_V(dd, nn, ...) vw((vswpf)fp[e], dd, nn, __VA_ARGS__)
            if (e & 1) { DO(W_V, F[fi].fmt) } else { DO(W_S, F[fi].fmt) }
            (void)arg6;
            judge(!dnull && dmax > 0 && dmax <= 1024, r < 0, r < 0 ? -r : 0, SP | CE | SL, !dnull);
        }
    }
}

/* ---- fold / normalize */
static void g_unicode(void) {
    int (*towfc)(wchar_t *, size_t, uint32_t, size_t) = dlsym(L, "_towfc_s_chk");
    int (*wcsfc)(wchar_t *, size_t, const wchar_t *, size_t *, size_t) = dlsym(L, "_wcsfc_s_chk");
    int (*wcsnorm)(wchar_t *, size_t, const wchar_t *, int, size_t *, size_t) = dlsym(L, "_wcsnorm_s_chk");
    int (*iswfc)(uint32_t) = dlsym(L, "iswfc");
    if (!towfc || !wcsfc || !wcsnorm || !iswfc) { fprintf(stderr, "missing unicode symbols\n"); exit(2); }
    /* every expanding fold character */
    static uint32_t exp[200]; int nexp = 0;
    for (uint32_t c = 0x80; c < 0x20000 && nexp < 200; c++) if (iswfc(c) > 1) exp[nexp++] = c;
    uint32_t plain[] = { 'A', 0xc9, 0x3a3, 0x10400 };
    for (int i = 0; i < nexp + 4; i++) {
        uint32_t c = i < nexp ? exp[i] : plain[i - nexp]; int k = iswfc(c); if (k < 1) k = 1;
        for (size_t dmax = 1; dmax <= (size_t)k + 2; dmax++) for (int extra = 0; extra < 2; extra++) {
            char rel[64]; snprintf(rel, sizeof rel, "%s,%s", (int)dmax > k ? "fits" : "expansion>=dmax", i < nexp ? "expanding" : "simple");
            begin("towfc_s", rel, "towfc %x %zu %d", c, dmax, extra);
            wchar_t *d = mkdest(dmax, 4, extra ? 3 : 0); int r = 0;
            CALL(r = towfc(d, dmax, c, BOSU));
            judge(1, r < 0, r < 0 ? -r : 0, SP, 1);
        }
        /* wcsfc_s: the expanding character at distance 0..3 from the end of dest */
        for (int lead = 0; lead <= 3; lead++) for (size_t dmax = lead + 1; dmax <= (size_t)lead + k + 6; dmax++) {
            wchar_t src[8]; for (int j = 0; j < lead; j++) src[j] = 'A' + j; src[lead] = c; src[lead + 1] = 0;
            const wchar_t *s = mksrc(1, src, (lead + 2) * sizeof(wchar_t));
            char rel[64]; int need = lead + k; snprintf(rel, sizeof rel, "%s,%s", (int)dmax > need + 4 ? "ample" : (int)dmax > need ? "fits-tight" : "need>=dmax", i < nexp ? "expanding" : "simple");
            begin("wcsfc_s", rel, "wcsfc %x %d %zu", c, lead, dmax);
            wchar_t *d = mkdest(dmax, 4, 0); size_t len = 0x7777; int r = 0;
            CALL(r = wcsfc(d, dmax, s, &len, BOSU));
            judge(1, r != 0, r, SP | CE | SL, 1);
        }
    }
    /* wcsfc_s: the characters the special-casing rules of Turkish/Azeri and Lithuanian concern (the library goes by the name of the current
       locale), every sequence of 1..3 of them, dmax from 1 to past the longest result */
    { static const wchar_t LA[] = { 'I', 'J', 0x130, 0xcc, 0xcd, 0x128, 0x12e, 0x307, 0x301, 'a' }; const int nla = 10;
      for (int n = 1; n <= 3; n++) { long cnt = 1; for (int i = 0; i < n; i++) cnt *= nla;
        for (long q = 0; q < cnt; q++) {
            wchar_t src[8]; long t = q; for (int i = 0; i < n; i++) { src[i] = LA[t % nla]; t /= nla; } src[n] = 0;
            const wchar_t *sp = mksrc(1, src, (n + 1) * sizeof(wchar_t));
            for (size_t dmax = 1; dmax <= (size_t)3 * n + 2; dmax++) {
                char rel[64]; snprintf(rel, sizeof rel, "%s,locale-special", dmax > (size_t)3 * n ? "ample" : "tight");
                begin("wcsfc_s", rel, "wcsfc-special %d %ld %zu", n, q, dmax);
                wchar_t *d = mkdest(dmax, 4, 0); size_t len = 0x7777; int r = 0;
                CALL(r = wcsfc(d, dmax, sp, &len, BOSU));
                judge(1, r != 0, r, SP | CE | SL, 1);
            }
        } } }
    /* wcsnorm_s around the needed size, all four modes of interest */
    static const wchar_t *NS[] = { L"é", L"é", L"각", L"각", L"ạ́b", L"ṩ", L"Ǻ", L"Å", L"", L"plain", L"abc\x1f82", L"ab\xac01", L"\x1f82" };
    for (int si = 0; si < 13; si++) for (int mode = 0; mode < 2; mode++) for (int known = 0; known < 2; known++) {      /* known: the object size is passed and equals dmax */
        size_t sl = wcslen(NS[si]); const wchar_t *s = mksrc(1, NS[si], (sl + 1) * sizeof(wchar_t));
        for (size_t dmax = 1; dmax <= sl * 3 + 6; dmax++) {
            char rel[64]; snprintf(rel, sizeof rel, "%s,%s%s", mode ? "nfc" : "nfd", dmax > sl * 3 ? "ample" : "tight", known ? ",size-known" : "");
            begin("wcsnorm_s", rel, "wcsnorm %d %d %zu %d", si, mode, dmax, known);
            wchar_t *d = mkdest(dmax, 4, 0); size_t len = 0x7777; int r = 0;
            CALL(r = wcsnorm(d, dmax, s, mode, &len, known ? dmax * sizeof(wchar_t) : BOSU));
            judge(1, r != 0, r, SP | CE | SL, 1);
        }
    }
    /* the source directly behind or directly in front of dest (two halves of one buffer, neighbouring members): the operands do not overlap, the outcome is
       what it is with the source elsewhere */
    if (P == 6) for (int si = 0; si < 13; si++) for (int mode = 0; mode < 2; mode++) for (int lay = 0; lay < 2; lay++) {
        size_t sl = wcslen(NS[si]);
        for (size_t dmax = 1; dmax <= sl * 3 + 6; dmax++) {
            char rel[64]; snprintf(rel, sizeof rel, "%s,%s", mode ? "nfc" : "nfd", lay ? "source-directly-in-front-of-dest" : "source-directly-behind-dest");
            begin("wcsnorm_s", rel, "wcsnorm-adj %d %d %zu %d", si, mode, dmax, lay);
            const wchar_t *sfar = mksrc(1, NS[si], (sl + 1) * sizeof(wchar_t)); wchar_t *dfar = mkdest(dmax, 4, 0); size_t lf = 0x7777, la = 0x7777; int rf = 0, ra = 0;
            CALL(rf = wcsnorm(dfar, dmax, sfar, mode, &lf, BOSU)); if (fault) continue;
            wchar_t keep[64]; memcpy(keep, dfar, (dmax < 64 ? dmax : 64) * sizeof(wchar_t));
            size_t tot = (dmax + sl + 1) * sizeof(wchar_t); unsigned char *blk = flush(0, tot); memset(slot[0], 0xEE, SLOTSZ - tot);
            wchar_t *d = (wchar_t *)blk + (lay ? sl + 1 : 0), *sa = (wchar_t *)blk + (lay ? 0 : dmax);
            for (size_t i = 0; i < dmax; i++) d[i] = 0xAAAAAAAA; memcpy(sa, NS[si], (sl + 1) * sizeof(wchar_t));
            h_n = 0; fault = 0; cur_dest = (unsigned char *)d; cur_dbytes = dmax * sizeof(wchar_t);
            CALL(ra = wcsnorm(d, dmax, sa, mode, &la, BOSU)); if (fault) continue;
            if (verbose) printf("OBS source elsewhere: rc=%d len=%zu   source adjacent: rc=%d len=%zu handler=%d\n", rf, lf, ra, la, h_n);
            if (rf == 0 && ra != 0) report(ra == 404 ? "disjoint-operands-rejected-as-overlapping" : "fails-with-the-source-next-to-dest");
            else if (rf == 0 && memcmp(keep, d, (dmax < 64 ? dmax : 64) * sizeof(wchar_t))) report("result-differs-with-the-source-next-to-dest");
        }
    }
    /* mode values outside the enumeration (the experimental and the not-compiled-in modes, and plain garbage): whatever the call does with them,
       dest is terminated afterwards and a failure leaves it empty */
    { static const int MODES[] = { 2, 3, 4, 5, 6, 7, 64, -1, (int)0x80000000 };
      for (int mi = 0; mi < 9; mi++) for (int si = 0; si < 13; si += 4) for (size_t dmax = 1; dmax <= 12; dmax += 3) {
        size_t sl = wcslen(NS[si]); const wchar_t *s = mksrc(1, NS[si], (sl + 1) * sizeof(wchar_t));
        char rel[64]; snprintf(rel, sizeof rel, "%s", MODES[mi] >= 0 && MODES[mi] <= 5 ? "mode-other-than-nfd-nfc" : "mode-outside-the-enumeration");
        begin("wcsnorm_s", rel, "wcsnorm-mode %d %d %zu", mi, si, dmax);
        wchar_t *d = mkdest(dmax, 4, 0); size_t len = 0x7777; int r = 0;
        CALL(r = wcsnorm(d, dmax, s, MODES[mi], &len, BOSU));
        judge(1, r != 0, r, SP | CE, 1);
      } }
}


/* ---- the three steps of wcsnorm_s as public entry points of their own: decompose, reorder, compose */
static void g_normparts(void) {
    int (*dec)(wchar_t *, size_t, const wchar_t *, size_t *, int, size_t) = dlsym(L, "_wcsnorm_decompose_s_chk");
    int (*reo)(wchar_t *, size_t, const wchar_t *, size_t, size_t) = dlsym(L, "_wcsnorm_reorder_s_chk");
    int (*com)(wchar_t *, size_t, const wchar_t *, size_t *, int, size_t) = dlsym(L, "_wcsnorm_compose_s_chk");
    if (!dec || !reo || !com) { fprintf(stderr, "missing wcsnorm step symbols\n"); exit(2); }
    const size_t LIMW = 65536;     /* RSIZE_MAX_WSTR of this build is checked by the catalogue; any value far above the objects used here will do for "too large" */
    size_t big = (size_t)1 << 40;
    /* reorder: every sequence over {a, U+0301 (230), U+0316 (220), U+0327 (202)} of 0..4 elements, no terminator, the extent ends at the guard */
    static const wchar_t RA[] = { 'a', 0x301, 0x316, 0x327 };
    for (int n = 0; n <= 4; n++) { long cnt = 1; for (int i = 0; i < n; i++) cnt *= 4;
        for (long c = 0; c < cnt; c++) {
            wchar_t src[8]; long t = c; int lastmark = 0, run = 0, maxrun = 0; for (int i = 0; i < n; i++) { src[i] = RA[t % 4]; t /= 4; if (src[i] != 'a') { if (++run > maxrun) maxrun = run; } else run = 0; } lastmark = n && src[n - 1] != 'a';
            const wchar_t *sp = mksrc(1, src, n ? n * sizeof(wchar_t) : 1); if (!n) sp = (const wchar_t *)((char *)sp + 1);     /* n == 0: a pointer to the very end of the readable extent */
            for (size_t dmax = 1; dmax <= (size_t)n + 2; dmax++) {
                char rel[96]; snprintf(rel, sizeof rel, "%s,%s,%s", dmax > (size_t)n ? "fits" : "len>=dmax", lastmark ? "ends-in-mark" : "ends-in-starter", maxrun > 1 ? "mark-run" : "single-marks");
                begin("wcsnorm_reorder_s", rel, "normparts reorder %d %ld %zu", n, c, dmax);
                wchar_t *d = mkdest(dmax, 4, 0); int r = 0;
                CALL(r = reo(d, dmax, sp, n, BOSU));
                judge(1, r != 0, r, SP | CE, 1);
            }
        } }
    /* compose: sequences over {e, U+0301, U+0327, a}, length passed through *lenp */
    static const wchar_t CA[] = { 'e', 0x301, 0x327, 'a' };
    for (int n = 0; n <= 4; n++) { long cnt = 1; for (int i = 0; i < n; i++) cnt *= 4;
        for (long c = 0; c < cnt; c++) for (int contig = 0; contig < 2; contig++) {
            wchar_t src[8]; long t = c; for (int i = 0; i < n; i++) { src[i] = CA[t % 4]; t /= 4; }
            const wchar_t *sp = mksrc(1, src, n ? n * sizeof(wchar_t) : 1); if (!n) sp = (const wchar_t *)((char *)sp + 1);
            for (size_t dmax = 1; dmax <= (size_t)n + 2; dmax++) {
                char rel[96]; snprintf(rel, sizeof rel, "%s,%s", dmax > (size_t)n ? "fits" : "len>=dmax", contig ? "contiguous" : "full");
                begin("wcsnorm_compose_s", rel, "normparts compose %d %ld %zu %d", n, c, dmax, contig);
                wchar_t *d = mkdest(dmax, 4, 0); size_t *lp = (size_t *)flush(2, sizeof(size_t)); *lp = n; int r = 0;
                CALL(r = com(d, dmax, sp, lp, contig, BOSU));
                judge(1, r != 0, r, SP | CE, 1);
            }
        } }
    /* the two later steps called directly with elements that are no code points (above U+10FFFF, or negative as a wchar_t): every sequence of 1..3 over
       {a, U+0301, V} that contains V; the tables they index end with plane 16 */
    { static const wchar_t HV[] = { 0x110000, 0x7fffffff, (wchar_t)0x80000000, 0x1fffff };
      for (int vi = 0; vi < 4; vi++) for (int n = 1; n <= 3; n++) { long cnt = 1; for (int i = 0; i < n; i++) cnt *= 3;
        for (long c = 0; c < cnt; c++) for (int which = 0; which < 2; which++) {
            wchar_t src[8]; long t = c; int has = 0; for (int i = 0; i < n; i++) { int k = t % 3; t /= 3; src[i] = k == 0 ? 'a' : k == 1 ? 0x301 : HV[vi]; if (k == 2) has = 1; }
            if (!has) continue;
            const wchar_t *sp = mksrc(1, src, n * sizeof(wchar_t));
            for (size_t dmax = 2; dmax <= 6; dmax += 4) {
                begin(which ? "wcsnorm_compose_s" : "wcsnorm_reorder_s", "element-above-U+10FFFF", "normparts hi %d %d %ld %d %zu", vi, n, c, which, dmax);
                wchar_t *d = mkdest(dmax, 4, 0); size_t *lp = (size_t *)flush(2, sizeof(size_t)); *lp = n; int r = 0;
                if (which) CALL(r = com(d, dmax, sp, lp, 0, BOSU)); else CALL(r = reo(d, dmax, sp, n, BOSU));
                if (P == 1 || P == 2) { if (fault) report(fault == 2 ? "read-fault|wild" : "write-fault|wild"); continue; }
                judge(1, r != 0, r, SP | CE, 1);
            }
        } } }
    /* decompose: terminated strings over {a, U+00E9, U+1E69 (three elements), U+AC01 (three jamo)} */
    static const wchar_t DA[] = { 'a', 0xe9, 0x1e69, 0xac01 }; static const int DN[] = { 1, 2, 3, 3 };
    for (int n = 0; n <= 3; n++) { long cnt = 1; for (int i = 0; i < n; i++) cnt *= 4;
        for (long c = 0; c < cnt; c++) for (int ln = 0; ln < 2; ln++) {
            wchar_t src[8]; long t = c; size_t need = 0; for (int i = 0; i < n; i++) { src[i] = DA[t % 4]; need += DN[t % 4]; t /= 4; } src[n] = 0;
            const wchar_t *sp = mksrc(1, src, (n + 1) * sizeof(wchar_t));
            for (size_t dmax = 1; dmax <= need + 2; dmax++) {
                char rel[96]; snprintf(rel, sizeof rel, "%s,%s", dmax > need ? "fits" : "need>=dmax", ln ? "lenp-null" : "lenp");
                begin("wcsnorm_decompose_s", rel, "normparts decompose %d %ld %zu %d", n, c, dmax, ln);
                wchar_t *d = mkdest(dmax, 4, 0); size_t *lp = ln ? NULL : (size_t *)flush(2, sizeof(size_t)); if (lp) *lp = 0x7777; int r = 0;
                CALL(r = dec(d, dmax, sp, lp, 0, BOSU));
                judge(1, r != 0, r, SP | CE, 1);
            }
        } }
    /* entry violations of the three: dest null, dmax 0, dmax above any limit, src null, lenp null, the object size known and smaller than declared */
    static const wchar_t two[] = { 'e', 0x301, 0 };
    for (int fnx = 0; fnx < 3; fnx++) for (int v = 0; v < 7; v++) {
        static const char *VN[] = { "dest-null", "dmax-zero", "dmax-above-limit", "src-null", "lenp-null", "object-smaller-than-dmax", "dest-is-src" };
        static const char *FNN[] = { "wcsnorm_decompose_s", "wcsnorm_reorder_s", "wcsnorm_compose_s" };
        if (v == 4 && fnx == 1) continue;      /* reorder has no length out-parameter */
        if (v == 4 && fnx == 0) continue;      /* decompose documents a null lenp as allowed (covered above) */
        if (v == 6 && fnx != 0) continue;      /* only decompose documents the overlap constraint */
        begin(FNN[fnx], VN[v], "normparts violation %d %d", fnx, v);
        size_t dmax = v == 1 ? 0 : v == 2 ? big : 4; (void)LIMW;
        wchar_t *d = mkdest(v == 5 ? 3 : 4, 4, 0); if (v == 6) { d[0] = 'e'; d[1] = 0x301; d[2] = 0; memcpy(D.prior, D.p, D.obj); }
        const wchar_t *sp = v == 3 ? NULL : v == 6 ? d : mksrc(1, two, sizeof two);
        size_t *lp = v == 4 ? NULL : (size_t *)flush(2, sizeof(size_t)); if (lp) *lp = 2;
        wchar_t *da = v == 0 ? NULL : d; size_t bos = v == 5 ? 3 * sizeof(wchar_t) : BOSU; int r = 0;
        if (fnx == 0) CALL(r = dec(da, dmax, sp, lp, 0, bos)); else if (fnx == 1) CALL(r = reo(da, dmax, sp, 2, bos)); else CALL(r = com(da, dmax, sp, lp, 0, bos));
        judge(v != 0 && v != 1 && v != 2 && v != 5, r != 0, r < 0 ? -r : r, v == 6 ? 0 : (SP | CE), v != 0);
    }
}

/* ---- multibyte / wide converters */
static void g_conv(void) {
    int (*f_mbstowcs)(size_t *, wchar_t *, size_t, const char *, size_t, size_t) = dlsym(L, "_mbstowcs_s_chk");
    int (*f_mbsrtowcs)(size_t *, wchar_t *, size_t, const char **, size_t, mbstate_t *, size_t) = dlsym(L, "_mbsrtowcs_s_chk");
    int (*f_wcstombs)(size_t *, char *, size_t, const wchar_t *, size_t, size_t) = dlsym(L, "_wcstombs_s_chk");
    int (*f_wcsrtombs)(size_t *, char *, size_t, const wchar_t **, size_t, mbstate_t *, size_t) = dlsym(L, "_wcsrtombs_s_chk");
    int (*f_wcrtomb)(size_t *, char *, size_t, wchar_t, mbstate_t *, size_t) = dlsym(L, "_wcrtomb_s_chk");
    int (*f_wctomb)(int *, char *, size_t, wchar_t, size_t) = dlsym(L, "_wctomb_s_chk");
    if (!f_mbstowcs || !f_mbsrtowcs || !f_wcstombs || !f_wcsrtombs || !f_wcrtomb || !f_wctomb) { fprintf(stderr, "missing converter symbols\n"); exit(2); }
    static const char *MS[] = { "", "a", "abc", "\xc3\xa9", "a\xe2\x82\xac", "\xf0\x9f\x98\x80z", "ab\x80", "\xc3" };
    static const wchar_t *WS[] = { L"", L"a", L"abc", L"\xe9", L"a\x20ac", L"\U0001f600z", L"ab\xd800" };
    for (int si = 0; si < 8; si++) {
        size_t bytes = strlen(MS[si]); const char *src = mksrc(1, MS[si], bytes + 1);
        size_t nch = mbstowcs(NULL, MS[si], 0); int valid = nch != (size_t)-1; if (!valid) nch = bytes;
        for (size_t dmax = 0; dmax <= nch + 3; dmax++) for (size_t len = 0; len <= nch + 6; len += (len > nch + 1 ? 3 : 1)) for (int which = 0; which < 2; which++) for (int extra = 0; extra < 2; extra++) {
            char rel[80]; snprintf(rel, sizeof rel, "%s,%s,%s", dmax == 0 ? "dmax0" : nch < dmax ? "fits" : "need>=dmax", len > dmax ? "len>dmax" : "len<=dmax", valid ? "valid" : "invalid-seq");
            begin(which ? "mbsrtowcs_s" : "mbstowcs_s", rel, "conv mb %d %d %zu %zu %d", which, si, dmax, len, extra);
            wchar_t *d = mkdest(dmax, 4, extra ? 3 : 0); size_t ret = 0; int r = 0; mbstate_t ps; memset(&ps, 0, sizeof ps); const char *sp = src;
            if (which) CALL(r = f_mbsrtowcs(&ret, d, dmax, &sp, len, &ps, BOSU)); else CALL(r = f_mbstowcs(&ret, d, dmax, src, len, BOSU));
            judge(dmax > 0 && dmax <= 1024, r != 0, r, SP | CE | SL, 1);
        }
    }
    for (int si = 0; si < 7; si++) {
        size_t wl = wcslen(WS[si]); const wchar_t *src = mksrc(1, WS[si], (wl + 1) * sizeof(wchar_t));
        size_t nb = wcstombs(NULL, WS[si], 0); int valid = nb != (size_t)-1; if (!valid) nb = wl * 2;
        for (size_t dmax = 0; dmax <= nb + 3; dmax++) for (size_t len = 0; len <= nb + 6; len += (len > nb + 1 ? 3 : 1)) for (int which = 0; which < 2; which++) for (int extra = 0; extra < 2; extra++) {
            char rel[80]; snprintf(rel, sizeof rel, "%s,%s,%s", dmax == 0 ? "dmax0" : nb < dmax ? "fits" : "need>=dmax", len > dmax ? "len>dmax" : "len<=dmax", valid ? "valid" : "invalid-char");
            begin(which ? "wcsrtombs_s" : "wcstombs_s", rel, "conv wc %d %d %zu %zu %d", which, si, dmax, len, extra);
            char *d = mkdest(dmax, 1, extra ? 3 : 0); size_t ret = 0; int r = 0; mbstate_t ps; memset(&ps, 0, sizeof ps); const wchar_t *sp = src;
            if (which) CALL(r = f_wcsrtombs(&ret, d, dmax, &sp, len, &ps, BOSU)); else CALL(r = f_wcstombs(&ret, d, dmax, src, len, BOSU));
            judge(dmax > 0 && dmax <= 1024, r != 0, r, SP | CE | SL, 1);
        }
    }
    static const wchar_t WC1[] = { L'a', 0xe9, 0x20ac, 0x1f600, 0xd800 };
    for (int k = 0; k < 5; k++) for (size_t dmax = 0; dmax <= 7; dmax++) for (int which = 0; which < 2; which++) for (int extra = 0; extra < 2; extra++) {
        char rel[64]; snprintf(rel, sizeof rel, "%s,%s", dmax == 0 ? "dmax0" : dmax <= (size_t)(k < 4 ? k + 1 : 3) ? "need>=dmax" : "fits", k == 4 ? "invalid-char" : "valid");
        begin(which ? "wctomb_s" : "wcrtomb_s", rel, "conv c1 %d %d %zu %d", which, k, dmax, extra);
        char *d = mkdest(dmax, 1, extra ? 3 : 0); size_t ret = 0; int reti = 0, r = 0; mbstate_t ps; memset(&ps, 0, sizeof ps);
        if (which) CALL(r = f_wctomb(&reti, d, dmax, WC1[k], BOSU)); else CALL(r = f_wcrtomb(&ret, d, dmax, WC1[k], &ps, BOSU));
        judge(dmax > 0, r != 0, r, SP | CE | SL, 1);
    }
}

/* ---- os / io */
static void g_os(void) {
    int (*strerror_s_)(char *, size_t, int, size_t) = dlsym(L, "_strerror_s_chk");
    int (*asctime_s_)(char *, size_t, const struct tm *, size_t) = dlsym(L, "_asctime_s_chk");
    int (*ctime_s_)(char *, size_t, const time_t *, size_t) = dlsym(L, "_ctime_s_chk");
    struct tm *(*gmtime_s_)(const time_t *, struct tm *) = dlsym(L, "gmtime_s");
    struct tm *(*localtime_s_)(const time_t *, struct tm *) = dlsym(L, "localtime_s");
    int (*getenv_s_)(size_t *, char *, size_t, const char *, size_t) = dlsym(L, "_getenv_s_chk");
    char *(*gets_s_)(char *, size_t, size_t) = dlsym(L, "_gets_s_chk");
    if (!strerror_s_ || !asctime_s_ || !ctime_s_ || !gmtime_s_ || !localtime_s_ || !getenv_s_ || !gets_s_) { fprintf(stderr, "missing os symbols\n"); exit(2); }
    /* strerror_s: every errno of this libc, every code of the library's own (400..) with both neighbours, out-of-range numbers; the full text
       is what an ample call delivers (for errnos it must be strerror's); strerrorlen_s must announce exactly its length; around that length
       the result is the whole text or, as documented, dmax-4 characters of it followed by "..." */
    size_t (*strerrorlen_s_)(int) = dlsym(L, "strerrorlen_s");
    if (!strerrorlen_s_) { fprintf(stderr, "missing strerrorlen_s\n"); exit(2); }
    for (int e = -1; e <= 10000; e++) {
        if (e > 135 && e < 398) continue; if (e > 414 && e < 9999) continue;
        int own = e >= 400 && e <= 410; char full[160] = "", ref[160];
        { char *d = mkdest(128, 1, 0); int r = -1; begin("strerror_s", "ample", "strerror-full %d", e); CALL(r = strerror_s_(d, 128, e, BOSU)); if (!fault && r == 0) snprintf(full, sizeof full, "%s", d); }
        size_t flen = strlen(full), alen = strerrorlen_s_(e);
        snprintf(ref, sizeof ref, "%s", strerror(e));
        if (P == 6) {
            begin("strerror_s", e >= 400 && e <= 414 ? "safeclib-code" : "errno", "strerror-len %d", e);
            if (alen != flen) report("strerrorlen_s-differs-from-the-text");
            else if (!(e >= 400 && e <= 414) && strcmp(full, ref)) report("wrong-result");
        }
        size_t dms[12] = { 0, 1, 2, 3, 4, 5, flen > 1 ? flen - 1 : 6, flen, flen + 1, flen + 2, 48, alen + 1 };
        for (int di = 0; di < 12; di++) for (int extra = 0; extra < 2; extra++) {
            size_t dmax = dms[di]; int dup = 0; for (int k = 0; k < di; k++) if (dms[k] == dmax) dup = 1; if (dup) continue;
            if (e > 135 && !(e >= 398 && e <= 414) && di > 5 && di != 10) continue;
            char rel[64], want[160]; snprintf(rel, sizeof rel, "%s,%s", dmax == 0 ? "dmax0" : dmax <= 3 ? "dmax<=3" : dmax <= flen ? "text>=dmax" : "fits", own ? "safeclib-code" : "errno");
            begin("strerror_s", rel, "strerror %d %zu %d", e, dmax, extra);
            char *d = mkdest(dmax, 1, extra ? 3 : 0); int r = 0;
            CALL(r = strerror_s_(d, dmax, e, BOSU));
            if (flen && flen < dmax) exp_str = full;
            else if (flen && dmax > 3) { snprintf(want, sizeof want, "%.*s...", (int)(dmax - 4), full); exp_str = want; }
            judge(dmax > 0, r != 0, r, SP, 1);
        } }
    /* asctime_s / ctime_s */
    struct tm tms[9]; memset(tms, 0, sizeof tms);
    tms[0].tm_year = 100; tms[0].tm_mon = 3; tms[0].tm_mday = 5; tms[0].tm_wday = 3;
    tms[1].tm_year = 8099; tms[1].tm_mon = 11; tms[1].tm_mday = 31; tms[1].tm_hour = 23; tms[1].tm_min = 59; tms[1].tm_sec = 59; tms[1].tm_wday = 6;   /* year 9999 */
    tms[2].tm_year = 8100; tms[2].tm_mon = 0; tms[2].tm_mday = 1;            /* year 10000 */
    tms[3].tm_year = 100; tms[3].tm_mon = 12; tms[3].tm_mday = 1;            /* month out of range */
    tms[4].tm_year = -2000; tms[4].tm_mday = 1;                              /* negative year */
    tms[5].tm_year = 100; tms[5].tm_mday = 1; tms[5].tm_wday = 7;            /* weekday out of range */
    tms[7] = tms[0]; tms[7].tm_gmtoff = 2000000; tms[8] = tms[0]; tms[8].tm_gmtoff = -2000000;      /* the nine standard members valid, the UTC offset (a member this platform adds) far outside a day */
    size_t admax[] = { 0, 1, 25, 26, 27, 40, 119, 120, 121 };
    for (int ti = 0; ti < 9; ti++) for (int di = 0; di < 9; di++) for (int extra = 0; extra < 2; extra++) {
        size_t dmax = admax[di]; char rel[64]; snprintf(rel, sizeof rel, "%s,%s", dmax == 0 ? "dmax0" : dmax < 26 ? "dmax<26" : dmax < 120 ? "26<=dmax<120" : "dmax>=120", ti == 6 ? "tm-null" : ti == 0 || ti == 1 ? "tm-valid" : "tm-out-of-range");
        begin("asctime_s", rel, "asctime %d %zu %d", ti, dmax, extra);
        char *d = mkdest(dmax, 1, extra ? 3 : 0); int r = 0; const struct tm *tp = ti == 6 ? NULL : mksrc(1, &tms[ti], sizeof(struct tm));
        CALL(r = asctime_s_(d, dmax, tp, BOSU));
        char aref[64]; if (ti <= 1) { asctime_r(&tms[ti], aref); if (dmax >= 26) exp_str = aref; }
        judge(dmax > 0, r != 0, r, SP, 1);
    }
    time_t tts[] = { 0, 1000000000, -1, 313360441200L, 313360441201L, (time_t)1 << 40, -86400L * 366 * 3000, 253402300800L, 300000000000L };   /* the last two: five-digit years the library's own range check accepts */
    for (int ti = 0; ti < 10; ti++) for (int di = 0; di < 9; di++) {
        size_t dmax = admax[di]; char rel[64]; snprintf(rel, sizeof rel, "%s,%s", dmax == 0 ? "dmax0" : dmax < 26 ? "dmax<26" : dmax < 120 ? "26<=dmax<120" : "dmax>=120", ti == 9 ? "timer-null" : ti < 2 ? "timer-valid" : ti >= 7 ? "timer-five-digit-year" : "timer-extreme");
        begin("ctime_s", rel, "ctime %d %zu", ti, dmax);
        char *d = mkdest(dmax, 1, 0); int r = 0; const time_t *tp = ti == 9 ? NULL : mksrc(1, &tts[ti], sizeof(time_t));
        CALL(r = ctime_s_(d, dmax, tp, BOSU));
        char cref[64]; if (ti <= 1) { ctime_r(&tts[ti], cref); if (dmax >= 26) exp_str = cref; }
        if (P == 5 && r == -1 && !fault && h_n == 0) continue;     /* the underlying libc conversion failed (five-digit year): a plain -1, not a constraint violation */
        judge(dmax > 0, r != 0, r, SP, 1);
    }
    /* the last hours of the year 9999 (UTC): east of Greenwich the local date is already in the year 10000, libc's conversion stores most of its
       text and then fails; west of it and in UTC the call succeeds */
    { static const time_t LATE[] = { 253402300799L, 253402293600L, 253402250400L, 253402214400L }; static const size_t DM[] = { 26, 40, 119, 120, 128, 512 };
      for (int ti = 0; ti < 4; ti++) for (int di = 0; di < 6; di++) {
        char rel[64]; snprintf(rel, sizeof rel, "%s,timer-in-the-last-day-of-9999", DM[di] < 120 ? "26<=dmax<120" : "dmax>=120");
        begin("ctime_s", rel, "ctime-late %d %zu", ti, DM[di]);
        char *d = mkdest(DM[di], 1, 0); int r = 0; const time_t *tp = mksrc(1, &LATE[ti], sizeof(time_t));
        CALL(r = ctime_s_(d, DM[di], tp, BOSU));
        char cref[64]; if (ctime_r(&LATE[ti], cref)) exp_str = cref;
        if (P == 5 && r == -1 && !fault && h_n == 0) continue;
        judge(1, r != 0, r, SP | CE, 1);
      } }
    /* the scanf_s family on input that ends before the first conversion, or does not match it: an input failure is a plain status (EOF / 0), not a
       runtime-constraint violation - no handler */
    if (P == 5) {
        int (*ss)(const char *, const char *, ...) = dlsym(L, "sscanf_s"); int (*fs)(FILE *, const char *, ...) = dlsym(L, "fscanf_s"); int (*sc)(const char *, ...) = dlsym(L, "scanf_s");
        int (*sws)(const wchar_t *, const wchar_t *, ...) = dlsym(L, "swscanf_s"); int (*fws)(FILE *, const wchar_t *, ...) = dlsym(L, "fwscanf_s");
        int (*vss)(const char *, const char *, va_list) = dlsym(L, "vsscanf_s"); int (*vsws)(const wchar_t *, const wchar_t *, va_list) = dlsym(L, "vswscanf_s");
        static const char *IN[] = { "", "   ", "x", "12" };
        if (ss && fs && sc && sws && fws && vss && vsws) for (int ii = 0; ii < 4; ii++) for (int e = 0; e < 5; e++) {
            static const char *EN[] = { "sscanf_s", "fscanf_s", "scanf_s", "swscanf_s", "fwscanf_s" };
            char rel[64]; snprintf(rel, sizeof rel, "%s", ii < 2 ? "input-ends-before-the-conversion" : ii == 2 ? "input-does-not-match" : "input-matches");
            begin(EN[e], rel, "scan %d %d", ii, e);
            int v = 99, r = 0; wchar_t wi[8]; for (int k = 0; k < 8; k++) wi[k] = (unsigned char)IN[ii][k < (int)strlen(IN[ii]) ? k : (int)strlen(IN[ii])];
            char inb[8]; strcpy(inb, IN[ii]); FILE *f = NULL;
            if (e == 1) { f = fmemopen(inb, strlen(inb) ? strlen(inb) : 1, "r"); if (!inb[0]) (void)fgetc(f), clearerr(f); }
            if (e == 2) { if (stdin) fclose(stdin); stdin = fmemopen(inb, strlen(inb) ? strlen(inb) : 1, "r"); if (!inb[0]) (void)fgetc(stdin), clearerr(stdin); }
            if (e == 4) { f = tmpfile(); if (f) { if (wi[0]) fputws(wi, f); rewind(f); } }      /* a wide-oriented stream */
            errno = 0;
            switch (e) { case 0: CALL(r = ss(inb, "%d", &v)); break; case 1: CALL(r = fs(f, "%d", &v)); break; case 2: CALL(r = sc("%d", &v)); break; case 3: CALL(r = sws(wi, L"%d", &v)); break; default: if (f) CALL(r = fws(f, L"%d", &v)); break; }
            if (f) fclose(f);
            if (verbose) printf("OBS %s on \"%s\": ret=%d handler=%d code0=%d\n", EN[e], IN[ii], r, h_n, h_code[0]);
            if (fault) continue;
            if (h_n) { char b[64]; snprintf(b, sizeof b, "handler-invoked-for-a-plain-input-failure|code%d", h_code[0]); report(b); }
        }
    }
    /* gmtime_s / localtime_s: the out structure is an exact-fit object */
    for (int which = 0; which < 2; which++) for (int ti = 0; ti < 10; ti++) for (int dn = 0; dn < 2; dn++) {
        char rel[64]; snprintf(rel, sizeof rel, "%s,%s", ti == 9 ? "timer-null" : ti < 2 ? "timer-valid" : "timer-extreme", dn ? "dest-null" : "dest");
        begin(which ? "localtime_s" : "gmtime_s", rel, "tmconv %d %d %d", which, ti, dn);
        struct tm *d = dn ? NULL : mkdest(sizeof(struct tm), 1, 0); const time_t *tp = ti == 9 ? NULL : mksrc(1, &tts[ti], sizeof(time_t)); struct tm *r = NULL;
        CALL(r = (which ? localtime_s_ : gmtime_s_)(tp, d));
        if (P == 6 && !fault && r && d && tp) { struct tm t2; memset(&t2, 0, sizeof t2); if (which) localtime_r(&tts[ti], &t2); else gmtime_r(&tts[ti], &t2);
            if (t2.tm_year != d->tm_year || t2.tm_mon != d->tm_mon || t2.tm_mday != d->tm_mday || t2.tm_hour != d->tm_hour || t2.tm_min != d->tm_min || t2.tm_sec != d->tm_sec || t2.tm_wday != d->tm_wday || t2.tm_yday != d->tm_yday) report("wrong-result"); }
        judge(0, r == NULL, 0, 0, 0);
    }
    /* getenv_s: values of length dmax-1, dmax, dmax+1 */
    for (size_t vl = 0; vl <= 40; vl += (vl < 6 ? 1 : 17)) {
        char val[64]; memset(val, 'v', vl); val[vl] = 0; setenv("VERIF_GETENV", val, 1);
        for (long dd = -2; dd <= 3; dd++) for (int extra = 0; extra < 2; extra++) for (int ln = 0; ln < 2; ln++) {
            long dm = (long)vl + dd; if (dm < 0) continue; size_t dmax = dm;
            char rel[64]; snprintf(rel, sizeof rel, "%s,%s,%s", dmax == 0 ? "dmax0" : dmax > vl ? "fits" : dmax == vl ? "len=dmax" : "len>dmax", vl == 0 ? "empty-value" : "value", ln ? "len-null" : "len");
            begin("getenv_s", rel, "getenv %zu %zu %d %d", vl, dmax, extra, ln);
            char *d = mkdest(dmax, 1, extra ? 3 : 0); size_t *lp = ln ? NULL : (size_t *)flush(2, sizeof(size_t)); if (lp) *lp = 0x7777; int r = 0;
            const char *name = mksrc(1, "VERIF_GETENV", 13);
            CALL(r = getenv_s_(lp, dmax ? d : (extra ? d : NULL), dmax, name, BOSU));
            if (vl < dmax) exp_str = val; else if (dmax) exp_mustfail = 1;
            if (P == 6 && !fault && r == 0 && lp && *lp != vl) report("wrong-length-out");
            judge(dmax > 0, r != 0, r > 0 ? r : 0, SP | SL, dmax > 0 || extra);
        }
    }
    { begin("getenv_s", "unset-variable", "getenv-unset"); char *d = mkdest(8, 1, 0); size_t l = 0; int r = 0; CALL(r = getenv_s_(&l, d, 8, "VERIF_NOT_SET_ANYWHERE", BOSU)); judge(1, 0, 0, SP, 1); }
    /* names containing '=' (POSIX says they cannot match; glibc looks them up like any other name): whatever the answer, dest ends up terminated */
    { static const char *NM[] = { "VERIF_GETENV=v", "VERIF_EQ=B", "=", "VERIF_GETENV=" }; setenv("VERIF_EQ", "B=C", 1); setenv("VERIF_GETENV", "vvv", 1);
      for (int ni = 0; ni < 4; ni++) for (size_t dmax = 1; dmax <= 9; dmax += 4) { begin("getenv_s", "name-with-equals-sign", "getenv-eq %d %zu", ni, dmax); char *d = mkdest(dmax, 1, 0); size_t l = 0; int r = 0;
        const char *name = mksrc(1, NM[ni], strlen(NM[ni]) + 1); CALL(r = getenv_s_(&l, d, dmax, name, BOSU)); judge(1, r > 0, r > 0 ? r : 0, SP | CE, 1); } }      /* -1: not found, a plain status */
    { begin("getenv_s", "name-null", "getenv-null"); char *d = mkdest(8, 1, 0); size_t l = 0; int r = 0; CALL(r = getenv_s_(&l, d, 8, NULL, BOSU)); judge(1, r != 0, r > 0 ? r : 0, SP | CE, 1); }
    /* gets_s: lines of length dmax-2 .. dmax+2, with and without newline; contents: plain, a NUL as the first byte, a NUL in the middle;
       dest after a text block (the byte in front of it is a newline) and over earlier multi-line contents; histories: the call follows one that already met end-of-file */
    for (size_t dmax = 1; dmax <= 40; dmax += (dmax < 8 ? 1 : 29)) for (long dl = -2; dl <= 2; dl++) for (int nl = 0; nl < 2; nl++)
    for (int content = 0; content < 3; content++) for (int pv = 0; pv < 3; pv++) {
        long ll = (long)dmax + dl; if (ll < 0) continue;
        if (content && ll < 1) continue; if (content == 2 && ll < 3) continue;
        if (pv == 2 && P == 4) continue;                 /* the left-over check of C04 knows the plain prior fill only */
        char line[64]; memset(line, 'g', ll); line[ll] = nl ? '\n' : 0; line[ll + 1] = 0; size_t bytes = ll + nl;
        if (content == 1) line[0] = 0; else if (content == 2) line[ll / 2] = 0;
        char rel[96]; snprintf(rel, sizeof rel, "%s,%s%s%s", (size_t)ll < dmax ? "line<dmax" : (size_t)ll == dmax ? "line=dmax" : "line>dmax", nl ? "newline" : "eof",
                               content == 1 ? ",nul-first" : content == 2 ? ",nul-inside" : "", pv == 1 ? ",newline-before-dest" : pv == 2 ? ",old-lines-in-dest" : "");
        begin("gets_s", rel, "gets %zu %ld %d %d %d", dmax, ll, nl, content, pv);
        if (stdin) fclose(stdin); stdin = fmemopen(line, bytes ? bytes : 1, "r"); if (!bytes) (void)fgetc(stdin), clearerr(stdin);
        char *d = mkdest(dmax, 1, 0); char *r = NULL;
        if (pv == 1) set_before('\n');
        if (pv == 2) { for (size_t i = 0; i < dmax; i++) d[i] = (i % 3) == 2 ? '\n' : 'o'; memcpy(D.prior, D.p, D.obj); }
        CALL(r = gets_s_(d, dmax, BOSU));
        judge(1, r == NULL && ll > 0, 0, SP | SL, 1);
    }
    /* short lines (the empty one among them) into a dest with nothing accessible in front of it */
    if (P == 1 || P == 2) for (size_t dmax = 1; dmax <= 5; dmax += 2) for (int li = 0; li < 6; li++) {
        static const char *LN[] = { "\n", "a\n", "", "ab", "\r\n", "\n\n" };
        char rel[96]; snprintf(rel, sizeof rel, "%s,dest-at-the-start-of-accessible-memory", li == 0 || li == 5 ? "empty-line" : li == 2 ? "empty-input" : "short-line");
        begin("gets_s", rel, "gets-left %zu %d", dmax, li);
        char in[8]; strcpy(in, LN[li]);
        if (stdin) fclose(stdin); stdin = fmemopen(in, strlen(in) ? strlen(in) : 1, "r"); if (!in[0]) (void)fgetc(stdin), clearerr(stdin);
        char *d = mkdest_left(dmax, 1); char *r = NULL;
        CALL(r = gets_s_(d, dmax, BOSU)); (void)r;
        if (P == 2) judge(1, 0, 0, SP, 1); else if (fault == 1) judge(1, 0, 0, SP, 1);
    }
    for (size_t dmax = 1; dmax <= 9; dmax += 4) for (int first = 0; first < 3; first++) for (int pv = 0; pv < 2; pv++) {
        static const char *FIRST[] = { "", "ab", "ab\n" };
        char rel[96]; snprintf(rel, sizeof rel, "second-call-at-end-of-file,%s%s", first == 0 ? "empty-input" : first == 1 ? "after-last-line-without-newline" : "after-last-line", pv ? ",old-lines-in-dest" : "");
        begin("gets_s", rel, "gets-eof %zu %d %d", dmax, first, pv);
        char in[8]; strcpy(in, FIRST[first]);
        if (stdin) fclose(stdin); stdin = fmemopen(in, strlen(in) ? strlen(in) : 1, "r"); if (!in[0]) (void)fgetc(stdin);
        char scratch[16]; char *r = NULL; h_n = 0;
        CALL(r = gets_s_(scratch, sizeof scratch, BOSU)); if (first == 2) CALL(r = gets_s_(scratch, sizeof scratch, BOSU));    /* the call that meets end-of-file */
        h_n = 0; fault = 0; errno = 0;
        char *d = mkdest(dmax, 1, 0);
        if (pv) { for (size_t i = 0; i < dmax; i++) d[i] = (i % 3) == 2 ? '\n' : 'o'; memcpy(D.prior, D.p, D.obj); }
        CALL(r = gets_s_(d, dmax, BOSU));
        judge(1, 0, 0, SP | SL, 1);
    }
}

int main(int argc, char **argv) {
    setvbuf(stdout, NULL, _IOLBF, 0);
    if (argc < 5) { fprintf(stderr, "usage\n"); return 2; }
    int replay = !strcmp(argv[1], "replay"); int a = replay ? 2 : 1;
    g_prop = argv[a]; P = atoi(g_prop + 1); g_variant = argv[a + 1]; g_loc = argv[a + 2]; prod = !strcmp(g_variant, "prod");
    if (!setlocale(LC_ALL, g_loc)) { fprintf(stderr, "cannot set locale\n"); return 2; }
    setenv("TZ", "UTC", 1); tzset();
    L = dlopen(getenv("CAT_LIB"), RTLD_NOW | RTLD_GLOBAL);
    if (!L) { fprintf(stderr, "cannot load CAT_LIB: %s\n", dlerror()); return 2; }
    void *(*ss)(void *) = dlsym(L, "set_str_constraint_handler_s"), *(*sm)(void *) = dlsym(L, "set_mem_constraint_handler_s");
    ss((void *)handler); sm((void *)handler);
    arena_init();
    static char alt[1 << 16]; stack_t sst = { .ss_sp = alt, .ss_size = sizeof alt }; sigaltstack(&sst, NULL);
    struct sigaction sa; memset(&sa, 0, sizeof sa); sa.sa_sigaction = on_sig; sa.sa_flags = SA_SIGINFO | SA_ONSTACK | SA_NODEFER;
    sigaction(SIGSEGV, &sa, NULL); sigaction(SIGBUS, &sa, NULL); sigaction(SIGABRT, &sa, NULL); sigaction(SIGFPE, &sa, NULL);
    const char *sel = argv[a + 3];
    if (replay) verbose = 1;
    /* replay re-runs the whole (small) group and stops at the named case: cases are cheap and self-describing */
    const char *target = NULL; char tbuf[300] = "";
    if (replay) { for (int i = a + 3; i < argc; i++) { strcat(tbuf, argv[i]); if (i + 1 < argc) strcat(tbuf, " "); } target = tbuf; verbose = 0;
        sel = !strncmp(tbuf, "printf", 6) ? "printf" : !strncmp(tbuf, "wprintf", 7) ? "wprintf" : (!strncmp(tbuf, "towfc", 5) || !strncmp(tbuf, "wcsfc", 5) || !strncmp(tbuf, "wcsnorm", 7)) ? "unicode" : !strncmp(tbuf, "conv", 4) ? "conv" : !strncmp(tbuf, "normparts", 9) ? "normparts" : !strncmp(tbuf, "east ", 5) ? "oseast" : "os"; }
    if (want("printf", sel)) g_printf();
    if (want("wprintf", sel)) g_wprintf();
    if (want("unicode", sel)) g_unicode();
    if (want("normparts", sel)) g_normparts();
    if (want("conv", sel)) g_conv();
    if (want("os", sel)) g_os();
    if (!strcmp(sel, "oseast")) { g_east = 1; setenv("TZ", "XXX-14", 1); tzset(); g_os(); }
    if (replay) {
        int hit = 0; for (int i = 0; i < nsig; i++) if (!strcmp(sigcase[i], target)) { printf("CASE %s\nVERDICT violation %s\n", target, sigs[i]); hit = 1; }
        if (!hit) { for (int i = 0; i < nsig; i++) if (strstr(sigs[i], argv[argc - 1])) hit = 1; }
        if (!hit) printf("VERDICT ok (case %s raises no violation)\n", target);
        return hit;
    }
    for (int i = 0; i < nsig; i++) printf("{\"t\":\"viol\",\"sig\":\"%s\",\"n\":%ld,\"case\":\"%s\"}\n", sigs[i], sigcnt[i], sigcase[i]);
    printf("{\"t\":\"stat\",\"evaluations\":%ld,\"nontrivial\":%ld,\"signatures\":%d}\n", n_cases, n_nontriv, nsig);
    return 0;
}
