/* c17.c - C17 Unicode normalization and case folding follow the Unicode standard.
 * norm: every vector (source, NFD, NFC) produced by the independent implementation is run through wcsnorm_s in
 *       both modes with dmax = needed, needed-1 and ample, in a canaried destination; the result, *lenp, the
 *       terminator, idempotence (normalizing the library's own result again) and the ESNOSPC exit are checked.
 * fold: every code point 0..0x10FFFF: iswfc() against the number of characters towfc_s() stores, and wcsfc_s()
 *       of the one-character string against NFD(casefold) from the independent implementation.
 * range: values above U+10FFFF and surrogates, alone and embedded, through every entry point: no fault, rejected.
 * usage: c17 norm <vectors> <shard> <n> | c17 fold <foldfile> <shard> <n> | c17 range | c17 replay ...   env CAT_LIB */
#define _GNU_SOURCE
#include <stdio.h>
#include <stdlib.h>
#include <string.h>
#include <stdint.h>
#include <wchar.h>
#include <locale.h>
#include <signal.h>
#include <setjmp.h>
#include <dlfcn.h>
#include <sys/mman.h>
#include <sys/wait.h>
#include <unistd.h>

#define BOSU ((size_t)-1)
#define ESNOSPC 406
#define ESNOTFND 409
static int (*p_norm)(wchar_t *, size_t, const wchar_t *, int, size_t *, size_t);
static int (*p_fc)(wchar_t *, size_t, const wchar_t *, size_t *, size_t);
static int (*p_towfc)(wchar_t *, size_t, uint32_t, size_t);
static int (*p_iswfc)(uint32_t);
static int h_n; static void handler(const char *m, void *p, int e) { (void)m; (void)p; (void)e; h_n++; }
static sigjmp_buf jb; static volatile int armed;
static void on_sig(int s) { (void)s; if (!armed) _exit(3); armed = 0; siglongjmp(jb, 1); }

#define MAXSIG 4096
static char sigs[MAXSIG][160], sigcase[MAXSIG][400]; static long sigcnt[MAXSIG]; static int nsig; static long n_calls, n_viol, n_vec;
static int verbose; static int g_slack = 1;
static void report(const char *fn, const char *what, const char *cls, const char *cs) {
    char sig[160]; snprintf(sig, sizeof sig, "C17|%s|%s|%s", fn, what, cls); n_viol++;
    if (verbose) printf("  -> %s\n", sig);
    for (int i = 0; i < nsig; i++) if (!strcmp(sigs[i], sig)) { sigcnt[i]++; return; }
    if (nsig < MAXSIG) { strcpy(sigs[nsig], sig); strncpy(sigcase[nsig], cs, 399); sigcnt[nsig] = 1; nsig++; }
}
static int parse_cps(const char *s, wchar_t *out, int max) { int n = 0; if (*s == '-') { out[0] = 0; return 0; }
    while (*s && n < max) { char *e; out[n++] = (wchar_t)strtoul(s, &e, 16); s = *e == ',' ? e + 1 : e; if (!*e) break; } out[n] = 0; return n; }
static void show(const char *tag, const wchar_t *w, int n) { printf("  %s:", tag); for (int i = 0; i < n; i++) printf(" %04X", (unsigned)w[i]); printf("\n"); }
static const char *blk(uint32_t c) { static char b[24]; if (c >= 0xAC00 && c <= 0xD7A3) return "hangul-syllable"; if (c >= 0x1100 && c <= 0x11FF) return "jamo"; snprintf(b, sizeof b, "U+%04Xxx", c >> 8); return b; }

/* the C library's own allocations can fail too (its qsort sorts through a scratch array it mallocs when the array is larger than 1 KiB, and falls back to
 * an unstable in-place sort when that fails).  malloc is defined here so that, on demand, requests coming from inside libc are refused; the library's own
 * requests and the harness's are always served. */
#include <link.h>
extern void *__libc_malloc(size_t); extern void __libc_free(void *); extern void *__libc_realloc(void *, size_t); extern void *__libc_calloc(size_t, size_t);
static uintptr_t libc_lo, libc_hi; static volatile int fail_libc_malloc; static long refused;
static int find_libc(struct dl_phdr_info *info, size_t sz, void *d) { (void)sz; (void)d;
    if (info->dlpi_name && strstr(info->dlpi_name, "libc.so")) for (int i = 0; i < info->dlpi_phnum; i++) { const ElfW(Phdr) *ph = &info->dlpi_phdr[i];
        if (ph->p_type == PT_LOAD && (ph->p_flags & PF_X)) { libc_lo = info->dlpi_addr + ph->p_vaddr; libc_hi = libc_lo + ph->p_memsz; } }
    return 0; }
void *malloc(size_t n) { if (fail_libc_malloc) { uintptr_t ra = (uintptr_t)__builtin_return_address(0); if (ra >= libc_lo && ra < libc_hi) { refused++; return NULL; } } return __libc_malloc(n); }

#define CAN 0x5a5a5a5a
static wchar_t dbuf[4400];

/* one normalization call with canaries; returns rc, fills out/len */
static size_t g_bos = BOSU;      /* object size handed to the library: unknown, or exactly dmax elements */
static int norm_call(const wchar_t *src, int mode, size_t dmax, wchar_t *out, size_t *lenp, int *crashed, int *canary_ok) {
    for (size_t i = 0; i < dmax + 8 && i < 4400; i++) dbuf[i] = CAN;
    int rc = -1; *crashed = 0; *lenp = 777777; h_n = 0; n_calls++;
    if (sigsetjmp(jb, 1) == 0) { armed = 1; rc = p_norm(dbuf, dmax, src, mode, lenp, g_bos); armed = 0; } else *crashed = 1;
    *canary_ok = 1; for (size_t i = dmax; i < dmax + 8; i++) if (dbuf[i] != (wchar_t)CAN) *canary_ok = 0;
    memcpy(out, dbuf, (dmax < 4000 ? dmax : 4000) * sizeof(wchar_t)); return rc;
}

static void norm_vector(const char *group, const wchar_t *src, int ns, const wchar_t *nfd, int nd, const wchar_t *nfc, int nc, const char *line) {
    n_vec++;
    wchar_t out[4100], out2[4100]; size_t len; int crashed, can; char cls[100], cs[400];
    snprintf(cs, sizeof cs, "%.380s", line);
    for (int mode = 0; mode < 2; mode++) {
        const wchar_t *exp = mode ? nfc : nfd; int ne = mode ? nc : nd; const char *fn = mode ? "wcsnorm_s:NFC" : "wcsnorm_s:NFD";
        if (!strcmp(group, "single")) snprintf(cls, sizeof cls, "single,U+%04X", (unsigned)src[0]); else snprintf(cls, sizeof cls, "%s,%s", group, blk(src[0]));
        /* the library decomposes into dest first and wants room for a whole decomposition (4 + terminator) at every character:
         * dmax >= NFD length + 5 must work; between NFD length + 1 and + 4 it may work or report ESNOSPC; below it must fail */
        size_t ample = (size_t)nd + 5;
        size_t dms[5] = { ample, ample + 16, (size_t)nd + 1 < 5 ? 5 : (size_t)nd + 1, nd >= 5 ? (size_t)nd : 0, 2 * (size_t)nd + 8 <= 1024 ? 2 * (size_t)nd + 8 : 0 };
        for (int di = 0; di < 5; di++) { size_t dmax = dms[di]; if (!dmax) continue; if (di == 4 && nd < 20) continue;      /* a dest more than twice the result: only for the longer inputs */
            int rc = norm_call(src, mode, dmax, out, &len, &crashed, &can);
            if (verbose) { printf("mode=%s dmax=%zu rc=%d len=%zu crashed=%d canary_ok=%d handler=%d\n", mode ? "NFC" : "NFD", dmax, rc, len, crashed, can, h_n); if (!crashed) show("out", out, rc == 0 ? (int)wcsnlen(out, dmax) : 1); show("expected", exp, ne); }
            if (crashed) { report(fn, "fault", cls, cs); break; }
            if (!can) { report(fn, "writes-beyond-dmax", cls, cs); break; }
            if (di == 0 || di == 2) {      /* the same call with the object size known (= dmax elements, what the public macro passes for an array): same outcome */
                wchar_t ok_[4100]; size_t lk; int ck, kk; g_bos = dmax * sizeof(wchar_t); int rk = norm_call(src, mode, dmax, ok_, &lk, &ck, &kk); g_bos = BOSU;
                if (verbose) printf("  with the object size known: rc=%d len=%zu crashed=%d\n", rk, lk, ck);
                if (ck) { report(fn, "fault", cls, cs); break; }
                if (rk != rc || (rc == 0 && (lk != len || memcmp(ok_, out, (len + 1) * sizeof(wchar_t))))) { report(fn, "known-object-size-changes-the-outcome", cls, cs); break; }
            }
            if (di == 3 || (di == 2 && rc != 0)) {
                if (rc == 0) { report(fn, "success-although-too-small", cls, cs); break; }
                if (rc != ESNOSPC && di == 2) { report(fn, "fails-on-valid-input", cls, cs); break; }
                if (out[0] != 0) { report(fn, "dest-not-cleared-on-error", cls, cs); break; }
                continue;
            }
            if (rc != 0) { report(fn, "fails-on-valid-input", cls, cs); break; }
            size_t ol = wcsnlen(out, dmax);
            if (ol >= dmax) { report(fn, "unterminated", cls, cs); break; }
            if ((int)ol != ne || memcmp(out, exp, ne * sizeof(wchar_t))) { report(fn, "differs-from-UAX15", cls, cs); break; }
            if (len != ol) { report(fn, "wrong-length-reported", cls, cs); break; }
            { int stale = 0; for (size_t k = ol; k < dmax; k++) if (out[k] != 0) stale = 1;        /* the slack behind the terminator is nulled (this build nulls it everywhere) */
              if (stale && g_slack) { report(fn, "stale-data-behind-the-terminator", cls, cs); break; } }
            /* normalizing the result again gives the same result */
            if (di == 0) { memcpy(out2, out, (ol + 1) * sizeof(wchar_t)); wchar_t o3[4100]; size_t l3; int c3, k3;
                int r2 = norm_call(out2, mode, ample, o3, &l3, &c3, &k3);
                if (c3) { report(fn, "fault", cls, cs); break; }
                if (r2 != 0 || wcsnlen(o3, ample) != ol || memcmp(o3, out2, ol * sizeof(wchar_t))) { report(fn, "not-idempotent", cls, cs); break; } }
        }
    }
}

static char **argv0_saved;
int main(int argc, char **argv) {
    argv0_saved = argv;
    setvbuf(stdout, NULL, _IOLBF, 0); if (!getenv("C17_NOLOCALE")) setlocale(LC_ALL, "C.UTF-8");      /* C17_NOLOCALE: the process stays in the "C" locale it starts in, whatever LANG/LC_* say */
    void *L = dlopen(getenv("CAT_LIB"), RTLD_NOW | RTLD_GLOBAL);
    if (!L) { fprintf(stderr, "cannot load CAT_LIB\n"); return 2; }
    p_norm = dlsym(L, "_wcsnorm_s_chk"); p_fc = dlsym(L, "_wcsfc_s_chk"); p_towfc = dlsym(L, "_towfc_s_chk"); p_iswfc = dlsym(L, "iswfc");
    void *(*ss)(void *) = dlsym(L, "set_str_constraint_handler_s");
    if (!p_norm || !p_fc || !p_towfc || !p_iswfc || !ss) { fprintf(stderr, "missing symbols\n"); return 2; }
    ss((void *)handler);
    struct sigaction sa; memset(&sa, 0, sizeof sa); sa.sa_handler = on_sig; sa.sa_flags = SA_NODEFER; sigaction(SIGSEGV, &sa, NULL); sigaction(SIGBUS, &sa, NULL); sigaction(SIGABRT, &sa, NULL); sigaction(SIGFPE, &sa, NULL);
    if (argc < 2) return 2;
    const char *cmd = argv[1]; int replay = 0;
    if (!strcmp(cmd, "replay") && argc >= 3) { replay = 1; verbose = 1; cmd = argv[2]; argv++; argc--; }

    if (!strcmp(cmd, "norm")) {
        /* vector lines: <group> <src> <nfd> <nfc>; replay: c17 replay norm <group> <src> <nfd> <nfc> */
        static wchar_t src[1100], nfd[4100], nfc[4100]; char line[40000], g[40]; static char a[12000], b[14000], c[14000];
        if (replay) { if (argc < 6) return 2; int ns = parse_cps(argv[3], src, 1000), nd = parse_cps(argv[4], nfd, 4000), nc = parse_cps(argv[5], nfc, 4000); snprintf(line, sizeof line, "norm %s %s %s %s", argv[2], argv[3], argv[4], argv[5]); norm_vector(argv[2], src, ns, nfd, nd, nfc, nc, line); }
        else { if (argc < 5) return 2; FILE *f = fopen(argv[2], "r"); if (!f) return 2; long shard = atol(argv[3]), nsh = atol(argv[4]), ln = 0;
            /* the loop runs in a forked child; the line number of the vector in progress is written ahead into shared memory, so a call
             * that corrupts the harness's own stack (and kills it later) is attributed and the run resumes behind it */
            struct Slot { volatile long cur; volatile long done; } *slot = mmap(NULL, 4096, PROT_READ | PROT_WRITE, MAP_SHARED | MAP_ANONYMOUS, -1, 0);
            slot->cur = -1; long resume = 0; int deaths = 0;
            for (;;) { fflush(stdout); pid_t pid = fork();
                if (pid != 0) { int st = 0; waitpid(pid, &st, 0);
                    if (WIFEXITED(st) && WEXITSTATUS(st) == 0 && slot->done) return 0;
                    if (++deaths > 50) { fprintf(stderr, "harness child died too often\n"); return 2; }
                    printf("{\"t\":\"viol\",\"sig\":\"C17|wcsnorm_s|harness-killed-by-the-call(stack-or-heap-corruption)|vector\",\"n\":1,\"case\":\"normfile X %ld\"}\n", (long)slot->cur);
                    resume = slot->cur + 1; rewind(f); ln = 0; continue; }
                break; }
            while (fgets(line, sizeof line, f)) { if (ln < resume) { ln++; continue; } if ((ln++ % nsh) != shard) continue; slot->cur = ln - 1; if (sscanf(line, "%39s %11999s %13999s %13999s", g, a, b, c) != 4) continue;
                int ns = parse_cps(a, src, 1000), nd = parse_cps(b, nfd, 4000), nc = parse_cps(c, nfc, 4000); char cs[400]; snprintf(cs, sizeof cs, "norm %s %.100s %.120s %.120s", g, a, b, c);
                if (strlen(a) > 100 || strlen(b) > 120) snprintf(cs, sizeof cs, "normfile %s %ld", g, ln - 1);
                norm_vector(g, src, ns, nfd, nd, nfc, nc, cs); }
            fclose(f);
            for (int i = 0; i < nsig; i++) printf("{\"t\":\"viol\",\"sig\":\"%s\",\"n\":%ld,\"case\":\"%s\"}\n", sigs[i], sigcnt[i], sigcase[i]);
            printf("{\"t\":\"stat\",\"cmd\":\"%s\",\"vectors\":%ld,\"calls\":%ld,\"violating\":%ld}\n", cmd, n_vec, n_calls, n_viol);
            slot->done = 1; fflush(stdout); _exit(0); }
    } else if (!strcmp(cmd, "fold")) {
        /* fold file lines: <cp> <expected NFD(casefold)>, only for code points where that differs from the code point itself;
         * every other code point folds to itself (or is unassigned in the reference's Unicode version: not judged) */
        static unsigned char *assigned; static wchar_t (*expv)[20]; static unsigned char *expn;
        assigned = calloc(0x110000, 1); expv = calloc(0x110000, sizeof *expv); expn = calloc(0x110000, 1);
        const char *ff = argv[2]; long shard = replay ? 0 : atol(argv[3]), nsh = replay ? 1 : atol(argv[4]); uint32_t only = replay && argc > 3 ? strtoul(argv[3], NULL, 16) : 0xffffffff;
        FILE *f = fopen(ff, "r"); if (!f) return 2; char line[400], e[300]; unsigned cp;
        while (fgets(line, sizeof line, f)) { if (line[0] == '=') { unsigned lo, hi; if (sscanf(line, "= %x %x", &lo, &hi) == 2) for (unsigned c = lo; c <= hi && c < 0x110000; c++) assigned[c] = 1; continue; }
            if (sscanf(line, "%x %299s", &cp, e) == 2 && cp < 0x110000) expn[cp] = parse_cps(e, expv[cp], 18); }
        fclose(f);
        for (uint32_t c = 0; c <= 0x10FFFF; c++) { if (only != 0xffffffff ? c != only : (c % nsh) != (uint32_t)shard) continue;
            char cs[64], cls[64]; snprintf(cs, sizeof cs, "fold %s %X", "FOLDFILE", c); snprintf(cls, sizeof cls, "U+%04X", c);
            /* iswfc against towfc_s */
            wchar_t d[12]; for (int i = 0; i < 12; i++) d[i] = CAN; int a = -99, r = -99, crashed = 0; n_calls++;
            if (sigsetjmp(jb, 1) == 0) { armed = 1; a = p_iswfc(c); r = p_towfc(d, 4, c, BOSU); armed = 0; } else crashed = 1;
            if (verbose) printf("U+%04X iswfc=%d towfc_s=%d dest=%04X %04X %04X %04X crashed=%d\n", c, a, r, (unsigned)d[0], (unsigned)d[1], (unsigned)d[2], (unsigned)d[3], crashed);
            if (crashed) { report("towfc_s", "fault", cls, cs); continue; }
            if (d[4] != (wchar_t)CAN) { report("towfc_s", "writes-beyond-dmax", cls, cs); continue; }
            int emitted = (int)wcsnlen(d, 4);
            if (emitted >= 4) { report("towfc_s", "unterminated", cls, cs); continue; }
            if (a < 0 || a > 3) report("iswfc", "announces-out-of-range", cls, cs);
            else if (c == 0) ;                                            /* the terminator folds to nothing */
            else if (r >= 0 || r == -ESNOTFND) {
                if (r > 0 && r != emitted) report("towfc_s", "return-differs-from-characters-stored", cls, cs);
                else if (emitted != (a < 1 ? 1 : a)) report("iswfc", a < emitted ? "announces-fewer-than-towfc_s-stores" : "announces-more-than-towfc_s-stores", cls, cs);
            } else report("towfc_s", "fails-on-valid-code-point", cls, cs);
            /* wcsfc_s of the one-character string, for code points the reference knows */
            if (c == 0 || !assigned[c] || (c >= 0xD800 && c <= 0xDFFF)) continue;
            wchar_t s[2] = { (wchar_t)c, 0 }, o[40]; for (int i = 0; i < 40; i++) o[i] = CAN; size_t len = 7777; int rc = -1; n_calls++;
            if (sigsetjmp(jb, 1) == 0) { armed = 1; rc = p_fc(o, 32, s, &len, BOSU); armed = 0; } else crashed = 1;
            const wchar_t *exp = expn[c] ? expv[c] : s; int ne = expn[c] ? expn[c] : 1;
            if (verbose) { printf("wcsfc_s rc=%d len=%zu crashed=%d\n", rc, len, crashed); if (!crashed) show("out", o, (int)wcsnlen(o, 32)); show("expected", exp, ne); }
            if (crashed) { report("wcsfc_s", "fault", cls, cs); continue; }
            if (o[32] != (wchar_t)CAN) { report("wcsfc_s", "writes-beyond-dmax", cls, cs); continue; }
            if (rc != 0) { report("wcsfc_s", "fails-on-valid-code-point", cls, cs); continue; }
            int ol = (int)wcsnlen(o, 32);
            if (ol != ne || memcmp(o, exp, ne * sizeof(wchar_t))) { report("wcsfc_s", "differs-from-NFD-of-full-case-folding", cls, cs); continue; }
            if ((int)len != ol) report("wcsfc_s", "wrong-length-reported", cls, cs);
        }
    } else if (!strcmp(cmd, "sortstab") && !getenv("C17_SORTSTAB_CHILD")) {
        /* run in a child of its own: a call that corrupts its stack ends that process, which is a verdict */
        fflush(stdout); pid_t pid = fork();
        if (pid == 0) { setenv("C17_SORTSTAB_CHILD", "1", 1); execv("/proc/self/exe", argv0_saved); _exit(127); }
        int st = 0; waitpid(pid, &st, 0);
        if (!WIFEXITED(st) || (WEXITSTATUS(st) != 0 && WEXITSTATUS(st) != 1)) {
            printf("{\"t\":\"viol\",\"sig\":\"C17|wcsnorm_s|harness-killed-while-normalizing-long-mark-runs|status%x\",\"n\":1,\"case\":\"sortstab\"}\n", st);
            if (replay) { printf("VERDICT violation: the process normalizing the long mark runs was killed (status %#x)\n", st); return 1; }
        }
        if (replay) return WIFEXITED(st) ? WEXITSTATUS(st) : 1;
        return 0;
    } else if (!strcmp(cmd, "sortstab")) {
        /* long runs of combining marks, many of them of the same class and distinct: the result must be the same whether or not the C library gets the
           memory it asks for internally while the library reorders the marks */
        dl_iterate_phdr(find_libc, NULL);
        static const int NS_[] = { 130, 200, 300, 600 };
        for (int ni = 0; ni < 4; ni++) for (int pat = 0; pat < 3; pat++) { if (replay && argc > 3 && (atoi(argv[2]) != ni || atoi(argv[3]) != pat)) continue;
            static wchar_t src[700], o1[2100], o2[2100]; int n = NS_[ni]; src[0] = 'a';
            for (int i = 1; i <= n; i++) src[i] = pat == 0 ? 0x0300 + (i * 7) % 0x15 : pat == 1 ? (i % 3 == 0 ? 0x0316 + (i * 5) % 4 : 0x0300 + (i * 11) % 0x15) : 0x0300 + (i % 2 ? (i * 3) % 5 : 0x10 + (i * 3) % 5);      /* U+0300..0314: class 230, U+0316..0319: class 220 */
            src[n + 1] = 0; char cs[64], cls[48]; snprintf(cs, sizeof cs, "sortstab %d %d", ni, pat); snprintf(cls, sizeof cls, "marks=%d,%s", n, pat == 1 ? "two-classes" : "one-class");
            for (int mode = 0; mode < 2; mode++) { size_t l1 = 0, l2 = 0; int c1, c2, k1, k2; size_t dmax = (size_t)n + 8;
                int r1 = norm_call(src, mode, dmax, o1, &l1, &c1, &k1);
                refused = 0; fail_libc_malloc = 1; int r2 = norm_call(src, mode, dmax, o2, &l2, &c2, &k2); fail_libc_malloc = 0;
                if (verbose) printf("mode=%s marks=%d: rc=%d len=%zu; with libc-internal allocations refused (%ld refused): rc=%d len=%zu\n", mode ? "NFC" : "NFD", n, r1, l1, refused, r2, l2);
                if (c1 || c2) { report(mode ? "wcsnorm_s:NFC" : "wcsnorm_s:NFD", "fault", cls, cs); continue; }
                if (r1 != 0) { report(mode ? "wcsnorm_s:NFC" : "wcsnorm_s:NFD", "fails-on-valid-input", cls, cs); continue; }
                if (r2 != 0) continue;                               /* reported an allocation failure of its own: fine */
                if (l1 != l2 || memcmp(o1, o2, (l1 + 1) * sizeof(wchar_t))) report(mode ? "wcsnorm_s:NFC" : "wcsnorm_s:NFD", "result-depends-on-memory-available-to-the-C-library", cls, cs);
            } }
    } else if (!strcmp(cmd, "range")) {
        static const uint32_t BAD[] = { 0x110000, 0x110001, 0x1FFFFF, 0x200000, 0x7FFFFFFF, 0x80000000u, 0xFFFFFFFFu, 0xFFFF0041u }, SUR[] = { 0xD800, 0xDBFF, 0xDC00, 0xDFFF };
        for (int k = 0; k < 12; k++) { uint32_t c = k < 8 ? BAD[k] : SUR[k - 8]; int above = k < 8; char cs[64], cls[40]; snprintf(cs, sizeof cs, "range %d", k); snprintf(cls, sizeof cls, "%s", above ? "above-10FFFF" : "surrogate");
            if (replay && argc > 2 && atoi(argv[2]) != k) continue;
            for (int shape = 0; shape < 4; shape++) { wchar_t s[6]; int n = 0; if (shape == 1 || shape == 3) s[n++] = L'a'; s[n++] = (wchar_t)c; if (shape >= 2) s[n++] = 0x0301; s[n] = 0;
                for (int mode = 0; mode < 2; mode++) { wchar_t out[64]; size_t len; int crashed, can; int rc = norm_call(s, mode, 32, out, &len, &crashed, &can);
                    if (verbose) printf("wcsnorm_s mode=%d shape=%d U+%X rc=%d crashed=%d\n", mode, shape, c, rc, crashed);
                    if (crashed) report("wcsnorm_s", "fault", cls, cs); else if (!can) report("wcsnorm_s", "writes-beyond-dmax", cls, cs); else if (above && rc == 0) report("wcsnorm_s", "accepts-value-above-10FFFF", cls, cs); else if (rc != 0 && out[0] != 0) report("wcsnorm_s", "dest-not-cleared-on-error", cls, cs); }
                { wchar_t o[40]; for (int i = 0; i < 40; i++) o[i] = CAN; size_t len = 0; int rc = -1, crashed = 0; n_calls++;
                  if (sigsetjmp(jb, 1) == 0) { armed = 1; rc = p_fc(o, 32, s, &len, BOSU); armed = 0; } else crashed = 1;
                  if (verbose) printf("wcsfc_s shape=%d U+%X rc=%d crashed=%d\n", shape, c, rc, crashed);
                  if (crashed) report("wcsfc_s", "fault", cls, cs); else if (o[32] != (wchar_t)CAN) report("wcsfc_s", "writes-beyond-dmax", cls, cs); else if (above && rc == 0) report("wcsfc_s", "accepts-value-above-10FFFF", cls, cs); else if (rc != 0 && o[0] != 0) report("wcsfc_s", "dest-not-cleared-on-error", cls, cs); } }
            { wchar_t d[12]; for (int i = 0; i < 12; i++) d[i] = CAN; int a = 0, r = 0, crashed = 0; n_calls++;
              if (sigsetjmp(jb, 1) == 0) { armed = 1; a = p_iswfc(c); r = p_towfc(d, 4, c, BOSU); armed = 0; } else crashed = 1;
              if (verbose) printf("iswfc/towfc_s U+%X: %d %d crashed=%d\n", c, a, r, crashed);
              if (crashed) report("towfc_s", "fault", cls, cs); else if (d[4] != (wchar_t)CAN || wcsnlen(d, 4) >= 4) report("towfc_s", "writes-beyond-dmax", cls, cs); else if (a < 0 || a > 3) report("iswfc", "announces-out-of-range", cls, cs);
              else if (above && r > 0) report("towfc_s", "folds-value-above-10FFFF", cls, cs); }
        }
    } else return 2;
    for (int i = 0; i < nsig; i++) printf("{\"t\":\"viol\",\"sig\":\"%s\",\"n\":%ld,\"case\":\"%s\"}\n", sigs[i], sigcnt[i], sigcase[i]);
    printf("{\"t\":\"stat\",\"cmd\":\"%s\",\"vectors\":%ld,\"calls\":%ld,\"violating\":%ld}\n", cmd, n_vec, n_calls, n_viol);
    if (replay) { printf(nsig ? "VERDICT violation %s\n" : "VERDICT ok\n", nsig ? sigs[0] : ""); return nsig ? 1 : 0; }
    return 0;
}
