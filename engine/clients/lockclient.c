/* lockclient.c - a call that FAILS in one thread must not leave anything behind that holds up another thread: each stream entry point fails in thread A
 * (the stream's device is full), then thread B uses the same entry point on the same stream and has to come back.  What a failed call could leave
 * behind here is ownership of the C library's stream lock - state outside the library's own storage, which no snapshot of its data shows. */
#include <stdio.h>
#include <stdlib.h>
#include <string.h>
#include <stdarg.h>
#include <pthread.h>
#include <unistd.h>
#include <fcntl.h>
#include <time.h>
#include "safe_lib.h"
#include "safe_str_lib.h"

static FILE *res; static FILE *fs; static int which; static volatile int a_rc, b_rc, b_done;
static void hnd(const char *restrict m, void *restrict p, errno_t e) { (void)m; (void)p; (void)e; }
static int vf(FILE *f, const char *fmt, ...) { va_list ap; va_start(ap, fmt); int r = vfprintf_s(f, fmt, ap); va_end(ap); return r; }
static int vp(const char *fmt, ...) { va_list ap; va_start(ap, fmt); int r = vprintf_s(fmt, ap); va_end(ap); return r; }
static int call(void) { switch (which) { case 0: return printf_s("%s\n", "some text that cannot be written"); case 1: return vp("%s\n", "some text that cannot be written");
    case 2: return fprintf_s(fs, "%s\n", "some text that cannot be written"); default: return vf(fs, "%s\n", "some text that cannot be written"); } }
static void *ta(void *x) { (void)x; a_rc = call(); return NULL; }
static void *tb(void *x) { (void)x; b_rc = call(); b_done = 1; return NULL; }
int main(void) {
    static const char *NM[] = { "printf_s", "vprintf_s", "fprintf_s", "vfprintf_s" };
    res = fdopen(dup(1), "w"); setvbuf(res, NULL, _IOLBF, 0);
    int full = open("/dev/full", O_WRONLY); if (full < 0) { fprintf(res, "DONE nodevfull\n"); return 0; }
    dup2(full, 1); setvbuf(stdout, NULL, _IONBF, 0); fs = fdopen(dup(full), "w"); setvbuf(fs, NULL, _IONBF, 0);
    set_str_constraint_handler_s(hnd);
    int bad = 0;
    for (which = 0; which < 4; which++) {
        pthread_t a, b; b_done = 0; a_rc = b_rc = 12345;
        (void)a; (void)ta; a_rc = call();      /* the failing call is made by this thread, which lives on (a thread that has ended may hand its identity to the next one) */
        pthread_create(&b, NULL, tb, NULL);
        for (int i = 0; i < 300 && !b_done; i++) { struct timespec ts = { 0, 10000000 }; nanosleep(&ts, NULL); }
        int ok = b_done;
        fprintf(res, "S %s-in-a-second-thread-after-a-failed-call-in-the-first first-returned=%d second-%s %s\n", NM[which], a_rc, b_done ? "returned" : "blocked", ok ? "ok" : "WRONG");
        if (!ok) { bad++; break; }      /* the blocked thread cannot be joined */
        pthread_join(b, NULL);
    }
    fprintf(res, "DONE %d\n", bad); fflush(res);
    _exit(0);
}
