/* handlerclient.c - registration through the public headers in an optimised application.  What the headers promise about the returned pointer must be
 * what the library does: a comparison the compiler may fold and the same comparison made on a volatile copy have to agree, and the usual
 * save / restore idiom must leave the thread with a working registration. */
#include <stdio.h>
#include <stdlib.h>
#include <string.h>
#include <pthread.h>
#include "safe_lib.h"
#include "safe_str_lib.h"
#include "safe_mem_lib.h"

static int n_scoped, n_global;
static void h_scoped(const char *restrict m, void *restrict p, errno_t e) { (void)m; (void)p; (void)e; n_scoped++; }
static void h_global(const char *restrict m, void *restrict p, errno_t e) { (void)m; (void)p; (void)e; n_global++; }
static int bad;
#define AGREE(what, ptr) do { constraint_handler_t v_ = (ptr); constraint_handler_t volatile vv_ = v_; int folded = (v_ == NULL), real = (vv_ == NULL); \
    printf("S %s null-as-compiled=%d null-in-fact=%d %s\n", what, folded, real, folded == real ? "ok" : "WRONG"); if (folded != real) bad++; } while (0)

static void *worker(void *arg) {
    (void)arg; char d[4]; const void *volatile none = NULL;      /* a null source the compiler cannot see */
    /* scoped registration on this thread, restored afterwards the usual way */
    constraint_handler_t old = thrd_set_mem_constraint_handler_s(h_scoped);
    AGREE("thrd_set_mem first", old);
    memcpy_s(d, 4, none, 2);                                   /* violation: the scoped handler */
    if (old != NULL) thrd_set_mem_constraint_handler_s(old);   /* nothing was registered before: nothing to restore */
    int s1 = n_scoped;
    memcpy_s(d, 4, none, 2);                                   /* still this thread's own registration */
    printf("S thread-handler-after-restore-idiom scoped=%d then=%d %s\n", s1, n_scoped, s1 == 1 && n_scoped == 2 ? "ok" : "WRONG"); if (!(s1 == 1 && n_scoped == 2)) bad++;
    constraint_handler_t olds = thrd_set_str_constraint_handler_s(h_scoped);
    AGREE("thrd_set_str first", olds);
    return NULL;
}

int main(void) {
    constraint_handler_t p1 = set_mem_constraint_handler_s(h_global); AGREE("set_mem first", p1);
    constraint_handler_t p2 = set_mem_constraint_handler_s(h_global); AGREE("set_mem second", p2);
    constraint_handler_t p3 = set_str_constraint_handler_s(h_global); AGREE("set_str first", p3);
    constraint_handler_t p4 = set_str_constraint_handler_s(NULL); AGREE("set_str third", p4);
    pthread_t t; pthread_create(&t, NULL, worker, NULL); pthread_join(t, NULL);
    printf("DONE %d\n", bad);
    return 0;
}
