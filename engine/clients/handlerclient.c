/* handlerclient.c - registration through the public headers in an optimised application.  What the headers promise about the returned pointer must be
 * what the library does: a comparison the compiler may fold and the same comparison made on a volatile copy have to agree, and the usual
 * save / restore idiom must leave the thread with a working registration. */
#include <stdio.h>
#include <stdlib.h>
#include <string.h>
#include <pthread.h>
#include <fcntl.h>
#include "safe_lib.h"
#include "safe_str_lib.h"
#include "safe_mem_lib.h"

#include <signal.h>
#include <setjmp.h>
#include <unistd.h>
static int n_scoped, n_global;
static void h_scoped(const char *restrict m, void *restrict p, errno_t e) { (void)m; (void)p; (void)e; n_scoped++; }
static void h_global(const char *restrict m, void *restrict p, errno_t e) { (void)m; (void)p; (void)e; n_global++; }
static int bad;
#define AGREE(what, ptr) do { constraint_handler_t v_ = (ptr); constraint_handler_t volatile vv_ = v_; int folded = (v_ == NULL), real = (vv_ == NULL); \
    printf("S %s null-as-compiled=%d null-in-fact=%d %s\n", what, folded, real, folded == real ? "ok" : "WRONG"); if (folded != real) bad++; } while (0)

static void *worker(void *arg) {
    (void)arg; char d[4]; const void *volatile none = NULL;      /* a null source the compiler cannot see */
    /* scoped registration on this thread, restored afterwards the usual way */
    constraint_handler_t old = thrd_set_mem_constraint_handler_s(h_scoped);
    AGREE("thrd_set_mem first", old);
    memcpy_s(d, 4, none, 2);                                   /* violation: the scoped handler */
    if (old != NULL) thrd_set_mem_constraint_handler_s(old);   /* nothing was registered before: nothing to restore */
    int s1 = n_scoped;
    memcpy_s(d, 4, none, 2);                                   /* still this thread's own registration */
    printf("S thread-handler-after-restore-idiom scoped=%d then=%d %s\n", s1, n_scoped, s1 == 1 && n_scoped == 2 ? "ok" : "WRONG"); if (!(s1 == 1 && n_scoped == 2)) bad++;
    constraint_handler_t olds = thrd_set_str_constraint_handler_s(h_scoped);
    AGREE("thrd_set_str first", olds);
    return NULL;
}

/* a program that survives abort_handler_s (SIGABRT caught and left through siglongjmp, which ISO C permits): the run of that handler is an
 * invocation like any other, afterwards every registration is what it was */
static sigjmp_buf ab_jb; static int n_abrt;
static void on_abrt(int sig) { (void)sig; n_abrt++; siglongjmp(ab_jb, 1); }
static void *abort_worker(void *arg) {
    (void)arg; char d[4]; const void *volatile none = NULL; const char *volatile nones = NULL;
    struct sigaction sa; memset(&sa, 0, sizeof sa); sa.sa_handler = on_abrt; sa.sa_flags = SA_NODEFER; sigaction(SIGABRT, &sa, NULL);
    int devnull = open("/dev/null", 1), keep = dup(2); dup2(devnull, 2);       /* the handler's message */
    thrd_set_mem_constraint_handler_s(h_scoped);                  /* this thread: own memory handler, the process-wide abort handler for strings */
    set_str_constraint_handler_s(abort_handler_s);
    for (int round = 0; round < 2; round++) if (sigsetjmp(ab_jb, 1) == 0) strcpy_s(d, 4, (const char *)nones);      /* violation: abort_handler_s, SIGABRT, back here */
    dup2(keep, 2); close(keep); close(devnull);
    int a = n_abrt, s0 = n_scoped;
    memcpy_s(d, 4, none, 2);                                      /* the thread's own memory handler is still registered */
    constraint_handler_t now_mem = thrd_set_mem_constraint_handler_s(h_scoped), now_str = thrd_set_str_constraint_handler_s(NULL);
    int ok = a == 2 && n_scoped == s0 + 1 && now_mem == h_scoped && now_str == NULL;
    printf("S registrations-after-surviving-abort_handler_s aborts=%d scoped-ran=%d mem-registration-kept=%d no-string-registration-appeared=%d %s\n", a, n_scoped - s0, now_mem == h_scoped, now_str == NULL, ok ? "ok" : "WRONG"); if (!ok) bad++;
    set_str_constraint_handler_s(NULL);
    return NULL;
}

/* a string violation on an object larger than the limit of the memory functions: the string handler runs, once; the memory handler does not */
static char big[(256u << 20) + 16]; static volatile size_t V0;
static void big_object(void) {
    set_str_constraint_handler_s(h_global); set_mem_constraint_handler_s(h_scoped);
    int g0 = n_global, s0 = n_scoped; big[0] = 'x';
    int rc = strcpy_s(big, sizeof big + V0, "abc");             /* dmax above RSIZE_MAX_STR, the object's size known to the compiler */
    int ok = rc != 0 && n_global == g0 + 1 && n_scoped == s0;
    printf("S string-violation-on-an-object-above-the-memory-limit rc=%d string-handler=%d memory-handler=%d %s\n", rc, n_global - g0, n_scoped - s0, ok ? "ok" : "WRONG"); if (!ok) bad++;
    set_str_constraint_handler_s(NULL); set_mem_constraint_handler_s(h_global);
}

int main(void) {
    constraint_handler_t p1 = set_mem_constraint_handler_s(h_global); AGREE("set_mem first", p1);
    constraint_handler_t p2 = set_mem_constraint_handler_s(h_global); AGREE("set_mem second", p2);
    constraint_handler_t p3 = set_str_constraint_handler_s(h_global); AGREE("set_str first", p3);
    constraint_handler_t p4 = set_str_constraint_handler_s(NULL); AGREE("set_str third", p4);
    pthread_t t; pthread_create(&t, NULL, worker, NULL); pthread_join(t, NULL);
    pthread_create(&t, NULL, abort_worker, NULL); pthread_join(t, NULL);
    big_object();
    printf("DONE %d\n", bad);
    return 0;
}
