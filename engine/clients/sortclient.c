/* sortclient.c - an application that sorts and searches through the public headers only, compiled by the driver with every compiler x optimisation level.
 * Its comparators are configured the way applications do it when they cannot use the context argument for everything: a file-scope static set just
 * before the call and reset after it.  The library calls back into this translation unit, so those stores must be in place when the comparator runs. */
#include <stdio.h>
#include <stdlib.h>
#include <string.h>
#include <strings.h>
#include "safe_lib.h"
#include "safe_str_lib.h"
#include "safe_mem_lib.h"

static int descending;            /* read by cmp_int */
static int ignore_case;           /* read by cmp_str */
static long calls;
static int cmp_int(const void *a, const void *b, void *ctx) { int x = *(const int *)a, y = *(const int *)b; (void)ctx; calls++; return descending ? (y > x) - (y < x) : (x > y) - (x < y); }
static int cmp_str(const void *k, const void *e, void *ctx) { (void)ctx; calls++; return ignore_case ? strcasecmp((const char *)k, *(const char *const *)e) : strcmp((const char *)k, *(const char *const *)e); }

int main(void) {
    int bad = 0;
    for (int n = 2; n <= 9; n++) {
        int a[16]; for (int i = 0; i < n; i++) a[i] = (i * 7 + 3) % 11;
        descending = 1;
        errno_t rc = qsort_s(a, n, sizeof a[0], cmp_int, NULL);
        descending = 0;
        int ok = rc == 0; for (int i = 1; i < n; i++) if (a[i - 1] < a[i]) ok = 0;
        printf("S qsort_s descending n=%d %s\n", n, ok ? "ok" : "WRONG"); if (!ok) bad++;
        rc = qsort_s(a, n, sizeof a[0], cmp_int, NULL);
        ok = rc == 0; for (int i = 1; i < n; i++) if (a[i - 1] > a[i]) ok = 0;
        printf("S qsort_s ascending n=%d %s\n", n, ok ? "ok" : "WRONG"); if (!ok) bad++;
    }
    static const char *tab[] = { "alpha", "bravo", "charlie", "delta", "echo", "foxtrot", "golf", "hotel" };
    ignore_case = 1;
    const char **hit = bsearch_s("HOTEL", tab, 8, sizeof tab[0], cmp_str, NULL);
    ignore_case = 0;
    printf("S bsearch_s ignore-case %s\n", hit && !strcmp(*hit, "hotel") ? "ok" : "WRONG"); if (!(hit && !strcmp(*hit, "hotel"))) bad++;
    hit = bsearch_s("HOTEL", tab, 8, sizeof tab[0], cmp_str, NULL);
    printf("S bsearch_s exact-case %s\n", hit == NULL ? "ok" : "WRONG"); if (hit) bad++;
    printf("DONE %d %ld\n", bad, calls);
    return 0;
}
