"""Driver for the catalogue harness (engine/cat): properties C01-C06, C08, C10."""
import os, sys, json, time, subprocess
from concurrent.futures import ThreadPoolExecutor
from . import vbuild, common, macroclient, hdrclient

ROOT = common.ROOT
CAT = os.path.join(ROOT, "build", "cat", "cat")
SRC = [os.path.join(ROOT, "engine", "cat", f) for f in ("cat.c", "fntab.c")] + [os.path.join(ROOT, "engine", "trapvm", "trapvm.c"),
       os.path.join(ROOT, "engine", "cat", "cat.h"), os.path.join(ROOT, "engine", "trapvm", "trapvm.h")]

VARIANTS = {"C01": ["prod", "noslack"], "C02": ["prod"], "C03": ["prod", "noslack"], "C04": ["prod", "noslack"],
            "C05": ["prod"], "C06": ["prod"], "C08": ["prod", "noslack"], "C10": ["prod"]}

RULES = {
    "C01": "cases = role-driven product of the size lattice (DESIGN 2.4) per entry point; oracle = write fault on a guard page / read-only source, canary between dmax and object end; non-trivial = not rejected by a generic entry check (handler code not in {ESNULLP,ESZEROL,ESLEMAX,EOVERFLOW})",
    "C02": "same lattice plus explicit-content operands over a small alphabet for the query functions; guards PROT_NONE; oracle = read fault outside a declared extent; non-trivial as C01",
    "C03": "string-producing entry points, dest pre-filled without any NUL; oracle = NUL within dmax after return; non-trivial as C01",
    "C04": "dest-writing entry points; oracle after every reported failure: dest[0]==0, nothing written remains, all dmax zero for the named failure classes (prod), source intact; non-trivial as C01",
    "C05": "violation lattice: all combinations of generic violations x size lattice; counting handlers registered through the public API; oracle i-vi of DESIGN C05; non-trivial as C01",
    "C06": "dest-writing entry points on valid operands; oracle = equality with the reference model (libc semantics) and failure where the complete result does not fit; non-trivial as C01",
    "C08": "slack-nulling entry points, dirty dest; oracle = everything from the terminator to dmax is zero after success (prod) / terminator + exact result (noslack); non-trivial as C01",
    "C10": "query entry points x all operand strings over the alphabet up to the bound x dmax/slen below/at/above; the byte search and set functions once more over bytes that differ only in the top bit (a/0xE1, b/0xE2); oracle = reference model built from the C standard semantics on the first dmax elements; operands unmodified; non-trivial as C01",
}


def fn_list():
    out = subprocess.run([CAT, "list"], capture_output=True, text=True, env=dict(os.environ, CAT_LIB=""))
    return [l.split() for l in out.stdout.splitlines() if l.strip()]


SPECIAL = os.path.join(ROOT, "build", "seq", "special")
SPECIAL_SRC = [os.path.join(ROOT, "engine", "seq", "special.c")]
SPECIAL_PROPS = {"C01", "C02", "C03", "C04", "C05", "C06", "C08"}
FMTGRID = os.path.join(ROOT, "build", "seq", "c11")           # the C11 directive-grammar enumerator, used by C01 as a memory-safety sweep
FMTGRID_SRC = [os.path.join(ROOT, "engine", "seq", "c11.c")]
FMTGUARD = os.path.join(ROOT, "build", "seq", "c09")          # the C09 format-language enumerator, used by C02 with the format itself guard-placed
FMTGUARD_SRC = [os.path.join(ROOT, "engine", "seq", "c09.c")]
LONGMOVE = os.path.join(ROOT, "build", "seq", "c07")          # the C07 long-move pass, used by C06 for the exactness of the memmove family on long overlapping moves
LONGMOVE_SRC = [os.path.join(ROOT, "engine", "seq", "c07.c")]


def build_harness():
    common.cc(SPECIAL, SPECIAL_SRC, ["-O1", "-g", "-w", "-ldl"])
    common.cc(FMTGRID, FMTGRID_SRC, ["-O1", "-g", "-w", "-Wl,--no-as-needed", "-ldl", "-lm"])
    common.cc(FMTGUARD, FMTGUARD_SRC, ["-O1", "-g", "-w", "-ldl"])
    common.cc(LONGMOVE, LONGMOVE_SRC, ["-O1", "-g", "-w", "-ldl"])
    common.cc(CAT, SRC[:3], ["-O1", "-g", "-Wall", "-Wno-unused-function", "-pthread", "-rdynamic"], deps=SRC[3:] + [os.path.join(ROOT, "engine", "denylist.h")])
    # -ldl must follow the sources for old linkers; gcc >= 2.34 has dlopen in libc anyway
    return CAT


def run(pid, tier, deadline_s):
    t0 = time.time()
    build_harness()
    # thorough tier: the quick-sized lattice once more on the library built the way a default ./configure builds it (dist: -O2, _FORTIFY_SOURCE=2,
    # hardening flags); it has the slack configuration of prod and is judged like prod
    variants = VARIANTS[pid] + (["dist"] if tier == "thorough" else [])
    libs = {v: vbuild.build(v) for v in variants}
    fns = fn_list()
    tasks = []
    for name, flags in fns:
        flags = int(flags, 16)
        if pid == "C10" and not (flags & 0x40):
            continue
        if pid in ("C06", "C08", "C03", "C04") and (flags & 0x40):
            continue
        locales = ["C", "C.UTF-8"] if (flags & 0x200) and pid in ("C01", "C02") else ["C"]
        for v in variants:
            for loc in locales:
                nsh = 4 if (pid in ("C10", "C02") and (flags & 0x40)) else 1
                for sh in range(nsh):
                    tasks.append((name, v, loc, sh, nsh))
    results = []
    timed_out = []
    # a locale whose name says Turkish (wcsfc_s goes by the name): a copy of the installed C.utf8 under that name in a private LOCPATH
    locpath = os.path.join(ROOT, "build", "locales"); trloc = None
    if os.path.isdir("/usr/lib/locale/C.utf8"):
        import shutil
        for nm in ("tr_TR.UTF-8", "lt_LT.UTF-8", "az_AZ.UTF-8"):      # Turkish, Lithuanian, Azeri: the three names the fold code looks for
            if not os.path.isdir(os.path.join(locpath, nm)): os.makedirs(locpath, exist_ok=True); shutil.copytree("/usr/lib/locale/C.utf8", os.path.join(locpath, nm), dirs_exist_ok=True)
        trloc = ("tr_TR.UTF-8", "lt_LT.UTF-8", "az_AZ.UTF-8")
    if pid in SPECIAL_PROPS and trloc:
        for v in variants:
            for nm in trloc: tasks.append(("special:unicode", v, nm, 0, 1))
    if pid in SPECIAL_PROPS:
        for v in variants:
            for loc in ("C", "C.UTF-8"):
                for grp in (("os",) if pid == "C06" else ("printf", "wprintf", "unicode", "normparts", "conv", "os", "oseast")):
                    tasks.append(("special:" + grp, v, loc, 0, 1))
    if pid == "C06":
        for sh in range(8): tasks.append(("longmove:" + ("200" if tier == "quick" else "400"), "prod", "C", sh, 8))
    if pid == "C02":
        for fam in ("narrow", "wide"):
            for alpha, L in ((("%ndslh5.x", 4), ("%n[]^s*", 5)) if tier == "quick" else (("%ndslh5.x", 5), ("%n[]^s*d", 6))):
                for sh in range(4): tasks.append((f"fmtguard:{fam}:{L}:{alpha}", "prod", "C", sh, 4))
    if pid == "C05":      # the public macros as an application sees them, for each compiler x optimisation x _FORTIFY_SOURCE level
        for cc in ("gcc", "clang"):
            for opt in (("O2",) if tier == "quick" else ("O0", "O1", "O2", "O3", "Os")):
                for fort in ("0", "2", "3"):
                    tasks.append((f"macroclient:{cc}:{opt}:{fort}", "prod", "C", 0, 1))
    if pid == "C05":      # the public headers themselves: every function-like macro evaluates each argument once and, for constant operands, does what the function does
        for cc in ("gcc", "clang"):
            for opt in (("O0", "O2") if tier == "quick" else ("O0", "O1", "O2", "O3", "Os")):
                tasks.append((f"hdrclient:{cc}:{opt}", "prod", "C", 0, 1))
    if pid in ("C08", "C10"):      # the same client for the macros of this property's functions (C10: the query functions, C08: the ones that write a string)
        for cc in ("gcc", "clang"):
            for opt in (("O2",) if tier == "quick" else ("O0", "O2")):
                tasks.append((f"hdrclient:{cc}:{opt}", "prod", "C", 0, 1))
    if pid == "C05":      # the printf_s directive grid, buffer, stream and stdout entry points: every failing call reports exactly once
        for grp in ("int", "float", "str", "multi"):
            for sh in range(4): tasks.append(("fmtgrid:" + grp, "prod", "C.UTF-8", sh, 4))
    if pid == "C01":
        for grp in ("int", "float", "str", "multi"):
            for sh in range(4): tasks.append(("fmtgrid:" + grp, "prod", "C.UTF-8", sh, 4))

    def one(t):
        name, v, loc, sh, nsh = t
        left = deadline_s - (time.time() - t0)
        if left <= 5:
            timed_out.append(t)
            return t, None
        env = dict(os.environ, CAT_LIB=libs[v], LOCPATH=os.path.join(ROOT, "build", "locales"))
        try:
            if name.startswith("macroclient:"):
                r = macroclient.task(*name.split(":")[1:])
            elif name.startswith("hdrclient:"):
                r = hdrclient.task(*name.split(":")[1:])
            elif name.startswith("longmove:"):
                r = subprocess.run([LONGMOVE, "moves", name[9:], str(sh), str(nsh)], capture_output=True, text=True, errors="replace", env=dict(env, C07_PROP=pid), timeout=left)
            elif name.startswith("fmtguard:"):
                _, fam, L, alpha = name.split(":", 3)
                r = subprocess.run([FMTGUARD, fam, L, alpha, str(sh), str(nsh)], capture_output=True, text=True, errors="replace", env=dict(env, C09_PROP=pid), timeout=left)
            elif name.startswith("fmtgrid:"):
                r = subprocess.run([FMTGRID, name[8:], tier, str(sh), str(nsh)], capture_output=True, text=True, errors="replace", env=dict(env, C11_PROP=pid), timeout=left)
            elif name.startswith("special:"):
                r = subprocess.run([SPECIAL, pid, "prod" if v == "dist" else v, loc, name[8:]], capture_output=True, text=True, env=env, timeout=left)
            else:
                r = subprocess.run([CAT, "run", pid, "quick" if v == "dist" else tier, "prod" if v == "dist" else v, loc, name, str(sh), str(nsh)], capture_output=True,
                                   text=True, env=env, timeout=left)
        except subprocess.TimeoutExpired:
            timed_out.append(t)
            return t, None
        return t, r
    with ThreadPoolExecutor(16) as ex:
        for t, r in ex.map(one, tasks):
            if r is not None:
                results.append((t, r))
    viol = {}
    evals = nontriv = 0
    per_fn = {}
    outcomes = 0
    samples = []
    internal = []
    if pid == "C06":      # borrowed pass: the time/error/environment string functions under the page-trap logger - their result must not pass through storage shared by all callers (libc's or the library's)
        from . import crosspass
        ov, on_, oi = crosspass.op_footprint("C06", ("localtime", "gmtime", "ctime", "ctime_far", "asctime26", "asctime130", "strerror", "getenv"), tier); internal += oi
        for sig_, case_, n_ in ov: viol.setdefault(sig_, [0, case_, "prod", "C"])[0] += n_
        evals += on_; nontriv += on_
    for (name, v, loc, sh, nsh), r in results:
        if r.returncode != 0:
            internal.append(f"{name}/{v}/{loc}: exit {r.returncode}: {r.stderr[-300:]} {r.stdout[-300:]}")
            continue
        for ln in r.stdout.splitlines():
            if not ln.startswith("{"):
                continue
            j = json.loads(ln)
            if j["t"] == "viol":
                if name.startswith("hdrclient:") and pid != "C05":
                    f_ = j["sig"].split("|"); qry = {n for n, fl in fns if int(fl, 16) & 0x40}; allf = {n for n, fl in fns}
                    if (pid == "C10") != (f_[1] in qry) or f_[1] not in allf: continue
                    sig = pid + "|" + "|".join(f_[1:])
                elif name.startswith("macroclient:") or name.startswith("hdrclient:"):
                    sig = j["sig"]
                elif name.startswith("longmove:"):
                    sig = j["sig"]; j["case"] = "longmove " + j["case"]
                elif name.startswith("fmtguard:"):
                    sig = j["sig"]; j["case"] = "fmtguard " + j["case"]
                elif name.startswith("fmtgrid:"):
                    sig = j["sig"]; j["case"] = "fmtgrid " + j["case"]
                elif name.startswith("special:"):
                    sig = j["sig"]; j["case"] = "special " + j["case"]
                else:
                    sig = j["sig"] + ("" if v in ("prod", "dist") else "|" + v)
                e = viol.setdefault(sig, [0, j["case"], v, loc])
                e[0] += j["n"]
            elif j["t"] == "stat" and name.startswith("hdrclient:"):
                evals += j["evaluations"]; nontriv += j["nontrivial"]; pf = per_fn.setdefault("public headers: every macro, arguments evaluated once, constant operands (build matrix)", [0, 0]); pf[0] += j["evaluations"]; pf[1] += j["nontrivial"]
            elif j["t"] == "stat" and name.startswith("macroclient:"):
                evals += j["evaluations"]; nontriv += j["nontrivial"]; pf = per_fn.setdefault("public macros in a client application (build matrix)", [0, 0]); pf[0] += j["evaluations"]; pf[1] += j["nontrivial"]
            elif j["t"] == "stat" and name.startswith("longmove:"):
                evals += j["layouts"]; nontriv += j["layouts"]; pf = per_fn.setdefault("memmove family, long overlapping moves", [0, 0]); pf[0] += j["layouts"]; pf[1] += j["layouts"]
            elif j["t"] == "stat" and name.startswith("fmtguard:"):
                evals += j["calls"]; nontriv += j["calls"]; pf = per_fn.setdefault("printf/scanf-family format operand", [0, 0]); pf[0] += j["calls"]; pf[1] += j["calls"]
            elif j["t"] == "stat" and name.startswith("fmtgrid:"):
                evals += j["calls"]; nontriv += j["calls"]; pf = per_fn.setdefault("printf-family directive grid", [0, 0]); pf[0] += j["calls"]; pf[1] += j["calls"]
            elif j["t"] == "stat":
                evals += j["evaluations"]; nontriv += j["nontrivial"]; outcomes = max(outcomes, j.get("outcome_classes", 0))
                pf = per_fn.setdefault(name, [0, 0]); pf[0] += j["evaluations"]; pf[1] += j["nontrivial"]
            elif j["t"] == "sample" and len(samples) < 16:
                samples.append(j["case"])
            elif j["t"] == "internal":
                internal.append(f"{name}/{v}/{loc}: {j.get('msg')}")
    if internal:
        for m in internal[:10]:
            print("INTERNAL-ERROR:", m, file=sys.stderr)
        return 2
    violations = []
    for sig, (n, case, v, loc) in sorted(viol.items()):
        text = f"property={pid}\nvariant={v}\nlocale={loc}\nsignature={sig}\ncase={case}\n"
        violations.append(common.Violation(sig, f"variant={v} locale={loc}", text, n))

    def confirm(vio):
        kv = dict(l.split("=", 1) for l in vio.replay_text.strip().splitlines())
        return replay_kv(kv, quiet=True) == 1
    if not samples:
        samples = [c for (_, c, _, _) in list(viol.values())[:4]]
    cov = {"evaluations": evals, "distinct_nontrivial": nontriv, "rule": RULES[pid],
           "samples": samples[:16] or ["(no sample lines captured)"],
           "functions": len(per_fn), "per_function_evaluations": {k: v[0] for k, v in sorted(per_fn.items())},
           "outcome_classes_max_per_worker": outcomes, "bound": {"N": 14 if tier == "thorough" else 5},
           "variants": variants, "tasks": len(tasks), "tasks_timed_out": len(timed_out)}
    assumptions = ["kernel page protection delivers a fault for every access to a guard page",
                   "the catalogue row (signature roles, attributes) of each function is transcribed correctly from its doc comment",
                   "x86-64 SysV calling convention for the universal caller (integer/pointer arguments only)"]
    return common.finish(pid, tier, t0, cov, violations, assumptions, confirm=confirm, exhaustive=not timed_out)


def replay_kv(kv, quiet=False):
    build_harness()
    v = kv.get("variant", "prod")
    lib = vbuild.build(v)
    env = dict(os.environ, CAT_LIB=lib, LOCPATH=os.path.join(ROOT, "build", "locales"))
    if kv["case"].startswith("macroclient "):
        return macroclient.replay(kv["case"], quiet)
    if kv["case"].startswith("hdrclient "):
        return hdrclient.replay(kv["case"], quiet)
    if kv["case"].startswith("opfootprint "):
        from . import crosspass
        return crosspass.replay(kv, quiet)
    if kv["case"].startswith("longmove "):
        r = subprocess.run([LONGMOVE, "replay"] + kv["case"].split()[1:], capture_output=True, text=True, errors="replace", env=dict(env, C07_PROP=kv["property"]))
    elif kv["case"].startswith("fmtguard "):
        r = subprocess.run([FMTGUARD, "replay"] + kv["case"].split()[1:] + ["x"], capture_output=True, text=True, errors="replace", env=dict(env, C09_PROP=kv["property"]))
    elif kv["case"].startswith("fmtgrid "):
        r = subprocess.run([FMTGRID, "replay"] + kv["case"].split(" ", 7)[1:], capture_output=True, text=True, errors="replace", env=dict(env, C11_PROP=kv["property"]))
    elif kv["case"].startswith("special "):
        r = subprocess.run([SPECIAL, "replay", kv["property"], "prod" if v == "dist" else v, kv.get("locale", "C")] + kv["case"].split()[1:], capture_output=True, text=True, env=env)
    else:
        r = subprocess.run([CAT, "replay", kv["property"], "prod" if v == "dist" else v, kv.get("locale", "C"), kv["case"]], capture_output=True,
                           text=True, env=env)
    if not quiet:
        sys.stdout.write(r.stdout)
        sys.stderr.write(r.stderr)
    return r.returncode
