"""C13: handler registration as a per-thread override of a global: BFS over real-thread histories against a
reference model + all interleavings at static-access granularity checked for linearizability."""
import os, sys, json, time, subprocess
from concurrent.futures import ThreadPoolExecutor
from . import vbuild, common, clientmatrix
ROOT = common.ROOT
BIN = os.path.join(ROOT, "build", "trapvm", "c13")
SRC = [os.path.join(ROOT, "engine", "trapvm", f) for f in ("c13.c", "trapvm.c", "trapvm.h")]


def build():
    common.cc(BIN, SRC[:2], ["-O1", "-g", "-Wall", "-Wno-unused-function", "-rdynamic", "-pthread"], deps=SRC[2:])
    return BIN


def run(tier, deadline):
    t0 = time.time(); build()
    env = dict(os.environ, CAT_LIB=vbuild.build("prod"))
    depth, nh = (5, 2) if tier == "quick" else (6, 3)
    nsh = 16
    jobs = [["bfs", str(depth), str(nh), str(i), str(nsh)] for i in range(nsh)]
    # second alphabet: a handler that leaves through longjmp, calls that violate nothing
    cfg2 = [(5, 3, 2, 1)] if tier == "quick" else [(6, 4, 6, 1), (5, 3, 2, 2)]      # (depth, handler values, calls, threads)
    for d2, nh2, nc2, mt2 in cfg2:
        jobs += [["bfs2", str(d2), str(nh2), str(nc2), str(mt2), str(i), str(nsh)] for i in range(nsh)]
    d3, nh3, mt3 = (4, 3, 2) if tier == "quick" else (5, 4, 2)       # the library's own abort and ignore handlers as registered values
    jobs += [["bfs3", str(d3), str(nh3), str(mt3), str(i), str(nsh)] for i in range(nsh)]
    jobs += [["lin", "2", "1"], ["lin", "2" if tier == "quick" else "3", "2"]]
    viol = {}; internal = []; samples = []
    st = {"states": 0, "transitions": 0, "histories": 0, "schedules": 0, "lin_states": 0, "lin_op_sets": 0, "max_points": 0}
    timed_out = []
    def one(j):
        left = deadline - (time.time() - t0)
        try: return j, subprocess.run([BIN] + j, capture_output=True, text=True, env=env, timeout=max(5, left))
        except subprocess.TimeoutExpired: timed_out.append(j); return j, None
    with ThreadPoolExecutor(16) as ex:
        for j, r in ex.map(one, jobs):
            if r is None: continue
            if r.returncode != 0: internal.append(f"{j}: exit {r.returncode} {r.stdout[-200:]} {r.stderr[-200:]}"); continue
            for ln in r.stdout.splitlines():
                if not ln.startswith("{"): continue
                o = json.loads(ln)
                if o["t"] == "viol": viol.setdefault(o["sig"], [0, o["case"], o.get("text", "")])[0] += 1
                elif o["t"] == "sample" and len(samples) < 8: samples.append(o["hist"].strip())
                elif o["t"] == "stat" and o["mode"] in ("bfs", "bfs2", "bfs3"):
                    st["states"] += o["states"]; st["transitions"] += o["transitions"]; st["histories"] += o["histories"]
                elif o["t"] == "stat":
                    st["schedules"] += o["schedules"]; st["lin_states"] += o["states"]; st["lin_op_sets"] += o["op_sets"]; st["max_points"] = max(st["max_points"], o["max_points"])
                elif o["t"] == "internal": internal.append(f"{j}: {o['msg']}")
    # ---- an optimised application registering through the public headers: what the headers promise about the returned pointer must be what the library does
    client_runs = 0
    for cc, opt in clientmatrix.configs(tier):
        out, err = clientmatrix.build_run(os.path.join(clientmatrix.CDIR, "handlerclient.c"), cc, opt)
        if out is None: internal.append(f"handlerclient {cc}-{opt}: {err}"); continue
        client_runs += 1
        for l in clientmatrix.wrong_lines(out):
            w = l.split(); viol.setdefault(f"C13|client|{w[1]}|{cc}-{opt}", [0, f"client handlerclient {cc} {opt}", l])[0] += 1
    if internal:
        for m in internal[:10]: print("INTERNAL-ERROR:", m, file=sys.stderr)
        return 2
    violations = [common.Violation(sig, txt, f"property=C13\nsignature={sig}\ncase={case}\n", n) for sig, (n, case, txt) in sorted(viol.items())]
    def confirm(v):
        kv = dict(l.split("=", 1) for l in v.replay_text.strip().splitlines())
        return replay(kv, quiet=True) == 1
    cov = {"states": max(1, st["states"] + st["lin_states"]), "transitions": max(1, st["transitions"] + st["schedules"]),
           "traces_validated_against_impl": st["histories"] + st["schedules"],
           "samples": samples or ["T0:set_str(H1) T0:violate_str"],
           "bfs": {"depth": depth, "handler_values": nh, "max_threads": 3, "model_states_x_lib_static_hash": st["states"], "histories_executed": st["histories"]},
           "linearizability": {"threads": 2, "ops_per_thread": [1, 2], "op_sets": st["lin_op_sets"], "schedules": st["schedules"], "preemption_bound": 2 if tier == "quick" else 3, "max_scheduling_points": st["max_points"]},
           "evaluations": st["histories"] + st["schedules"], "distinct_nontrivial": st["states"] + st["lin_states"],
           "rule": f"client application (engine/clients/handlerclient.c) built from the public headers for gcc and clang x optimisation levels: first and later registrations of all four setters, a foldable and a volatile comparison of the returned pointer with NULL must agree, the save/restore idiom leaves the thread's registration working; a thread that survives the library's own abort_handler_s twice (SIGABRT caught, siglongjmp) finds every registration as it was; a string violation on an object of 256 MiB + 16 bytes of known size invokes the string handler once and the memory handler not at all. third BFS alphabet: handler values NULL, abort_handler_s (pre-empted by the harness so that its invocation is observed), H1 (thorough: ignore_handler_s named explicitly), depth {d3}, up to {mt3} threads. second BFS alphabet: handlers NULL, HJ (a handler that leaves through longjmp), H1 (thorough: H2), op call(f) = one of 2 (thorough: 6) calls that violate nothing (wcsnatcmp_s with folding, sprintf_s; thorough: wcsicmp_s, wcsnorm_s, strcpy_s, memset_s) which must fail nothing, invoke nothing and change no registration; configurations (depth, handler values, calls, threads) = {cfg2}; histories that differ in who has left a handler by longjmp or made which call are kept apart when de-duplicating. " + "BFS: every (thread, op) extension of every history that reached a new (model state, hash of the library's static bytes) pair, each history executed from the pristine library image on fresh real threads; oracle per step: identity of the handler that ran, thread, code, return of registrations vs the 15-line model (child inheritance left open). Access level: every interleaving of 2 threads at static-access granularity up to the preemption bound; oracle: a model-accepted sequential order consistent with real time exists",
           "timed_out_jobs": len(timed_out)}
    assumptions = ["the executable's ignore_handler_s pre-empts the library's default handler (symbol interposition), so the default is observable",
                   "pristine 'never registered' state is recreated by restoring the library's .data/.bss image and using fresh threads (fresh TLS)"]
    return common.finish("C13", tier, t0, cov, violations, assumptions, confirm=confirm, exhaustive=not timed_out)


def replay(kv, quiet=False):
    build(); env = dict(os.environ, CAT_LIB=vbuild.build("prod"))
    c = kv["case"].split()
    if c[0] == "client":
        out, err = clientmatrix.build_run(os.path.join(clientmatrix.CDIR, c[1] + ".c"), c[2], c[3])
        if out is None: print("INTERNAL-ERROR:", err); return 2
        if not quiet: sys.stdout.write(out)
        bad = bool(clientmatrix.wrong_lines(out))
        if not quiet: print("VERDICT violation" if bad else "VERDICT ok")
        return 1 if bad else 0
    args = ["replay-hist", c[1]] if c[0] == "hist" else ["replay-lin"] + c[1:]
    r = subprocess.run([BIN] + args, capture_output=True, text=True, env=env)
    if not quiet: sys.stdout.write(r.stdout); sys.stderr.write(r.stderr)
    return r.returncode
