"""C16: qsort_s/bsearch_s over all small arrays x element sizes with a checking comparator."""
import os, sys, json, time, subprocess
from concurrent.futures import ThreadPoolExecutor
from . import vbuild, common, clientmatrix
ROOT = common.ROOT
BIN = os.path.join(ROOT, "build", "seq", "c16")
SRC = [os.path.join(ROOT, "engine", "seq", "c16.c")]


def build():
    common.cc(BIN, SRC, ["-O1", "-g", "-w", "-ldl"]); return BIN


def run(tier, deadline):
    t0 = time.time(); build()
    # the library as configured here (prod, -O0) and, in the thorough tier, the quick-sized enumeration once more on the library built the way a
    # default ./configure builds it (dist: -O2, _FORTIFY_SOURCE=2, the repository's hardening flags)
    envs = {v: dict(os.environ, CAT_LIB=vbuild.build(v)) for v in (("prod",) if tier == "quick" else ("prod", "dist"))}
    N, perms = (8, 0) if tier == "quick" else (10, 1)
    jobs = [[str(N), str(perms), str(i), "16"] for i in range(16)]
    # large arrays around the Leonardo numbers L(k) (heap shapes whose order mask needs more than 32 bits start at L(33))
    Lk = [1, 1]
    while len(Lk) < 40: Lk.append(Lk[-1] + Lk[-2] + 1)
    big = []
    for k in ((33, 34) if tier == "quick" else (31, 32, 33, 34, 35)):
        for d in ((0, 1) if tier == "quick" else (-1, 0, 1, 2, 3)):
            n = Lk[k] + d
            fams = [(2, 0), (3, Lk[k] - 1), (0, 0)] if tier == "quick" else \
                   [(f, 0) for f in (0, 1, 2, 5, 6, 7)] + [(f, p) for f in (3, 4) for p in sorted({0, n - 1, Lk[k] - 1, Lk[k - 1] - 1, Lk[k - 2] - 1}) if 0 <= p < n]
            big += [["big", str(n), str(f), str(p)] for f, p in fams]
    # every Leonardo order between the structured families (nmemb <= 200) and the large arrays: nmemb = L(k)+d for k = 11..30, with the
    # families that make the sift/trinkle descent move elements through every order below k (a wrong child offset at one order shows only here)
    for k in range(11, 31):
        for d in ((0, 1) if tier == "quick" else (-1, 0, 1, 2, 3)):
            big += [["big", str(Lk[k] + d), str(f), "0"] for f in ((6, 1) if tier == "quick" else (1, 5, 6, 7))]
    big.sort(key=lambda j: -int(j[1]) * (8 if j[2] in ("6", "1", "7") else 1))     # slow ones first
    jobs = big + jobs
    def mkjobs(tier):
        N, perms = (8, 0) if tier == "quick" else (10, 1)
        jobs = [[str(N), str(perms), str(i), "16"] for i in range(16)]
        # large arrays around the Leonardo numbers L(k) (heap shapes whose order mask needs more than 32 bits start at L(33))
        Lk = [1, 1]
        while len(Lk) < 40: Lk.append(Lk[-1] + Lk[-2] + 1)
        big = []
        for k in ((33, 34) if tier == "quick" else (31, 32, 33, 34, 35)):
            for d in ((0, 1) if tier == "quick" else (-1, 0, 1, 2, 3)):
                n = Lk[k] + d
                fams = [(2, 0), (3, Lk[k] - 1), (0, 0)] if tier == "quick" else \
                       [(f, 0) for f in (0, 1, 2, 5, 6, 7)] + [(f, p) for f in (3, 4) for p in sorted({0, n - 1, Lk[k] - 1, Lk[k - 1] - 1, Lk[k - 2] - 1}) if 0 <= p < n]
                big += [["big", str(n), str(f), str(p)] for f, p in fams]
        for k in range(11, 31):
            for d in ((0, 1) if tier == "quick" else (-1, 0, 1, 2, 3)):
                big += [["big", str(Lk[k] + d), str(f), "0"] for f in ((6, 1) if tier == "quick" else (1, 5, 6, 7))]
        big.sort(key=lambda j: -int(j[1]) * (8 if j[2] in ("6", "1", "7") else 1))     # slow ones first
        jobs = big + jobs
        return jobs
    jobs = [("prod", j) for j in jobs] + ([("dist", j) for j in mkjobs("quick")] if tier == "thorough" else [])
    viol = {}; internal = []; tot = {"arrays_sorted": 0, "searches": 0, "comparisons": 0}; timed_out = []
    def one(vj):
        v, j = vj
        left = deadline - (time.time() - t0)
        try: return vj, subprocess.run([BIN] + j, capture_output=True, text=True, env=envs[v], timeout=max(5, left))
        except subprocess.TimeoutExpired: timed_out.append(vj); return vj, None
    with ThreadPoolExecutor(16) as ex:
        for (v, j), r in ex.map(one, jobs):
            if r is None: continue
            if r.returncode != 0: internal.append(f"{j}: exit {r.returncode} {r.stderr[-200:]}"); continue
            for ln in r.stdout.splitlines():
                if not ln.startswith("{"): continue
                o = json.loads(ln)
                if o["t"] == "viol": e = viol.setdefault(o["sig"], [0, o["case"], v]); e[0] += o["n"]
                elif o["t"] == "stat":
                    for k in tot: tot[k] += o[k]
    # ---- clients built from the public headers (compiler x optimisation level): comparators configured through file-scope statics; application
    # functions that happen to carry the name of a library helper that has become an exported symbol
    client_runs = 0
    for cc, opt in clientmatrix.configs(tier):
        out, err = clientmatrix.build_run(os.path.join(clientmatrix.CDIR, "sortclient.c"), cc, opt)
        if out is None: internal.append(f"sortclient {cc}-{opt}: {err}"); continue
        client_runs += 1
        for l in clientmatrix.wrong_lines(out):
            w = l.split(); viol.setdefault(f"C16|{w[1]}|client:{w[2]}|{cc}-{opt}", [0, f"client sortclient {cc} {opt}", "prod"])[0] += 1
    newsyms = clientmatrix.new_exported_symbols()
    if newsyms:
        src = os.path.join(clientmatrix.OUT, "clashclient.c"); os.makedirs(clientmatrix.OUT, exist_ok=True); open(src, "w").write(clientmatrix.clash_client(newsyms))
        out, err = clientmatrix.build_run(src, "gcc", "O2")
        if out is None: internal.append(f"clashclient: {err}")
        elif clientmatrix.wrong_lines(out): viol.setdefault("C16|qsort_s|client:application-function-called-in-place-of-a-library-helper|" + ",".join(newsyms)[:80], [0, "client clash gcc O2", "prod"])[0] += 1
    if internal:
        for m in internal[:10]: print("INTERNAL-ERROR:", m, file=sys.stderr)
        return 2
    violations = [common.Violation(sig, "" if v == "prod" else "library build: " + v, f"property=C16\nvariant={v}\nsignature={sig}\ncase={case}\n", n) for sig, (n, case, v) in sorted(viol.items())]
    def confirm(v):
        kv = dict(l.split("=", 1) for l in v.replay_text.strip().splitlines()); return replay(kv, quiet=True) == 1
    cov = {"evaluations": tot["arrays_sorted"] + tot["searches"], "distinct_nontrivial": tot["arrays_sorted"] + tot["searches"] - 14 * 5,
           "rule": "client applications built from the public headers for gcc and clang x optimisation levels: qsort_s/bsearch_s with comparators configured through file-scope statics set before and reset after the call; if the library exports a symbol that is in neither the public headers nor the pinned tree's export list, a client with functions of its own by those names sorts 39 arrays; all arrays over keys {0,1,2} with nmemb 0..N (3^n each) x 14 element sizes {1,2,3,4,7,8,12,16,24,255,256,257,300,513} in exact-fit guarded memory; structured families (ascending, descending, all-equal, organ-pipe, two-value, scrambled) for nmemb 8..200; thorough: all 40320 permutations of 0..7; nested use: every key array with nmemb 3..min(N,7) sorted with a comparator that itself calls qsort_s on a 5-element array of another element size (6 size pairs; in every comparison, or only in the 2nd/3rd/4th), inner and outer results both judged; arrays of 5-byte elements with nmemb = L(k)+d for every Leonardo order k = 11..30 (d in -1..3, quick 0..1; families scrambled and descending, thorough also two-value and organ-pipe) and large ones around the Leonardo numbers L(31..35) (quick: L(33), L(34); d in -1..3, quick 0..1) in guarded memory, families ascending, descending, all-equal, two-value, scrambled, organ-pipe, one minimum / one maximum at position 0, nmemb-1, L(k)-1, L(k-1)-1, L(k-2)-1 (permutation checked by a 32-bit index carried in every element; a call that has not returned after C16_TIME_LIMIT=600 s is a violation); bsearch_s on every sorted array x keys {0,1,2,3(absent)} with a stale matching element just outside the array; element sizes 4 and 257 repeated with the array's size passed as the known object size; 13 untrue (nmemb, size) pairs (above the documented limit, or with a product that wraps a size_t) x object size unknown/known x both functions: refused, reported exactly once, comparator never called; oracle: order, permutation of full elements, comparator pointers inside the array and element-aligned, context passed, no fault; non-trivial = nmemb >= 1",
           "samples": ["sort 4 3 020100", "sort 257 7 02010002010001", "search 16 5 0001010202 3", "sort 8 200 <descending>", "nested 4 5 0201000201 257 3", "big 18454930 3 18454928"], "nmemb_bound": N, "comparisons_observed": tot["comparisons"], "jobs_timed_out": len(timed_out), "library_builds": sorted(envs), "client_builds_run": client_runs, "exported_symbols_outside_headers_and_baseline": newsyms}
    return common.finish("C16", tier, t0, cov, violations, ["comparator is consistent (total order on the first byte)"], confirm=confirm, exhaustive=not timed_out)


def replay(kv, quiet=False):
    build(); c = kv["case"].split()
    if c[0] == "client":
        if c[1] == "clash":
            names = clientmatrix.new_exported_symbols(); src = os.path.join(clientmatrix.OUT, "clashclient.c"); os.makedirs(clientmatrix.OUT, exist_ok=True); open(src, "w").write(clientmatrix.clash_client(names or ["no_new_symbol_"]))
            out, err = clientmatrix.build_run(src, c[2], c[3])
        else: out, err = clientmatrix.build_run(os.path.join(clientmatrix.CDIR, c[1] + ".c"), c[2], c[3])
        if out is None: print("INTERNAL-ERROR:", err); return 2
        if not quiet: sys.stdout.write(out)
        bad = bool(clientmatrix.wrong_lines(out))
        if not quiet: print("VERDICT violation" if bad else "VERDICT ok")
        return 1 if bad else 0
    if c[0] == "limits": c = ["limits", "0", "0", "0"]
    r = subprocess.run([BIN, "replay"] + c, capture_output=True, text=True, env=dict(os.environ, CAT_LIB=vbuild.build(kv.get("variant", "prod"))))
    if not quiet: sys.stdout.write(r.stdout); sys.stderr.write(r.stderr)
    return r.returncode
