/* inplace.c - C18, second half: "no more than the requested bytes are changed" and "the n addressed bytes hold the fill value"
 * for all n, alignments and fill values, through the library's own entry points (the library is a separate object here, so
 * reading the bytes back does not keep anything alive that would not be anyway).
 * usage: inplace <nmax>    env CAT_LIB */
#define _GNU_SOURCE
#include <stdio.h>
#include <stdlib.h>
#include <string.h>
#include <stdint.h>
#include <dlfcn.h>
#include <sys/mman.h>
#include <unistd.h>
#include <sys/syscall.h>
#include <sys/ioctl.h>
#include <linux/perf_event.h>
#include <linux/hw_breakpoint.h>
#define BOSU ((size_t)-1)
static int (*p_memset)(void *, size_t, int, size_t, size_t), (*p_memzero)(void *, size_t, size_t);
static int (*p_memset16)(uint16_t *, size_t, uint16_t, size_t, size_t), (*p_memset32)(uint32_t *, size_t, uint32_t, size_t, size_t);
static int (*p_memzero16)(uint16_t *, size_t, size_t), (*p_memzero32)(uint32_t *, size_t, size_t), (*p_strzero)(char *, size_t, size_t);
static int g_watch; static const char *g_prop = "C18";
static int h_n; static void handler(const char *m, void *p, int e) { (void)m; (void)p; (void)e; h_n++; }
static char sigs[256][160], sigcase[256][120]; static long sigcnt[256]; static int nsig; static long n_calls, n_viol;
static void report(const char *fn, const char *what, const char *cls, const char *cs) {
    char sig[160]; snprintf(sig, sizeof sig, "%s|%s|%s|%s", g_prop, fn, what, cls); n_viol++;
    for (int i = 0; i < nsig; i++) if (!strcmp(sigs[i], sig)) { sigcnt[i]++; return; }
    if (nsig < 256) { strcpy(sigs[nsig], sig); strncpy(sigcase[nsig], cs, 119); sigcnt[nsig] = 1; nsig++; }
}
#define ARENA 4096
static unsigned char arena[ARENA] __attribute__((aligned(64))), snap[ARENA];
static const char *FN[] = { "memset_s", "memzero_s", "memset16_s", "memset32_s", "memzero16_s", "memzero32_s", "strzero_s" };
static const int ESZ[] = { 1, 1, 2, 4, 2, 4, 1 };
static int verbose;

/* hardware write watchpoints (debug registers through perf_event_open) on the byte in front of and the byte behind the addressed range: a store that
 * touches them is counted even if it writes back the value they hold - what a masked read-modify-write of the enclosing word does.  For C12: another
 * thread may own those bytes. */
static int wp_open(void *addr) { struct perf_event_attr a; memset(&a, 0, sizeof a); a.type = PERF_TYPE_BREAKPOINT; a.size = sizeof a; a.bp_type = HW_BREAKPOINT_W; a.bp_addr = (uintptr_t)addr; a.bp_len = HW_BREAKPOINT_LEN_1; a.exclude_kernel = 1; a.exclude_hv = 1; a.disabled = 1; return (int)syscall(SYS_perf_event_open, &a, 0, -1, -1, 0); }
static long wp_count(int fd) { uint64_t c = 0; if (read(fd, &c, 8) != 8) return -1; return (long)c; }

/* one call: function f, element count n, byte offset al of dest inside the arena, fill selector v, slack elements beyond n in dmax */
static void one(int f, size_t n, int al, int v, int slack, int bosmode) {
    int es = ESZ[f]; size_t nb = n * es; unsigned char *d = arena + 256 + al; uint32_t val = 0; int rc = -1;
    for (int i = 0; i < ARENA; i++) arena[i] = (unsigned char)(0x81 + i * 37);           /* never 0 at ... checked by value, not assumed */
    size_t slen6 = nb;
    if (f == 6) { for (size_t i = 0; i < nb; i++) if (d[i] == 0) d[i] = 0x41; if (v == 1 && nb > 1) { slen6 = nb / 2; d[slen6] = 0; } }   /* a password: unterminated within dmax (v=0) or shorter than dmax with stale bytes behind it (v=1) */
    /* object size as the library is told it: unknown, exactly dmax, or a larger enclosing object (24 bytes more) */
    size_t dmaxb = (f == 0 || f == 2 || f == 3) ? nb + (size_t)slack * es : nb;
    size_t bos = bosmode == 0 ? BOSU : bosmode == 1 ? dmaxb : dmaxb + 24;
    memcpy(snap, arena, ARENA);
    static const uint32_t V8[] = { 0, 0x5a, 0xff, 0x80, (uint32_t)-1, (uint32_t)-86, (uint32_t)-128, 0x80000000u /* INT_MIN */ }, V16[] = { 0, 0x5a5a, 0x1234, 0x8001, 0xfffe, 0xa55a, 0x0100 }, V32[] = { 0, 0x5a5a5a5a, 0x12345678, 0x80000001, 0xfffffffe, 0xa5c3c3a5, 0xff0000ff, 0x01000001, 0x00ff00ff, 0xabcdabcd };   /* incl. byte-palindromic and half-repeating words; memset_s also with negative ints (a plain char above 0x7f, -1, INT_MIN): the fill is the value converted to unsigned char */
    char cs[120]; snprintf(cs, sizeof cs, "%d %zu %d %d %d %d", f, n, al, v, slack, bosmode); n_calls++; h_n = 0;
    int w1 = -1, w2 = -1;
    if (g_watch) { w1 = wp_open(d - 1); w2 = wp_open(d + (f == 6 ? nb : nb)); if (w1 < 0 || w2 < 0) { fprintf(stderr, "perf_event_open failed\n"); exit(2); } ioctl(w1, PERF_EVENT_IOC_ENABLE, 0); ioctl(w2, PERF_EVENT_IOC_ENABLE, 0); }
    switch (f) {
    case 0: val = V8[v]; rc = p_memset(d, nb + slack, (int)val, n, bos); break;
    case 1: rc = p_memzero(d, n, bos); break;
    case 2: val = V16[v]; rc = p_memset16((uint16_t *)d, nb + slack * es, (uint16_t)val, n, bos); break;
    case 3: val = V32[v]; rc = p_memset32((uint32_t *)d, nb + slack * es, val, n, bos); break;
    case 4: rc = p_memzero16((uint16_t *)d, n, bos); break;
    case 5: rc = p_memzero32((uint32_t *)d, n, bos); break;
    case 6: rc = p_strzero((char *)d, n, bos); break;
    }
    long c1 = 0, c2 = 0; if (g_watch) { ioctl(w1, PERF_EVENT_IOC_DISABLE, 0); ioctl(w2, PERF_EVENT_IOC_DISABLE, 0); c1 = wp_count(w1); c2 = wp_count(w2); close(w1); close(w2); }
    char cls[80]; snprintf(cls, sizeof cls, "%s%s,%s", bosmode == 0 ? "" : bosmode == 1 ? "size-known," : "inside-larger-object,", al % 8 == 0 ? "aligned8" : al % es ? "misaligned-for-type" : "unaligned8", n * es < 8 ? "n<8" : n * es < 64 ? "n<64" : "n>=64");
    if (verbose) printf("%s n=%zu off=%d value=%x slack=%d rc=%d handler=%d\n", FN[f], n, al, val, slack, rc, h_n);
    if (g_watch) { if (verbose) printf("  stores touching the byte in front of the range: %ld, the byte behind it: %ld\n", c1, c2);
        if (rc == 0 && !(f == 6 && slen6 < nb) && (c1 || c2)) report(FN[f], "stores-to-bytes-outside-the-addressed-range", cls, cs); return; }
    if (rc != 0) { report(FN[f], "fails-on-valid-arguments", cls, cs); return; }
    /* the addressed bytes hold the fill */
    if (f == 6 && slen6 < nb) {            /* the characters up to the terminator are nulled; the stale bytes behind it up to dmax are nulled too or left alone */
        for (size_t i = 0; i < slen6; i++) if (d[i] != 0) { report(FN[f], "addressed-byte-not-erased", cls, cs); return; }
        int z = 1, same = 1; for (size_t i = slen6; i < nb; i++) { if (d[i] != 0) z = 0; if (d[i] != snap[256 + al + i]) same = 0; }
        if (!z && !same) { report(FN[f], "slack-partly-changed", cls, cs); return; }
        for (int i = 0; i < ARENA; i++) { if (arena + i >= d && arena + i < d + nb) continue; if (arena[i] != snap[i]) { if (verbose) printf("  byte at offset %ld from dest changed\n", (long)(arena + i - d)); report(FN[f], arena + i < d ? "changes-bytes-before-dest" : "changes-bytes-beyond-dmax", cls, cs); return; } }
        return;
    }
    for (size_t i = 0; i < nb; i++) { unsigned char want = es == 1 ? (unsigned char)val : (unsigned char)(val >> (8 * (i % es)));
        if (d[i] != want) { if (verbose) printf("  byte %zu is %02x, should be %02x\n", i, d[i], want); report(FN[f], "addressed-byte-not-erased", cls, cs); return; } }
    /* nothing else changed */
    for (int i = 0; i < ARENA; i++) { if (arena + i >= d && arena + i < d + nb) continue;
        if (arena[i] != snap[i]) { if (verbose) printf("  byte at offset %ld from dest changed\n", (long)(arena + i - d)); report(FN[f], arena + i < d ? "changes-bytes-before-dest" : "changes-bytes-beyond-n", cls, cs); return; } }
}

/* large erases in the kinds of memory a secret can live in: private anonymous (heap-like), shared anonymous (shared with a forked peer),
 * a private and a shared mapping of a file.  After EOK every addressed byte must read as the fill, also through a second mapping of the
 * same file for the shared kinds (what the peer sees).  Sizes straddle 1 MiB with odd heads and tails. */
static int kinds_one(int f, size_t bytes, int kind, size_t off) {
    static const char *KN[] = { "private-anonymous", "shared-anonymous", "private-file", "shared-file" };
    size_t span = ((bytes + off + 4095) & ~(size_t)4095) + 8192; int fd = -1; unsigned char *m, *peer = NULL;
    if (kind >= 2) { fd = memfd_create("kind", 0); if (fd < 0 || ftruncate(fd, span)) { fprintf(stderr, "memfd failed\n"); exit(2); }
        unsigned char *w = mmap(NULL, span, PROT_READ | PROT_WRITE, MAP_SHARED, fd, 0); memset(w, 0xC7, span); munmap(w, span); }
    m = mmap(NULL, span, PROT_READ | PROT_WRITE, (kind == 0 || kind == 2 ? MAP_PRIVATE : MAP_SHARED) | (kind < 2 ? MAP_ANONYMOUS : 0), fd, 0);
    if (m == MAP_FAILED) { fprintf(stderr, "mmap failed\n"); exit(2); }
    if (kind == 3) peer = mmap(NULL, span, PROT_READ, MAP_SHARED, fd, 0);
    memset(m, 0xC7, span);
    unsigned char *d = m + 4096 + off; size_t es = ESZ[f], n = bytes / es; int rc = 0; uint32_t val = 0;
    char cs[120]; snprintf(cs, sizeof cs, "kinds %d %zu %d %zu", f, bytes, kind, off); n_calls++; h_n = 0;
    switch (f) {
    case 0: val = 0x5a; rc = p_memset(d, n, 0x5a, n, BOSU); break;
    case 1: rc = p_memzero(d, n, BOSU); break;
    case 2: val = 0x5a5a; rc = p_memset16((uint16_t *)d, n * 2, 0x5a5a, n, BOSU); break;
    case 3: val = 0x5a5a5a5a; rc = p_memset32((uint32_t *)d, n * 4, 0x5a5a5a5a, n, BOSU); break;
    case 4: rc = p_memzero16((uint16_t *)d, n, BOSU); break;
    case 5: rc = p_memzero32((uint32_t *)d, n, BOSU); break;
    default: d[n - 1] = 0; for (size_t i = 0; i + 1 < n; i++) if (!d[i]) d[i] = 0x41; rc = p_strzero((char *)d, n, BOSU); break;
    }
    char cls[96]; snprintf(cls, sizeof cls, "large,%s,%s", KN[kind], off % 4096 ? "odd-start" : "page-start");
    if (verbose) printf("%s bytes=%zu in %s memory, start offset %zu: rc=%d handler=%d\n", FN[f], bytes, KN[kind], off, rc, h_n);
    int bad = 0;
    if (rc == 0) {
        size_t nb = n * es;
        for (size_t i = 0; i < nb && !bad; i++) { unsigned char want = (unsigned char)(val >> (8 * (i % es))); if (d[i] != want) bad = 1; else if (peer && peer[4096 + off + i] != want) bad = 2; }
        if (bad) report(FN[f], bad == 1 ? "addressed-byte-not-erased" : "addressed-byte-not-erased-for-the-peer", cls, cs);
        else { for (size_t i = 0; i < 4096 + off; i++) if (m[i] != 0xC7) { bad = 3; break; } for (size_t i = 4096 + off + nb; i < span && !bad; i++) if (m[i] != 0xC7) bad = 3; if (bad) report(FN[f], "changes-bytes-outside-n", cls, cs); }
    }
    if (peer) munmap(peer, span); munmap(m, span); if (fd >= 0) close(fd);
    return bad;
}

int main(int argc, char **argv) {
    setvbuf(stdout, NULL, _IOLBF, 0);
    void *L = dlopen(getenv("CAT_LIB"), RTLD_NOW | RTLD_GLOBAL); if (!L) { fprintf(stderr, "cannot load CAT_LIB\n"); return 2; }
    p_memset = dlsym(L, "_memset_s_chk"); p_memzero = dlsym(L, "_memzero_s_chk"); p_memset16 = dlsym(L, "_memset16_s_chk"); p_memset32 = dlsym(L, "_memset32_s_chk");
    p_memzero16 = dlsym(L, "_memzero16_s_chk"); p_memzero32 = dlsym(L, "_memzero32_s_chk"); p_strzero = dlsym(L, "_strzero_s_chk");
    void *(*sm)(void *) = dlsym(L, "set_mem_constraint_handler_s"), *(*ss)(void *) = dlsym(L, "set_str_constraint_handler_s");
    if (!p_memset || !p_memzero || !p_memset16 || !p_memset32 || !p_memzero16 || !p_memzero32 || !p_strzero || !sm || !ss) { fprintf(stderr, "missing symbols\n"); return 2; }
    sm((void *)handler); ss((void *)handler);
    int only_f = -1; size_t only_len = 0;
    if (getenv("C12_WATCH")) { g_watch = 1; g_prop = "C12"; }
    if (g_watch && !(argc >= 7 && !strcmp(argv[1], "replay"))) {      /* every function x n 1..72 x start offset 0..15, sizes unknown, exact dmax */
        for (int f = 0; f < 7; f++) for (size_t n = 1; n <= 72; n++) for (int al = 0; al < 16; al++) { if (al % ESZ[f]) continue; one(f, n, al, f == 6 ? 0 : 1, 0, 0); }
        for (int i = 0; i < nsig; i++) printf("{\"t\":\"viol\",\"sig\":\"%s\",\"n\":%ld,\"case\":\"%s\"}\n", sigs[i], sigcnt[i], sigcase[i]);
        printf("{\"t\":\"stat\",\"calls\":%ld,\"violating\":%ld}\n", n_calls, n_viol);
        return 0;
    }
    if (argc >= 5 && !strcmp(argv[1], "replay") && !strcmp(argv[2], "huge")) { verbose = 1; only_f = atoi(argv[3]); only_len = strtoull(argv[4], NULL, 10); setenv("C18_HUGE", "1", 1); goto huge; }
    if (argc >= 7 && !strcmp(argv[1], "replay") && !strcmp(argv[2], "kinds")) { verbose = 1; kinds_one(atoi(argv[3]), strtoul(argv[4], NULL, 10), atoi(argv[5]), strtoul(argv[6], NULL, 10)); printf(nsig ? "VERDICT violation %s\n" : "VERDICT ok\n", nsig ? sigs[0] : ""); return nsig ? 1 : 0; }
    if (argc >= 7 && !strcmp(argv[1], "replay")) { verbose = 1; one(atoi(argv[2]), strtoul(argv[3], NULL, 10), atoi(argv[4]), atoi(argv[5]), atoi(argv[6]), argc > 7 ? atoi(argv[7]) : 0); printf(nsig ? "VERDICT violation %s\n" : "VERDICT ok\n", nsig ? sigs[0] : ""); return nsig ? 1 : 0; }
    size_t nmax = argc > 1 ? strtoul(argv[1], NULL, 10) : 80;
    for (int f = 0; f < 7; f++) for (size_t n = 1; n <= nmax; n++) for (int al = 0; al < 16; al++) {
        if (al % ESZ[f]) continue;                                /* pointers of the element type are kept aligned for it */
        int nv = f == 0 ? 8 : f == 2 ? 7 : f == 3 ? 10 : f == 6 ? 2 : 1;
        for (int v = 0; v < nv; v++) for (int slack = 0; slack < ((f == 0 || f == 2 || f == 3) ? 2 : 1); slack++) for (int bm = 0; bm < 3; bm++) one(f, n, al, v, slack * 3, bm);
    }
    /* larger sizes around the chunking of the primitives */
    static const size_t BIG[] = { 255, 256, 257, 511, 512, 513, 1000, 1023, 1024, 1025, 2000 };
    for (int f = 0; f < 7; f++) for (int b = 0; b < 11; b++) for (int al = 0; al < 16; al++) { size_t n = BIG[b] / ESZ[f]; if (al % ESZ[f]) continue; for (int bm = 0; bm < 3; bm += 2) { one(f, n, al, f == 0 || f == 2 || f == 3 ? 1 : 0, 0, bm); if (f == 2 || f == 3) one(f, n, al, 3, 0, bm); } }
    { static const size_t SZ[] = { (1u << 20) - 4096, 1u << 20, (1u << 20) + 4096 + 64, 3u << 20 }; static const size_t OFF[] = { 0, 8, 100 };
      for (int f = 0; f < 7; f++) for (int si = 0; si < 4; si++) for (int kind = 0; kind < 4; kind++) for (int oi = 0; oi < 3; oi++) { if (OFF[oi] % ESZ[f]) continue; kinds_one(f, SZ[si], kind, OFF[oi]); } }
    /* sizes at and above 4 GiB with the object size known to the library (a 32 MiB memory file mapped repeatedly backs the range):
     * the call must either refuse or really erase - samples across the whole range are inspected */
huge:
    if (getenv("C18_HUGE")) {
        size_t win = 32u << 20, total = (4ull << 30) + (2u << 20); int mfd = memfd_create("huge", 0);
        unsigned char *base = mfd >= 0 && !ftruncate(mfd, win) ? mmap(NULL, total, PROT_NONE, MAP_PRIVATE | MAP_ANONYMOUS | MAP_NORESERVE, -1, 0) : MAP_FAILED;
        int ok = base != MAP_FAILED;
        for (size_t off = 0; ok && off < total; off += win) { size_t l = total - off < win ? total - off : win; if (mmap(base + off, l, PROT_READ | PROT_WRITE, MAP_SHARED | MAP_FIXED, mfd, 0) == MAP_FAILED) ok = 0; }
        if (ok) {
            static const size_t LENS[] = { 4ull << 30, (4ull << 30) + (1u << 20), (4ull << 30) - 1, 1u << 30 };
            for (int f = 0; f < 2; f++) for (int li = 0; li < 4; li++) { size_t len = LENS[li]; if (only_f >= 0 && (f != only_f || len != only_len)) continue;
                memset(base, 0xC7, win); char cs[120]; snprintf(cs, sizeof cs, "huge %d %zu", f, len); n_calls++; h_n = 0;
                int rc = f == 0 ? p_memset(base, len, 0, len, len) : p_memzero(base, len, len);
                if (verbose) printf("%s len=%zu rc=%d handler=%d\n", FN[f], len, rc, h_n);
                if (rc != 0) continue;                                  /* refused (above RSIZE_MAX_MEM): fine */
                int left = 0; for (size_t o = 0; o < len; o += 65521) if (base[o] != 0) left++; if (base[len - 1] != 0) left++;
                if (left) report(FN[f], "addressed-byte-not-erased", li < 2 ? "size-known,n>=4GiB" : "size-known,n<4GiB-large", cs); }
        } else fprintf(stderr, "cannot map the 4 GiB window: huge sizes not judged\n");
    }
    if (only_f >= 0) { printf(nsig ? "VERDICT violation %s\n" : "VERDICT ok\n", nsig ? sigs[0] : ""); return nsig ? 1 : 0; }
    for (int i = 0; i < nsig; i++) printf("{\"t\":\"viol\",\"sig\":\"%s\",\"n\":%ld,\"case\":\"%s\"}\n", sigs[i], sigcnt[i], sigcase[i]);
    printf("{\"t\":\"stat\",\"calls\":%ld,\"violating\":%ld}\n", n_calls, n_viol);
    return 0;
}
