/* client.c - callers whose erased buffer is dead after the call.  This file is compiled once per build configuration
 * (compiler x optimisation level x linkage of the library); it uses only the public headers and macros. */
#include <stdlib.h>
#include <stdint.h>
#include "safe_mem_lib.h"
#include "safe_str_lib.h"
#include "c18.h"

/* the secret is derived in place by inlined code from run-time data and used through run-time indices,
 * so that it lives in memory without its address ever being passed anywhere before the erase */
#define DERIVE8(k, n, seed) do { unsigned i_; for (i_ = 0; i_ < (n); i_++) (k)[i_] = (unsigned char)(c18_tab[((seed) + i_ * 7) & 255] ^ 0xA5); } while (0)
#define USE8(k, n, acc) do { unsigned i_, n_ = c18_msglen; for (i_ = 0; i_ < n_; i_++) (acc) = (acc) * 31 + ((k)[c18_msg[i_] % (n)] ^ c18_msg[i_]); } while (0)
#define DERIVE16(k, n, seed) do { unsigned i_; for (i_ = 0; i_ < (n); i_++) (k)[i_] = (uint16_t)((c18_tab[((seed) + i_ * 7) & 255] ^ 0xA5) | ((c18_tab[((seed) + i_ * 11 + 3) & 255] ^ 0x5A) << 8)); } while (0)
#define DERIVE32(k, n, seed) do { unsigned i_; for (i_ = 0; i_ < (n); i_++) (k)[i_] = (uint32_t)((c18_tab[((seed) + i_ * 7) & 255] ^ 0xA5) | ((c18_tab[((seed) + i_ * 11 + 3) & 255] ^ 0x5A) << 8) | ((uint32_t)(c18_tab[((seed) + i_ * 13 + 5) & 255] ^ 0x3C) << 16) | ((uint32_t)(c18_tab[((seed) + i_ * 17 + 9) & 255] ^ 0xC3) << 24)); } while (0)
#define USEW(k, n, acc) do { unsigned i_, n_ = c18_msglen; for (i_ = 0; i_ < n_; i_++) (acc) = (acc) * 31 + ((unsigned)(k)[c18_msg[i_] % (n)] ^ c18_msg[i_]); } while (0)

#define STACK8(name, N, WIPE) \
    static void d_##name(unsigned char *out, unsigned seed) { DERIVE8(out, N, seed); } \
    static void f_##name(void) { unsigned char key[N]; unsigned acc = 0, seed = c18_seed; DERIVE8(key, N, seed); USE8(key, N, acc); c18_mac = acc; WIPE; }
#define STACK16(name, N, WIPE) \
    static void d_##name(unsigned char *out, unsigned seed) { uint16_t t[N]; DERIVE16(t, N, seed); __builtin_memcpy(out, t, sizeof t); } \
    static void f_##name(void) { uint16_t key[N]; unsigned acc = 0, seed = c18_seed; DERIVE16(key, N, seed); USEW(key, N, acc); c18_mac = acc; WIPE; }
#define STACK32(name, N, WIPE) \
    static void d_##name(unsigned char *out, unsigned seed) { uint32_t t[N]; DERIVE32(t, N, seed); __builtin_memcpy(out, t, sizeof t); } \
    static void f_##name(void) { uint32_t key[N]; unsigned acc = 0, seed = c18_seed; DERIVE32(key, N, seed); USEW(key, N, acc); c18_mac = acc; WIPE; }

STACK8(memzero_24, 24, c18_rc = memzero_s(key, 24))
STACK8(memzero_32, 32, c18_rc = memzero_s(key, sizeof key))
STACK8(memzero_64, 64, c18_rc = memzero_s(key, 64))
STACK8(memzero_65, 65, c18_rc = memzero_s(key, 65))
STACK8(memzero_200, 200, c18_rc = memzero_s(key, sizeof key))
STACK8(memzero_runtime_len, 32, c18_rc = memzero_s(key, c18_len32))
STACK8(memset_s_zero_32, 32, c18_rc = memset_s(key, sizeof key, 0, sizeof key))
STACK8(memset_s_5a_32, 32, c18_rc = memset_s(key, 32, 0x5a, 32))
STACK8(memset_s_zero_200, 200, c18_rc = memset_s(key, 200, 0, 200))
STACK8(memset_s_runtime_len, 32, c18_rc = memset_s(key, sizeof key, 0, c18_len32))
STACK16(memzero16_16, 16, c18_rc = memzero16_s(key, 16))
STACK16(memset16_16, 16, c18_rc = memset16_s(key, sizeof key, 0, 16))
STACK32(memzero32_8, 8, c18_rc = memzero32_s(key, 8))
STACK32(memzero32_50, 50, c18_rc = memzero32_s(key, 50))
STACK32(memset32_8, 8, c18_rc = memset32_s(key, sizeof key, 0, 8))
STACK8(control_no_erase, 32, (void)0)

/* a password: non-zero characters and a terminator; strzero_s nulls up to the terminator */
#define DERIVEPW(k, n, seed) do { unsigned i_; for (i_ = 0; i_ + 1 < (n); i_++) (k)[i_] = (char)(((c18_tab[((seed) + i_ * 7) & 255] ^ 0xA5) & 0x3f) + 0x30); (k)[(n) - 1] = 0; } while (0)
static void d_strzero_32(unsigned char *out, unsigned seed) { DERIVEPW((char *)out, 32, seed); }
static void f_strzero_32(void) { char pw[32]; unsigned acc = 0, seed = c18_seed; DERIVEPW(pw, 32, seed); USE8(pw, 31, acc); c18_mac = acc; c18_rc = strzero_s(pw, sizeof pw); }

/* key at an odd offset inside a record */
struct rec { char tag; unsigned char key[33]; char tail; };
static void d_member_33(unsigned char *out, unsigned seed) { DERIVE8(out, 33, seed); }
static void f_member_33(void) { struct rec r; unsigned acc = 0, seed = c18_seed; r.tag = 1; r.tail = 2; DERIVE8(r.key, 33, seed); USE8(r.key, 33, acc); c18_mac = acc + r.tag + r.tail; c18_rc = memzero_s(r.key, sizeof r.key); }

/* heap block, erased, then freed */
static void d_heap_48(unsigned char *out, unsigned seed) { DERIVE8(out, 48, seed); }
static void f_heap_48(void) { unsigned char *key = malloc(48); unsigned acc = 0, seed = c18_seed; if (!key) abort(); DERIVE8(key, 48, seed); USE8(key, 48, acc); c18_mac = acc; c18_rc = memzero_s(key, 48); free(key); }
static void f_heap_memset_48(void) { unsigned char *key = malloc(48); unsigned acc = 0, seed = c18_seed; if (!key) abort(); DERIVE8(key, 48, seed); USE8(key, 48, acc); c18_mac = acc; c18_rc = memset_s(key, 48, 0, 48); free(key); }
static void f_heap_control(void) { unsigned char *key = malloc(48); unsigned acc = 0, seed = c18_seed; if (!key) abort(); DERIVE8(key, 48, seed); USE8(key, 48, acc); c18_mac = acc; free(key); }

/* static object that nothing else refers to */
static unsigned char skey[40], skey2[40], skey3[40];
static void d_static_40(unsigned char *out, unsigned seed) { DERIVE8(out, 40, seed); }
static void f_static_40(void) { unsigned acc = 0, seed = c18_seed; DERIVE8(skey, 40, seed); USE8(skey, 40, acc); c18_mac = acc; c18_rc = memzero_s(skey, sizeof skey); }
static void f_static_memset_40(void) { unsigned acc = 0, seed = c18_seed; DERIVE8(skey2, 40, seed); USE8(skey2, 40, acc); c18_mac = acc; c18_rc = memset_s(skey2, sizeof skey2, 0, sizeof skey2); }
static void f_static_control(void) { unsigned acc = 0, seed = c18_seed; DERIVE8(skey3, 40, seed); USE8(skey3, 40, acc); c18_mac = acc; }

#define S(name, n, fill, kind, ctl) { #name, f_##name, d_##name, n, fill, kind, ctl }
const struct c18_scn c18_scenarios[] = {
    S(memzero_24, 24, 0, 's', 0), S(memzero_32, 32, 0, 's', 0), S(memzero_64, 64, 0, 's', 0), S(memzero_65, 65, 0, 's', 0), S(memzero_200, 200, 0, 's', 0),
    S(memzero_runtime_len, 32, 0, 's', 0), S(memset_s_zero_32, 32, 0, 's', 0), S(memset_s_5a_32, 32, 0x5a, 's', 0), S(memset_s_zero_200, 200, 0, 's', 0),
    S(memset_s_runtime_len, 32, 0, 's', 0), S(memzero16_16, 32, 0, 's', 0), S(memset16_16, 32, 0, 's', 0), S(memzero32_8, 32, 0, 's', 0), S(memzero32_50, 200, 0, 's', 0),
    S(memset32_8, 32, 0, 's', 0), S(strzero_32, 31, 0, 's', 0), S(member_33, 33, 0, 's', 0),
    { "heap_memzero_48", f_heap_48, d_heap_48, 48, 0, 'h', 0 }, { "heap_memset_s_48", f_heap_memset_48, d_heap_48, 48, 0, 'h', 0 },
    { "static_memzero_40", f_static_40, d_static_40, 40, 0, 'g', 0 }, { "static_memset_s_40", f_static_memset_40, d_static_40, 40, 0, 'g', 0 },
    S(control_no_erase, 32, -1, 's', 1), { "control_heap_no_erase", f_heap_control, d_heap_48, 48, -1, 'h', 1 }, { "control_static_no_erase", f_static_control, d_static_40, 40, -1, 'g', 1 },
};
const unsigned c18_nscenarios = sizeof c18_scenarios / sizeof c18_scenarios[0];
