/* inspect.c - runs every caller of client.c on a private stack and looks, out of band, for what is left of the secret:
 * the whole private stack after the caller returned, the heap block at the moment it is freed, the writable segments
 * of the executable.  Built the same way in every configuration (gcc -O1, no LTO). */
#define _GNU_SOURCE
#include <stdio.h>
#include <stdlib.h>
#include <string.h>
#include <stdint.h>
#include <ucontext.h>
#include <link.h>
#include <malloc.h>
#include <sys/mman.h>
#include "c18.h"

unsigned char c18_tab[256]; unsigned char c18_msg[48];
volatile unsigned c18_seed, c18_msglen, c18_mac, c18_len32 = 32; volatile int c18_rc;
void c18_touch(void *p) { (void)p; }

#define STKSZ (256 * 1024)
static unsigned char *stk; static ucontext_t main_ctx, co_ctx;
static const unsigned char *cur_key; static unsigned cur_n;      /* the secret being looked for (kept on main's stack) */
static unsigned heap_residue, heap_fill; static int heap_seen, cur_fill, heap_exact;

/* longest run of consecutive secret bytes in [p, p+len) */
static unsigned residue(const unsigned char *p, size_t len, const unsigned char *key, unsigned n) {
    unsigned best = 0;
    for (size_t i = 0; i < len; i++) {
        for (unsigned off = 0; off < n; off++) { if (p[i] != key[off]) continue;
            unsigned run = 0; while (off + run < n && i + run < len && p[i + run] == key[off + run]) run++;
            if (run > best) best = run; }
    }
    return best;
}
static unsigned fillrun(const unsigned char *p, size_t len, int v) { unsigned best = 0, run = 0; for (size_t i = 0; i < len; i++) { if (p[i] == (unsigned char)v) { if (++run > best) best = run; } else run = 0; } return best; }

/* the executable's own free(): inspect the block the moment it is given back */
extern void __libc_free(void *);
void free(void *p) {
    if (p && cur_key) { size_t sz = malloc_usable_size(p); if (sz >= cur_n && sz < 4096) { unsigned r = residue(p, sz, cur_key, cur_n); if (r > heap_residue) heap_residue = r; if (cur_fill >= 0) { unsigned f = fillrun(p, sz, cur_fill); if (f > heap_fill) heap_fill = f; unsigned i = 0; while (i < cur_n && ((unsigned char *)p)[i] == (unsigned char)cur_fill) i++; heap_exact = i == cur_n; } heap_seen++; } }
    __libc_free(p);
}

static void run_on_private_stack(void (*fn)(void)) {
    memset(stk, 0xEE, STKSZ);
    if (getcontext(&co_ctx) != 0) exit(3);
    co_ctx.uc_stack.ss_sp = stk; co_ctx.uc_stack.ss_size = STKSZ; co_ctx.uc_link = &main_ctx;
    makecontext(&co_ctx, fn, 0);
    if (swapcontext(&main_ctx, &co_ctx) != 0) exit(3);
}

struct seg { const unsigned char *p; size_t len; }; static struct seg segs[8]; static int nsegs;
static int phdr_cb(struct dl_phdr_info *info, size_t size, void *data) { (void)size; (void)data;
    if (nsegs == 0 || info->dlpi_name[0] == 0) for (int i = 0; i < info->dlpi_phnum; i++) { const ElfW(Phdr) *ph = &info->dlpi_phdr[i];
        if (ph->p_type == PT_LOAD && (ph->p_flags & PF_W) && nsegs < 8) { segs[nsegs].p = (const unsigned char *)(info->dlpi_addr + ph->p_vaddr); segs[nsegs].len = ph->p_memsz; nsegs++; } }
    return 1; }                                                   /* first object only: the executable */

int main(int argc, char **argv) {
    const char *only = argc > 1 ? argv[1] : NULL;
    stk = mmap(NULL, STKSZ, PROT_READ | PROT_WRITE, MAP_PRIVATE | MAP_ANONYMOUS, -1, 0); if (stk == MAP_FAILED) return 3;
    unsigned x = 0x9e3779b9u; for (int i = 0; i < 256; i++) { x ^= x << 13; x ^= x >> 17; x ^= x << 5; c18_tab[i] = (unsigned char)(x >> 11); }
    for (int i = 0; i < 48; i++) { x ^= x << 13; x ^= x >> 17; x ^= x << 5; c18_msg[i] = (unsigned char)(x >> 9); }
    c18_seed = 0x4d; c18_msglen = 48;
    dl_iterate_phdr(phdr_cb, NULL);
    for (unsigned s = 0; s < c18_nscenarios; s++) { const struct c18_scn *sc = &c18_scenarios[s];
        if (only && strcmp(only, sc->name)) continue;
        unsigned char key[256]; memset(key, 0, sizeof key); sc->derive(key, c18_seed);
        unsigned res = 0, fr = 0; c18_rc = -777; heap_residue = heap_fill = 0; heap_seen = 0; heap_exact = 0;
        cur_key = key; cur_n = sc->nbytes; cur_fill = sc->fill;
        run_on_private_stack(sc->fn);
        cur_key = NULL;
        if (sc->kind == 's') { res = residue(stk, STKSZ, key, sc->nbytes); if (sc->fill >= 0) fr = fillrun(stk, STKSZ, sc->fill); }
        else if (sc->kind == 'h') { res = heap_residue; fr = heap_exact ? sc->nbytes : 0; }
        else { for (int g = 0; g < nsegs; g++) { unsigned r = residue(segs[g].p, segs[g].len, key, sc->nbytes); if (r > res) res = r; }
               fr = sc->nbytes; }
        printf("{\"scn\":\"%s\",\"kind\":\"%c\",\"control\":%d,\"n\":%u,\"rc\":%d,\"residue\":%u,\"fill_run\":%u,\"heap_blocks_seen\":%d}\n", sc->name, sc->kind, sc->control, sc->nbytes, sc->control ? 0 : (int)c18_rc, res, fr, heap_seen);
    }
    return 0;
}
