/* shared between the client (compiled in every build configuration under test) and the inspector (fixed build) */
#ifndef C18_H
#define C18_H
#include <stddef.h>
extern unsigned char c18_tab[256];
extern unsigned char c18_msg[48];
extern volatile unsigned c18_seed, c18_msglen, c18_mac, c18_len32;
extern volatile int c18_rc;
void c18_touch(void *p);                    /* opaque no-op: makes an address escape */
struct c18_scn {
    const char *name;
    void (*fn)(void);                       /* the caller under test: derives a secret in place, uses it, erases it, never reads it again */
    void (*derive)(unsigned char *out, unsigned seed);   /* the same derivation into the inspector's buffer */
    unsigned nbytes;                        /* size of the secret */
    int fill;                               /* byte value the erased range must hold, -1 for controls (nothing erased) */
    char kind;                              /* 's' stack, 'h' heap block freed afterwards, 'g' static object */
    char control;                           /* 1: no erase at all; the secret must be found (sensitivity of the inspection) */
};
extern const struct c18_scn c18_scenarios[];
extern const unsigned c18_nscenarios;
#endif
