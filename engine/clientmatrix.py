"""Applications built from the public headers only, for every compiler x optimisation level, linked to the library built from the working tree.
Used by C13 (engine/clients/handlerclient.c) and C16 (engine/clients/sortclient.c, and the generated name-clash client)."""
import os, subprocess, re
from . import vbuild, common
ROOT = common.ROOT
OUT = os.path.join(ROOT, "build", "clients")
CDIR = os.path.join(ROOT, "engine", "clients")


def configs(tier):
    return [(cc, opt) for cc in ("gcc", "clang") for opt in (("O2",) if tier == "quick" else ("O0", "O1", "O2", "O3", "Os"))]


def build_run(src, cc, opt, extra=()):
    """-> (stdout or None, error or None).  The client is compiled against /repo/include and linked with the prod build."""
    os.makedirs(OUT, exist_ok=True)
    lib = vbuild.build("prod"); libd = os.path.dirname(lib)
    exe = os.path.join(OUT, os.path.basename(src)[:-2] + f"-{cc}-{opt}")
    if os.path.exists(exe): os.unlink(exe)
    cmd = [cc, "-" + opt, "-w", "-I" + os.path.join(vbuild.REPO, "include"), "-I" + vbuild.REPO, src, "-o", exe, "-L" + libd, "-lsafec", "-lpthread", "-Wl,-rpath," + libd] + list(extra)
    r = subprocess.run(cmd, capture_output=True, text=True)
    if r.returncode != 0: return None, "compile failed: " + r.stderr[-300:]
    r = subprocess.run([exe], capture_output=True, text=True, timeout=120)
    if "DONE" not in r.stdout: return None, f"client exit {r.returncode}: {r.stdout[-200:]} {r.stderr[-200:]}"
    return r.stdout, None


def wrong_lines(out):
    return [l for l in out.splitlines() if l.startswith("S ") and l.endswith("WRONG")]


def new_exported_symbols():
    """dynamic symbols the library defines that are neither mentioned in the public headers nor in the committed baseline of the pinned tree:
    names a client may legitimately use for its own functions, and which would then be called in place of the library's helper"""
    lib = vbuild.build("prod")
    exp = {l.split()[-1] for l in subprocess.run(["nm", "-D", "--defined-only", lib], capture_output=True, text=True).stdout.splitlines() if l.strip()}
    ids = set()
    inc = os.path.join(vbuild.REPO, "include")
    for f in os.listdir(inc):
        if f.endswith(".h"): ids |= set(re.findall(r"[A-Za-z_][A-Za-z0-9_]*", open(os.path.join(inc, f), errors="replace").read()))
    base = set(open(os.path.join(CDIR, "exported_baseline.txt")).read().split())
    return sorted(n for n in exp - ids - base if re.match(r"^[A-Za-z][A-Za-z0-9_]*$", n))


def clash_client(names):
    """source of a client that happens to have functions of its own with those names, and sorts"""
    body = ["#include <stdio.h>", "#include <stdlib.h>", '#include "safe_lib.h"', '#include "safe_mem_lib.h"', "static long hits;"]
    for n in names: body.append(f"long {n}(long a, long b, long c, long d, long e, long f) {{ (void)a; (void)b; (void)c; (void)d; (void)e; (void)f; hits++; return 0; }}   /* the application's own {n}() */")
    body.append("static int cmp(const void *a, const void *b, void *c) { (void)c; return (*(const int *)a > *(const int *)b) - (*(const int *)a < *(const int *)b); }")
    body.append("int main(void) { int bad = 0; for (int n = 2; n <= 40; n++) { int a[64]; for (int i = 0; i < n; i++) a[i] = (i * 37 + 11) % 23; if (qsort_s(a, n, sizeof a[0], cmp, NULL)) bad++; for (int i = 1; i < n; i++) if (a[i - 1] > a[i]) { bad++; break; } }")
    body.append('  printf("S qsort_s with-application-functions-of-the-same-name hits=%ld unsorted=%d %s\\n", hits, bad, bad || hits ? "WRONG" : "ok"); printf("DONE\\n"); return 0; }')
    return "\n".join(body) + "\n"
