"""C14: strtok_s/wcstok_s call histories vs a reference tokenizer (all strings over {a,b,',',';',0xA7} up to N,
dmax exact/slack/unterminated, six delimiter sets; thorough: per-call delimiter choice, BFS on states)."""
import os, sys, json, time, subprocess
from concurrent.futures import ThreadPoolExecutor
from . import vbuild, common, crosspass
ROOT = common.ROOT
BIN = os.path.join(ROOT, "build", "seq", "c14")
SRC = [os.path.join(ROOT, "engine", "seq", "c14.c")]


def build():
    common.cc(BIN, SRC, ["-O1", "-g", "-w", "-ldl"]); return BIN


def run(tier, deadline):
    t0 = time.time(); build()
    # the library as configured here (prod, -O0) and, in the thorough tier, the quick-sized enumeration once more on the library built the way a
    # default ./configure builds it (dist: -O2, _FORTIFY_SOURCE=2, the repository's hardening flags)
    envs = {v: dict(os.environ, CAT_LIB=vbuild.build(v)) for v in (("prod",) if tier == "quick" else ("prod", "dist"))}
    N = 5 if tier == "quick" else 9
    jobs = []
    for kind in ("str", "wcs"):
        for sh in range(8): jobs.append([kind, str(N), "0", str(sh), "8"])
        for sh in range(8): jobs.append([kind, str(4 if tier == "quick" else 7), "1", str(sh), "8"])
    def mkjobs(tier):
        N = 5 if tier == "quick" else 9
        jobs = []
        for kind in ("str", "wcs"):
            for sh in range(8): jobs.append([kind, str(N), "0", str(sh), "8"])
            for sh in range(8): jobs.append([kind, str(4 if tier == "quick" else 7), "1", str(sh), "8"])
        return jobs
    jobs = [("prod", j) for j in jobs] + ([("dist", j) for j in mkjobs("quick")] if tier == "thorough" else [])
    viol = {}; internal = []; tot = {"histories": 0, "calls": 0, "states": 0, "transitions": 0}; timed_out = []
    def one(vj):
        v, j = vj
        left = deadline - (time.time() - t0)
        try: return vj, subprocess.run([BIN] + j, capture_output=True, text=True, errors="replace", env=envs[v], timeout=max(5, left))
        except subprocess.TimeoutExpired: timed_out.append(vj); return vj, None
    with ThreadPoolExecutor(16) as ex:
        for (v, j), r in ex.map(one, jobs):
            if r is None: continue
            if r.returncode != 0: internal.append(f"{j}: exit {r.returncode} {r.stderr[-200:]}"); continue
            for ln in r.stdout.splitlines():
                if not ln.startswith("{"): continue
                o = json.loads(ln)
                if o["t"] == "viol": e = viol.setdefault(o["sig"], [0, o["case"], v]); e[0] += o["n"]
                elif o["t"] == "stat":
                    for k in tot: tot[k] += o[k]
    # borrowed passes: the tokenizers' macros in a client built from the public headers (each argument evaluated once), and no footprint in static storage
    xv, xn, xi = crosspass.hdr("C14", lambda n: n in ("strtok_s", "wcstok_s"), tier); internal += xi
    fv, fn_, fi = crosspass.footprint("C14", ["strtok_s", "wcstok_s"], tier, deadline - (time.time() - t0)); internal += fi
    ov, on_, oi = crosspass.op_footprint("C14", ("strtok",), tier); internal += oi
    for sig, case, n in xv + fv + ov: e = viol.setdefault(sig, [0, case, "prod"]); e[0] += n
    if internal:
        for m in internal[:10]: print("INTERNAL-ERROR:", m, file=sys.stderr)
        return 2
    violations = [common.Violation(sig, "" if v == "prod" else "library build: " + v, f"property=C14\nvariant={v}\nsignature={sig}\ncase={case}\n", n) for sig, (n, case, v) in sorted(viol.items())]
    def confirm(v):
        kv = dict(l.split("=", 1) for l in v.replay_text.strip().splitlines()); return replay(kv, quiet=True) == 1
    cov = {"states": max(1, tot["states"]), "transitions": max(1, tot["transitions"]), "traces_validated_against_impl": tot["histories"],
           "samples": ["str 612c62 0 2  (string 'a,b', dmax=len+1, delimiters ',;' on every call)", "wcs 613b3b62 1 0", "str 2c612c 2 2 (unterminated)", "str 612c623b61 0 021 (per-call delimiter sequence)"],
           "evaluations": tot["calls"], "distinct_nontrivial": tot["states"], "string_length_bound": N, "histories": tot["histories"], "calls": tot["calls"],
           "rule": "every string over {a,b,',',';',0xA7} of length 0..N x dmax in {len+1, len+3 (slack), len+6 (the tail of an older record with both separators behind the terminator), len (unterminated, flush against PROT_NONE)} x delimiter sets {',', ';', ',;', '', 16 chars, 17 chars, 0xA7, ',' + 0xA7}; the history strtok(s), strtok(NULL)... is continued until two consecutive NULLs; thorough/branching: every per-call choice among three sets, BFS de-duplicated on (buffer bytes, *ptr offset, *dmaxp); oracle after every call: returned pointer and token text, buffer bytes, *ptr inside the string, *ptr offset + *dmaxp <= original dmax, NULL forever after the end",
           "jobs_timed_out": len(timed_out), "library_builds": sorted(envs)}
    return common.finish("C14", tier, t0, cov, violations, ["reference tokenizer (20 lines) implements strtok semantics per call"], confirm=confirm, exhaustive=not timed_out)


def replay(kv, quiet=False):
    if crosspass.is_cross(kv["case"]): return crosspass.replay(kv, quiet)
    build(); c = kv["case"].split()
    r = subprocess.run([BIN, "replay"] + c, capture_output=True, text=True, errors="replace", env=dict(os.environ, CAT_LIB=vbuild.build(kv.get("variant", "prod"))))
    if not quiet: sys.stdout.write(r.stdout); sys.stderr.write(r.stderr)
    return r.returncode
