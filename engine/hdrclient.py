"""C05 pass over the public headers themselves: a client program generated from include/*.h.  For every function-like
macro of the public API (and every plain exported function with scalar arguments, in case it ever becomes a macro)
  (A) the macro is called with every argument wrapped in a counting comma expression: each argument is evaluated
      exactly once (C11 7.1.4: a library function implemented as a macro evaluates each argument once);
  (B) for the string functions, the macro is called with compile-time constant operands (array destinations with
      constant sizes, string literals from a small set as sources, literal operands of the comparison functions with
      dmax = strlen and strlen + 1) and the outcome (return value, every element of dest, out parameters) is compared
      with a call of the exported function through an opaque pointer with the same operands.
The client is compiled for gcc and clang at -O0 and -O2 (thorough: more levels) and linked to the library built from
the working tree.  Macros whose parameter types the generator has no values for are listed as skipped."""
import os, re, subprocess, json, types
from . import vbuild, common
ROOT = common.ROOT
OUT = os.path.join(ROOT, "build", "seq", "hc")
HDRS = ["safe_str_lib.h", "safe_mem_lib.h", "safe_lib.h"]


def _collapse(t):
    t = re.sub(r"/\*.*?\*/", " ", t, flags=re.S)
    t = re.sub(r"//[^\n]*", " ", t)
    t = t.replace("\\\n", " ")
    return t


def parse_headers():
    macros = {}; protos = {}
    for h in HDRS:
        p = os.path.join(vbuild.REPO, "include", h)
        if not os.path.exists(p): continue
        t = _collapse(open(p, errors="replace").read())
        for m in re.finditer(r"^[ \t]*#[ \t]*define[ \t]+(\w+)\(([^)]*)\)[ \t]+(.*)$", t, flags=re.M):
            name, params, body = m.group(1), [x.strip() for x in m.group(2).split(",") if x.strip()], m.group(3).strip()
            if name.startswith("_") or name.upper() == name: continue
            macros.setdefault(name, (params, body))        # the first definition wins (the tree's own #if order)
        flat = re.sub(r"^[ \t]*#.*$", " ", t, flags=re.M)
        flat = re.sub(r"\s+", " ", flat)
        for m in re.finditer(r"EXTERN ([\w\s\*]+?)\b(\w+) ?\(([^;{}]*?)\)[^;{}()]*(?:\([^;{}]*?\)[^;{}()]*)*;", flat):
            rt, name, ps = m.group(1).strip(), m.group(2), m.group(3).strip()
            protos.setdefault(name, (rt, ps))
    return macros, protos


def split_params(ps):
    out = []; depth = 0; cur = ""
    for ch in ps:
        if ch == "(": depth += 1
        if ch == ")": depth -= 1
        if ch == "," and depth == 0: out.append(cur.strip()); cur = ""
        else: cur += ch
    if cur.strip(): out.append(cur.strip())
    return out


ELEM = {"char": "char", "wchar_t": "wchar_t", "void": "unsigned char", "uint8_t": "uint8_t", "uint16_t": "uint16_t", "uint32_t": "uint32_t"}


def classify(p):
    """-> (kind, ctype, name) ; kind in dest, src, size, int, out, outp, None"""
    if "(" in p or p == "..." or p == "void": return None, None, None
    q = re.sub(r"\b(restrict|__restrict|const)\b", " ", p)
    q = re.sub(r"\s+", " ", q).strip()
    m = re.match(r"^([\w ]+?) ?(\*+) ?(\w+)$", q) or re.match(r"^([\w ]+?) (\w+)()$", q)
    if not m: return None, None, None
    if m.lastindex == 3 and m.group(2).startswith("*"): base, stars, name = m.group(1).strip(), m.group(2), m.group(3)
    else: base, stars, name = m.group(1).strip(), "", m.group(2)
    const = bool(re.search(r"\bconst\b[^*]*\*", p))
    if stars == "*" and base in ELEM:
        return ("src" if const else "dest"), base, name
    if stars == "*" and base == "struct tm" and const: return "tm", base, name
    if stars == "*" and base == "time_t" and const: return "tt", base, name
    if stars == "*" and base == "mbstate_t": return "mbs", base, name
    if stars == "**" and base in ("char", "wchar_t") and const: return "srcpp", base, name
    if stars == "**" and base == "void": return "outp", base, name
    if stars == "" and base in ("bool", "wcsnorm_mode_t"): return "flag", base, name
    if stars == "*" and base in ("rsize_t", "size_t", "int", "errno_t", "unsigned", "long"):
        return "out", base, name
    if stars == "**" and base in ("char", "wchar_t"):
        return "outp", base, name
    if stars == "" and base in ("rsize_t", "size_t"): return "size", base, name
    if stars == "" and base in ("int", "errno_t", "uint8_t", "uint16_t", "uint32_t", "wchar_t", "wint_t", "unsigned", "char"): return "int", base, name
    return None, None, None


def exported():
    r = subprocess.run(["nm", "-D", "--defined-only", vbuild.build("prod")], capture_output=True, text=True)
    return {l.split()[-1] for l in r.stdout.splitlines() if l.strip()}


def gen():
    macros, protos = parse_headers()
    items = []; skipped = []; exp = exported()
    for name, (mparams, body) in sorted(macros.items()):
        m = re.search(r"\b(_\w+_chk)\s*\(", body)       # the expansion may wrap the call (a conditional, a helper tried first)
        chk = m.group(1) if m else None
        if not chk and name in protos and name in exp:      # a macro laid over a plain function of the same name
            rt, ps = protos[name]; plist = split_params(ps); kinds = [classify(p) for p in plist]
            if len(plist) == len(mparams) and all(k[0] == "int" for k in kinds): items.append((name, None, rt, kinds, (mparams, mparams))); continue
        if chk and chk not in exp: skipped.append(name + "(not built)"); continue
        if name in ("sprintf_s", "snprintf_s", "swprintf_s", "snwprintf_s") and chk in exp: continue      # variadic: called with a fixed argument list in emit_c
        if not chk or chk not in protos or "..." in mparams or "__VA_ARGS__" in body: skipped.append(name); continue
        rt, ps = protos[chk]; plist = split_params(ps)
        # the arguments of the expansion: which parameter of the function does each macro parameter become
        b = body[body.index("(", body.index(chk)) + 1:]; depth = 1; end = 0
        for end, ch in enumerate(b):
            if ch == "(": depth += 1
            if ch == ")":
                depth -= 1
                if depth == 0: break
        cargs = split_params(b[:end])
        if len(cargs) != len(plist): skipped.append(name); continue
        kinds = []
        for mp in mparams:
            js = [j for j, a in enumerate(cargs) if a.strip() == mp]
            kinds.append(classify(plist[js[0]]) if js else (None, None, None))
        if any(k[0] is None for k in kinds): skipped.append(name); continue
        items.append((name, chk, rt, kinds, (mparams, cargs)))
    plain = []
    for name, (rt, ps) in sorted(protos.items()):
        if name.startswith("_") or name in macros or name not in exp: continue
        plist = split_params(ps)
        kinds = [classify(p) for p in plist]
        if plist and all(k[0] == "int" for k in kinds) and rt in ("int", "uint32_t", "errno_t"): plain.append((name, rt, kinds))
    return items, plain, skipped


PRE = r'''/* generated by engine/hdrclient.py from the public headers of the working tree */
#include <stdio.h>
#include <stdlib.h>
#include <string.h>
#include <wchar.h>
#include <stdint.h>
#include <time.h>
#include <stdbool.h>
#include "safe_lib.h"
#include "safe_str_lib.h"
#include "safe_mem_lib.h"
static int ev[12];
static void hnd(const char *restrict m, void *restrict p, errno_t e) { (void)m; (void)p; (void)e; }
static volatile size_t V0;
static const struct tm tmv = { .tm_mday = 1, .tm_year = 100 }; static const time_t ttv = 1000000000;
#define RESET() memset(ev, 0, sizeof ev)
#define COUNTS(name, n) do { for (int i_ = 0; i_ < (n); i_++) if (ev[i_] != 1) printf("COUNT %s %d %d\n", name, i_, ev[i_]); printf("A %s\n", name); } while (0)
#define BOSU ((size_t)-1)
static char dc[16], dc2[16]; static wchar_t dw[16], dw2[16]; static unsigned char dv[64], dv2[64]; static uint8_t d8[16], d8b[16]; static uint16_t d16[16], d16b[16]; static uint32_t d32[16], d32b[16];
static const char sc[4] = "abc"; static const wchar_t sw[4] = L"abc"; static const unsigned char sv[16] = "abcdefghijklmno"; static const uint8_t s8[4] = { 1, 2, 3, 0 }; static const uint16_t s16[4] = { 1, 2, 3, 0 }; static const uint32_t s32[4] = { 1, 2, 3, 0 };
static void fill(void) {
    memset(dc, 'z', sizeof dc); memcpy(dc, "ab", 3); for (int i = 0; i < 16; i++) dw[i] = L'z'; dw[0] = L'a'; dw[1] = L'b'; dw[2] = 0;
    memset(dv, 'z', sizeof dv); memcpy(dv, "ab", 3); memset(d8, 7, sizeof d8); for (int i = 0; i < 16; i++) { d16[i] = 0x707; d32[i] = 0x7070707; }
}
static void keep(void) { memcpy(dc2, dc, sizeof dc); memcpy(dw2, dw, sizeof dw); memcpy(dv2, dv, sizeof dv); memcpy(d8b, d8, sizeof d8); memcpy(d16b, d16, sizeof d16); memcpy(d32b, d32, sizeof d32); }
static int same(void) { return !memcmp(dc2, dc, sizeof dc) && !memcmp(dw2, dw, sizeof dw) && !memcmp(dv2, dv, sizeof dv) && !memcmp(d8b, d8, sizeof d8) && !memcmp(d16b, d16, sizeof d16) && !memcmp(d32b, d32, sizeof d32); }
'''

DESTV = {"char": "dc", "wchar_t": "dw", "void": "dv", "uint8_t": "d8", "uint16_t": "d16", "uint32_t": "d32"}
SRCV = {"char": "sc", "wchar_t": "sw", "void": "sv", "uint8_t": "s8", "uint16_t": "s16", "uint32_t": "s32"}


def value(kind, ct, pname, idx, first_ptr_seen):
    if kind == "dest": return DESTV[ct]
    if kind == "src": return (DESTV[ct] if idx == 0 else SRCV[ct])          # a const first operand (comparison functions) is the string "ab"
    if kind == "size":
        if idx <= 1 or "dmax" in pname: return "(rsize_t)16"
        return "(rsize_t)2"
    if kind == "int": return "97"
    if kind == "tm": return "&tmv"
    if kind == "tt": return "&ttv"
    if kind == "mbs": return f"&mb{idx}"
    if kind == "srcpp": return f"&sp{idx}"
    if kind == "flag": return "0"
    if kind == "out": return f"&o{idx}"
    if kind == "outp": return f"&op{idx}"
    return "0"


def retexpr(rt, call):
    rt = rt.replace("EXTERN", "").strip()
    if rt == "void": return f"(({call}), 0L)"
    if "*" in rt: return f"(long)(intptr_t)({call})"
    return f"(long)({call})"


def emit_c(items, plain):
    L = [PRE, "int main(void) {", "    setvbuf(stdout, NULL, _IOLBF, 0); set_str_constraint_handler_s(hnd); set_mem_constraint_handler_s(hnd);"]
    for name, chk, rt, kinds, nbos in items:
        decl = []; args = []
        for i, (k, ct, pn) in enumerate(kinds):
            if k == "out": decl.append(f"{ct} o{i} = ({ct})16;")
            if k == "outp": decl.append(f"{ct} *op{i} = 0;")
            if k == "mbs": decl.append(f"mbstate_t mb{i}; memset(&mb{i}, 0, sizeof mb{i});")
            if k == "srcpp": decl.append(f"const {ct} *sp{i} = {SRCV[ct]};")
            args.append(f"(ev[{i}]++, {value(k, ct, pn, i, False)})")
        L.append(f"    {{ /* {name} */ {' '.join(decl)} fill(); RESET(); long r_ = {retexpr(rt, name + '(' + ', '.join(args) + ')')}; (void)r_; COUNTS(\"{name}\", {len(kinds)}); }}")
        # once more with the pointer operands passed plainly, so that the compiler knows the sizes of the objects (the expansion may depend on that)
        if any(k in ("dest", "src") for k, _, _ in kinds) and any(k in ("size", "int") for k, _, _ in kinds):
            args2 = [value(k, ct, pn, i, False) if k in ("dest", "src") else f"(ev[{i}]++, {value(k, ct, pn, i, False)})" for i, (k, ct, pn) in enumerate(kinds)]
            fix = " ".join(f"ev[{i}] = 1;" for i, (k, _, _) in enumerate(kinds) if k in ("dest", "src"))
            L.append(f"    {{ /* {name}, object sizes known */ {' '.join(decl)} fill(); RESET(); {fix} long r_ = {retexpr(rt, name + '(' + ', '.join(args2) + ')')}; (void)r_; COUNTS(\"{name}\", {len(kinds)}); }}")
    for name, wide in (("sprintf_s", 0), ("snprintf_s", 0), ("swprintf_s", 1), ("snwprintf_s", 1)):      # the variadic macros: dest, dmax, format and one argument
        L.append(f"    {{ /* {name} */ fill(); RESET(); long r_ = (long)({name}((ev[0]++, {'dw' if wide else 'dc'}), (ev[1]++, (rsize_t)16), (ev[2]++, {'L' if wide else ''}\"n=%d\"), (ev[3]++, 7))); (void)r_; COUNTS(\"{name}\", 4); }}")
        L.append(f"    {{ /* {name}, object sizes known */ fill(); RESET(); ev[0] = 1; long r_ = (long)({name}({'dw' if wide else 'dc'}, (ev[1]++, (rsize_t)16), (ev[2]++, {'L' if wide else ''}\"n=%d\"), (ev[3]++, 7))); (void)r_; COUNTS(\"{name}\", 4); }}")
    for name, rt, kinds in plain:
        args = [f"(ev[{i}]++, 97)" for i in range(len(kinds))]
        L.append(f"    {{ /* {name} */ RESET(); long r_ = (long)({name}({', '.join(args)})); (void)r_; COUNTS(\"{name}\", {len(kinds)}); }}")
    # (B) constant operands for the string family: dest array / literal operands
    LITS = ['""', '"a"', '"ab"', '"abc"']; WLITS = ['L""', 'L"a"', 'L"ab"', 'L"abc"']
    for name, chk, rt, kinds, nbos in items:
        ks = [k for k, _, _ in kinds]; cts = [c for _, c, _ in kinds]
        if chk is None: continue
        if len(ks) < 3 or cts[0] not in ("char", "wchar_t") or ks[1] != "size" or ks[2] != "src" or cts[2] != cts[0]: continue
        if name in ("strtok_s", "wcstok_s"): continue
        wide = cts[0] == "wchar_t"; lits = WLITS if wide else LITS; dvar = "dw" if wide else "dc"
        rest = kinds[3:]
        if any(k not in ("size", "out", "outp", "int") for k, _, _ in rest): continue
        decl = []; rargs = []; cmp_out = []
        for j, (k, ct, pn) in enumerate(rest):
            i = j + 3
            if k == "out": decl.append(f"{ct} o{i} = ({ct})16, q{i} = ({ct})16;"); rargs.append((f"&o{i}", f"&q{i}")); cmp_out.append(f"o{i} == q{i}")
            elif k == "outp": decl.append(f"{ct} *op{i} = 0, *qp{i} = 0;"); rargs.append((f"&op{i}", f"&qp{i}")); cmp_out.append(f"((op{i} == 0) == (qp{i} == 0)) && (op{i} == 0 || op{i} - {dvar} == qp{i} - {dvar})")
            elif k == "size": rargs.append(("2", "2"))
            else: rargs.append(("97", "97"))
        mparams, cargs = nbos
        def direct(vals):        # vals: macro parameter -> value text
            out = []
            for a in cargs:
                a = a.strip()
                if a in vals: out.append(vals[a]); continue
                # an object-size expression of the expansion: the same expression over the same operands (without the opaque zero)
                out.append(re.sub(r"\b(" + "|".join(map(re.escape, vals)) + r")\b", lambda m: vals[m.group(1)].replace(" + V0", ""), a))
            return ", ".join(out)
        if ks[0] == "dest":
            for li, lit in enumerate(lits):
                a1 = ", ".join([dvar, "16", lit] + [a for a, _ in rargs]); a2 = direct(dict(zip(mparams, [dvar, "16 + V0", lit] + [b for _, b in rargs])))
                L.append(f"    {{ /* {name} constant operands */ {' '.join(decl)} fill(); long r1 = {retexpr(rt, name + '(' + a1 + ')')}; keep(); fill(); __typeof__(&{chk}) volatile fp = &{chk}; long r2 = {retexpr(rt, '(*fp)(' + a2 + ')')}; "
                         f"if ({'(r1 - (long)(intptr_t)' + dvar + ' != r2 - (long)(intptr_t)' + dvar + ')' if '*' in rt else 'r1 != r2'} || !same(){''.join(' || !(' + c + ')' for c in cmp_out)}) printf(\"DIFF {name} dest-array,src-literal-{li}\\n\"); printf(\"B {name}\\n\"); }}")
        else:       # const first operand: literal against literal, dmax = strlen and strlen + 1
            for di, dl in enumerate(lits[1:]):
                for li, lit in enumerate(lits):
                    for extra in (0, 1):
                        dm = str(di + 1 + extra)
                        a1 = ", ".join([dl, dm, lit] + [a for a, _ in rargs]); a2 = direct(dict(zip(mparams, [dl, dm + " + V0", lit] + [b for _, b in rargs])))
                        L.append(f"    {{ /* {name} literal operands */ {' '.join(decl)} long r1 = {retexpr(rt, name + '(' + a1 + ')')}; __typeof__(&{chk}) volatile fp = &{chk}; long r2 = {retexpr(rt, '(*fp)(' + a2 + ')')}; "
                                 f"if (r1 != r2{''.join(' || !(' + c.replace(' - ' + dvar, ' - (' + ('const wchar_t *' if wide else 'const char *') + ')' + dl) + ')' for c in cmp_out if 'op' not in c)}) printf(\"DIFF {name} literal-{di + 1},dmax+{extra},src-literal-{li}\\n\"); printf(\"B {name}\\n\"); }}")
    L += ['    printf("DONE\\n"); return 0;', "}"]
    return "\n".join(L) + "\n"


def build_and_run(cc, opt):
    os.makedirs(OUT, exist_ok=True)
    items, plain, skipped = gen()
    src = os.path.join(OUT, f"hdrclient-{cc}-{opt}.c"); open(src, "w").write(emit_c(items, plain))      # one source per configuration: the tasks run side by side
    lib = vbuild.build("prod"); libd = os.path.dirname(lib)
    exe = os.path.join(OUT, f"hc-{cc}-{opt}")
    cmd = [cc, "-" + opt, "-w", "-I" + os.path.join(vbuild.REPO, "include"), "-I" + vbuild.REPO, src, "-o", exe, "-L" + libd, "-lsafec", "-Wl,-rpath," + libd]
    if os.path.exists(exe): os.unlink(exe)
    r = subprocess.run(cmd, capture_output=True, text=True)
    if r.returncode != 0: return None, "compile failed: " + "\n".join([l for l in r.stderr.splitlines() if "error" in l][:3])[-600:], (items, plain, skipped)
    r = subprocess.run([exe], capture_output=True, text=True, errors="replace", timeout=120, stdin=subprocess.DEVNULL)
    if r.returncode != 0 or "DONE" not in r.stdout: return None, f"client exit {r.returncode}: {r.stdout[-200:]} {r.stderr[-200:]}", (items, plain, skipped)
    return r.stdout, None, (items, plain, skipped)


def judge(out, cfg):
    viol = []; n = 0
    for ln in out.splitlines():
        t = ln.split()
        if not t: continue
        if t[0] in ("A", "B"): n += 1
        elif t[0] == "COUNT": viol.append((f"C05|{t[1]}|public-macro:argument-{t[2]}-evaluated-{t[3]}-times|{cfg}", f"hdrclient {cfg} {t[1]} count {t[2]}"))
        elif t[0] == "DIFF": viol.append((f"C05|{t[1]}|public-macro:outcome-differs-from-the-function-for-constant-operands|{t[2]}|{cfg}", f"hdrclient {cfg} {t[1]} diff {t[2]}"))
    return n, viol


def task(cc, opt):
    cfg = f"{cc}-{opt}"
    out, err, (items, plain, skipped) = build_and_run(cc, opt)
    if out is None: return types.SimpleNamespace(returncode=0, stdout=json.dumps({"t": "internal", "msg": f"hdrclient {cfg}: {err}"}) + "\n", stderr="")
    n, viol = judge(out, cfg)
    seen = set(); lines = []
    for s, c in viol:
        if s in seen: continue
        seen.add(s); lines.append(json.dumps({"t": "viol", "sig": s, "n": 1, "case": c}))
    lines.append(json.dumps({"t": "stat", "evaluations": n, "nontrivial": n, "macros": len(items), "plain_functions": len(plain), "skipped": skipped}))
    return types.SimpleNamespace(returncode=0, stdout="\n".join(lines) + "\n", stderr="")


def replay(case, quiet=False):
    _, cfg, fn, what, arg = case.split()
    cc, opt = cfg.split("-")
    out, err, _ = build_and_run(cc, opt)
    if out is None: print("INTERNAL-ERROR:", err); return 2
    n, viol = judge(out, cfg)
    hit = [v for v in viol if v[1] == case]
    if not quiet:
        for ln in out.splitlines():
            if ln.startswith(("COUNT " + fn + " ", "DIFF " + fn + " ")): print(f"{cfg}: {ln}")
        print("VERDICT violation " + hit[0][0] if hit else "VERDICT ok")
    return 1 if hit else 0


if __name__ == "__main__":
    import sys
    items, plain, skipped = gen()
    print(len(items), "macros,", len(plain), "plain functions, skipped:", skipped)
    for cc in ("gcc", "clang"):
        for opt in ("O0", "O2"):
            out, err, _ = build_and_run(cc, opt)
            if out is None: print(cc, opt, "ERROR", err); continue
            n, viol = judge(out, f"{cc}-{opt}")
            print(cc, opt, n, "checks", len(viol), "violations"); [print("  ", v[0]) for v in viol[:20]]
