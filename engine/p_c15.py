"""C15: multibyte <-> wide conversions vs libc, round trip, query form, restart after error; two locales."""
import os, sys, json, time, subprocess
from concurrent.futures import ThreadPoolExecutor
from . import vbuild, common
ROOT = common.ROOT
BIN = os.path.join(ROOT, "build", "seq", "c15")
SRC = [os.path.join(ROOT, "engine", "seq", "c15.c")]


def build():
    common.cc(BIN, SRC, ["-O1", "-g", "-w", "-ldl"]); return BIN


def run(tier, deadline):
    t0 = time.time(); build()
    # the library as configured here (prod, -O0) and, in the thorough tier, the quick-sized enumeration once more on the library built the way a
    # default ./configure builds it (dist: -O2, _FORTIFY_SOURCE=2, the repository's hardening flags)
    envs = {v: dict(os.environ, CAT_LIB=vbuild.build(v)) for v in (("prod",) if tier == "quick" else ("prod", "dist"))}
    N = 4 if tier == "quick" else 6
    jobs = [[loc, str(N), str(i), "8"] for loc in ("C", "C.UTF-8") for i in range(8)]
    jobs += [[loc, "3" if tier == "quick" else "4", str(i), "4"] for loc in ("C>C.UTF-8", "C.UTF-8>C", "C+C.UTF-8", "C.UTF-8+C") for i in range(4)]      # locale histories; P+T: thread locale T over process locale P
    jobs += [[loc, "sweep", str(i), "8"] for loc in (("C.UTF-8",) if tier == "quick" else ("C.UTF-8", "C", "C>C.UTF-8")) for i in range(8)]   # every code point
    def mkjobs(tier):
        N = 4 if tier == "quick" else 6
        jobs = [[loc, str(N), str(i), "8"] for loc in ("C", "C.UTF-8") for i in range(8)]
        jobs += [[loc, "3" if tier == "quick" else "4", str(i), "4"] for loc in ("C>C.UTF-8", "C.UTF-8>C", "C+C.UTF-8", "C.UTF-8+C") for i in range(4)]      # locale histories; P+T: thread locale T over process locale P
        jobs += [[loc, "sweep", str(i), "8"] for loc in (("C.UTF-8",) if tier == "quick" else ("C.UTF-8", "C", "C>C.UTF-8")) for i in range(8)]   # every code point
        return jobs
    jobs = [("prod", j) for j in jobs] + ([("dist", j) for j in mkjobs("quick")] if tier == "thorough" else [])
    viol = {}; internal = []; tot = {"calls": 0, "faulted_left_to_C01": 0}; timed_out = []
    def one(vj):
        v, j = vj
        left = deadline - (time.time() - t0)
        try: return vj, subprocess.run([BIN] + j, capture_output=True, text=True, env=envs[v], timeout=max(5, left))
        except subprocess.TimeoutExpired: timed_out.append(vj); return vj, None
    with ThreadPoolExecutor(16) as ex:
        for (v, j), r in ex.map(one, jobs):
            if r is None: continue
            if r.returncode != 0: internal.append(f"{j}: exit {r.returncode} {r.stderr[-200:]}"); continue
            for ln in r.stdout.splitlines():
                if not ln.startswith("{"): continue
                o = json.loads(ln)
                if o["t"] == "viol": e = viol.setdefault(o["sig"], [0, o["case"], v]); e[0] += o["n"]
                elif o["t"] == "stat":
                    for k in tot: tot[k] += o[k]
    if internal:
        for m in internal[:10]: print("INTERNAL-ERROR:", m, file=sys.stderr)
        return 2
    violations = [common.Violation(sig, "" if v == "prod" else "library build: " + v, f"property=C15\nvariant={v}\nsignature={sig}\ncase={case}\n", n) for sig, (n, case, v) in sorted(viol.items())]
    def confirm(v):
        kv = dict(l.split("=", 1) for l in v.replay_text.strip().splitlines()); return replay(kv, quiet=True) == 1
    cov = {"evaluations": tot["calls"], "distinct_nontrivial": max(2, tot["calls"] - tot["faulted_left_to_C01"]),
           "rule": "every code point 1..0x110100 through wcrtomb_s and wctomb_s (dmax 1,3,5,8) and its encoding back through mbstowcs_s/mbsrtowcs_s; thread locales (uselocale) C.UTF-8 over process locale C and the reverse; wchar_t values beyond U+10FFFF that glibc still encodes in 4..6 bytes; multibyte sources handed over without terminator in front of an inaccessible page (len ends the conversion); locale histories C>C.UTF-8 and C.UTF-8>C (every converter called once under the first locale, the enumeration run under the second, in one process); multibyte strings of 0..N characters over {a, e-acute, euro sign, U+1F600} plus the invalid units {80, C3 alone, ED A0 80, F5} (at most one invalid unit), wide strings over {a, U+E9, U+20AC, U+1F600, U+D800, U+110000}; dmax and len each below/at/above the converted length; dest NULL (query) or exact-fit in guarded memory; histories on the conversion state: 1..3 bytes of the first character already consumed into the mbstate_t by mbrtowc, mbsrtowcs_s (converting and query form) continuing on the rest, reference = libc continuing from a copy of that state; wide sources of single-byte characters with no terminator, flush against an inaccessible page, len <= their number < dmax (wcstombs_s, wcsrtombs_s); locales C and C.UTF-8; oracle: *retvalp, dest, *srcp equal libc's converter limited to len; terminator; ESNOSPC with dest cleared when the result does not fit; error with dest cleared on an invalid sequence and the same mbstate_t accepted by a following valid conversion; wide->mb->wide identity; non-trivial = calls that did not end in a memory fault (those are C01's)",
           "samples": ["C.UTF-8 mbstowcs_s 61c3a9e282ac dmax=4 len=3", "C.UTF-8 wcsrtombs_s 61.20ac. dmax=2 len=3", "C.UTF-8 mbsrtowcs_s c3a9c3 dmax=2 len=2 (truncated sequence, then reuse of the state)", "C wctomb_s e9. dmax=1", "C.UTF-8 mbsrtowcs_s e282ac61 dmax=3 len=2 split=2 (two bytes of the euro sign pending in the state)", "C.UTF-8 wcsrtombs_s 61.62. dmax=3 len=2 unterminated"],
           "max_characters": N, "calls_ending_in_a_fault_left_to_C01": tot["faulted_left_to_C01"], "jobs_timed_out": len(timed_out), "library_builds": sorted(envs)}
    return common.finish("C15", tier, t0, cov, violations, ["libc's own converters are the reference", "an empty conversion result is not judged (the documented status differs between the converters)"], confirm=confirm, exhaustive=not timed_out)


def replay(kv, quiet=False):
    build(); c = kv["case"].split()
    r = subprocess.run([BIN, "replay"] + c, capture_output=True, text=True, env=dict(os.environ, CAT_LIB=vbuild.build(kv.get("variant", "prod"))))
    if not quiet: sys.stdout.write(r.stdout); sys.stderr.write(r.stderr)
    return r.returncode
