"""C17: normalization (NFD/NFC) and case folding against an independent Unicode implementation (Python unicodedata),
enumerated: every assigned code point, every composing pair, every Hangul syllable, blocked/unblocked sequences,
every sequence of combining marks over a class-covering alphabet up to a length bound; iswfc vs towfc_s for every
code point; out-of-range values."""
import os, sys, json, time, subprocess, itertools, unicodedata as U
from concurrent.futures import ThreadPoolExecutor
from . import vbuild, common, crosspass
ROOT = common.ROOT
BIN = os.path.join(ROOT, "build", "seq", "c17")
SRC = [os.path.join(ROOT, "engine", "seq", "c17.c")]
GEN = os.path.join(ROOT, "build", "c17")


def build():
    common.cc(BIN, SRC, ["-O1", "-g", "-w", "-ldl"]); return BIN


def hx(s):
    return ",".join("%X" % ord(c) for c in s) if s else "-"


def assigned(c):
    return U.category(chr(c)) not in ("Cn", "Cs")


MARKS = [0x0334, 0x093C, 0x05B0, 0x0327, 0x031B, 0x0323, 0x0301, 0x0308, 0x0345]   # ccc 1 7 10 202 216 220 230 230 240
STARTERS = [0x61, 0xE9, 0x3B1, 0x1100]


def gen(tier):
    """write the vector file and the fold file for this tier (cached on the tier and this script's mtime)"""
    os.makedirs(GEN, exist_ok=True)
    vf = os.path.join(GEN, f"vectors-{tier}.txt"); ff = os.path.join(GEN, "fold.txt")
    stamp = os.path.getmtime(__file__)
    if all(os.path.exists(p) and os.path.getmtime(p) > stamp for p in (vf, ff)):
        return vf, ff
    out = []
    def add(group, s):
        out.append(f"{group} {hx(s)} {hx(U.normalize('NFD', s))} {hx(U.normalize('NFC', s))}\n")
    # 1. every assigned code point on its own
    for c in range(1, 0x110000):
        if assigned(c): add("single", chr(c))
    # 2. every canonical decomposition, one level and full, recomposed
    pairs = []
    for c in range(0x110000):
        d = U.decomposition(chr(c))
        if d and not d.startswith("<"):
            s = "".join(chr(int(x, 16)) for x in d.split())
            add("decomposition", s)
            full = U.normalize("NFD", chr(c))
            if full != s: add("full-decomposition", full)
            if len(s) == 2: pairs.append((s[0], s[1], chr(c)))
    # 3. Hangul: every L V, every L V T, every LV T
    for l in range(0x1100, 0x1113):
        for v in range(0x1161, 0x1176):
            add("hangul-LV", chr(l) + chr(v))
            lv = U.normalize("NFC", chr(l) + chr(v))
            for t in range(0x11A8, 0x11C3):
                add("hangul-LVT", chr(l) + chr(v) + chr(t)); add("hangul-LV+T", lv + chr(t))
    add("hangul-edge", "\uae30\u11a7"); add("hangul-edge", "\u1112\u1176"); add("hangul-edge", "\u1113\u1161"); add("hangul-edge", "\uac01\u11a8"); add("hangul-edge", "\u1100\u1160"); add("hangul-edge", "\uac00\u11c3")
    # 4. blocking: a mark between (or after) the two halves of every composing pair
    blockers = [0x0334, 0x0327, 0x0323, 0x0301, 0x0345, 0x05B0]
    for a, b, _ in pairs:
        for m in blockers:
            add("pair-mark-between", a + chr(m) + b); add("pair-mark-after", a + b + chr(m)); add("pair-mark-before", chr(m) + a + b)
        add("pair-twice", a + b + b); add("pair-starter-between", a + "x" + b)
    for l, v, t in ((0x1100, 0x1161, 0x11A8), (0x1112, 0x1175, 0x11C2)):
        lv = U.normalize("NFC", chr(l) + chr(v))
        for m in blockers:
            add("hangul-mark-between", chr(l) + chr(m) + chr(v)); add("hangul-mark-between", lv + chr(m) + chr(t)); add("hangul-mark-between", chr(l) + chr(v) + chr(m) + chr(t))
    # 5. every sequence of marks over the class-covering alphabet after each starter
    maxlen = 3 if tier == "quick" else 6
    for st in STARTERS:
        for n in range(1, maxlen + 1):
            for seq in itertools.product(MARKS, repeat=n):
                add("marks-%d" % n, chr(st) + "".join(map(chr, seq)))
    # 5b. every string over {starter, three marks of different classes} up to the length bound: several clusters, leading marks
    mixed = 6 if tier == "quick" else 10
    for n in range(1, mixed + 1):
        for seq in itertools.product("a\u0301\u0323\u0327", repeat=n):
            add("mixed-%d" % n, "".join(seq))
    # 6. every combining mark after a starter and between two starters (all 55 classes, every mark)
    for c in range(0x110000):
        if U.combining(chr(c)):
            add("every-mark", "a" + chr(c) + "\u0301"); add("every-mark", "\u1ea1" + chr(c))
            if tier != "quick": add("every-mark", "\u1100" + chr(c) + "\u1161"); add("every-mark", "\u00e9" + chr(c) + "\u0327")
    # 6b. two runs of marks in one string, the first long enough to move the collection buffer to the heap, the second to grow it again
    for n1 in (9, 10, 11, 12, 13):
        for n2 in (14, 15, 16, 17, 20, 27):
            r1 = "".join(chr(MARKS[i % len(MARKS)]) for i in range(n1)); r2 = "".join(chr(MARKS[(i * 3 + 1) % len(MARKS)]) for i in range(n2))
            add("two-mark-runs", "x" + r1 + "y" + r2); add("two-mark-runs", "\u1100" + r2 + "z" + r1 + "w" + r2)
    # 6c. the second half of every composing pair moved to another plane (same low 16 bits): must not compose
    for a, b, _ in pairs:
        for k in range(1, 17):
            c2 = ord(b) + k * 0x10000
            if c2 < 0x110000 and assigned(c2): add("pair-second-in-other-plane", a + chr(c2))
    # 7. long inputs: beyond the 128-element stack scratch of wcsnorm_s and with long mark runs
    for n in (1, 30, 31, 32, 33, 62, 63, 64, 124, 125, 126, 127, 128, 129, 130, 200, 450):     # RSIZE_MAX_WSTR is 1024
        add("long", "\u00e9" * n); add("long", "e\u0301" * n); add("long", "a" + "\u0301\u0323" * n); add("long", "\uac01" * min(n, 300))
    with open(vf, "w") as f: f.writelines(out)
    # fold file: assigned ranges + expected NFD(casefold) where it differs from the character
    with open(ff, "w") as f:
        lo = None
        for c in range(0x110001):
            a = c < 0x110000 and assigned(c)
            if a and lo is None: lo = c
            if not a and lo is not None: f.write("= %X %X\n" % (lo, c - 1)); lo = None
        for c in range(1, 0x110000):
            if not assigned(c): continue
            e = U.normalize("NFD", chr(c).casefold())
            if e != chr(c): f.write("%X %s\n" % (c, hx(e)))
    return vf, ff


def run(tier, deadline):
    t0 = time.time(); build(); vf, ff = gen(tier)
    # thorough tier: the quick vector set once more on the library built the way a default ./configure builds it (dist: -O2, _FORTIFY_SOURCE=2)
    envs = {v: dict(os.environ, CAT_LIB=vbuild.build(v)) for v in (("prod",) if tier == "quick" else ("prod", "dist"))}
    NS = 16
    jobs = [("prod", tier, j) for j in [["norm", vf, str(i), str(NS)] for i in range(NS)] + [["fold", ff, str(i), str(NS)] for i in range(NS)] + [["range"]]]
    jobs += [("prod", tier, ["sortstab"])]      # long mark runs with the C library's internal allocations refused
    # a process that never calls setlocale is in the "C" locale whatever its environment says: folding must not depend on LANG / LC_*
    for xe in ({"LANG": "tr_TR.UTF-8"}, {"LC_ALL": "lt_LT.UTF-8"}, {"LC_CTYPE": "az_AZ"}):
        jobs += [("prod", tier, ["fold", ff, str(i), "4"], dict(xe, C17_NOLOCALE="1")) for i in range(4)]
    if tier == "thorough":
        vfq, ffq = gen("quick")
        jobs += [("dist", "quick", j) for j in [["norm", vfq, str(i), str(NS)] for i in range(NS)] + [["fold", ffq, str(i), str(NS)] for i in range(NS)] + [["range"]]]
    viol = {}; internal = []; tot = {"vectors": 0, "calls": 0}; timed_out = []
    def one(vj):
        v, vt, j = vj[:3]; xenv = vj[3] if len(vj) > 3 else {}
        left = deadline - (time.time() - t0)
        try: return vj, subprocess.run([BIN] + j, capture_output=True, text=True, errors="replace", env=dict(envs[v], **xenv), timeout=max(5, left))
        except subprocess.TimeoutExpired: timed_out.append(vj); return vj, None
    with ThreadPoolExecutor(16) as ex:
        for vj, r in ex.map(one, jobs):
            v, vt, j = vj[:3]; xenv = vj[3] if len(vj) > 3 else {}
            if r is None: continue
            if r.returncode != 0: internal.append(f"{j}: exit {r.returncode} {r.stderr[-200:]}"); continue
            for ln in r.stdout.splitlines():
                if not ln.startswith("{"): continue
                o = json.loads(ln)
                if o["t"] == "viol": e = viol.setdefault(o["sig"], [0, o["case"], v, vt, xenv]); e[0] += o["n"]
                elif o["t"] == "stat":
                    for k in tot: tot[k] += o[k]
    # borrowed pass: the fold / normalize entry points as a client of the public headers sees them (every argument evaluated once)
    xv, xn, xi = crosspass.hdr("C17", lambda n: n in ("iswfc", "towfc_s", "wcsfc_s", "wcsnorm_s", "wcsnorm_decompose_s", "wcsnorm_reorder_s", "wcsnorm_compose_s", "towupper", "towlower"), tier); internal += xi
    for sig, case, n in xv: e = viol.setdefault(sig, [0, case, "prod", tier, {}]); e[0] += n
    if internal:
        for m in internal[:10]: print("INTERNAL-ERROR:", m, file=sys.stderr)
        return 2
    violations = [common.Violation(sig, "" if v == "prod" else "library build: " + v, f"property=C17\nvariant={v}\nsignature={sig}\ntier={vt}\nenv={json.dumps(xe)}\ncase={case}\n", n) for sig, (n, case, v, vt, xe) in sorted(viol.items())]
    def confirm(v):
        kv = dict(l.split("=", 1) for l in v.replay_text.strip().splitlines()); return replay(kv, quiet=True) == 1
    nvec = sum(1 for _ in open(vf))
    if tier != "quick" and os.path.getsize(vf) > 50e6:
        os.unlink(vf)        # several hundred MB; regenerated on demand (replay does so)
    cov = {"evaluations": tot["calls"], "distinct_nontrivial": nvec + 0x110000,
           "rule": f"reference = Python unicodedata (UCD {U.unidata_version}); normalization vectors: every assigned code point alone; every canonical decomposition (one level and full) to be recomposed; every Hangul L V, L V T and LV T; every composing pair with a mark of 6 classes between, after and before its halves, doubled, and with a starter between; every sequence of up to {3 if tier == 'quick' else 6} marks over an alphabet covering classes 1 7 10 202 216 220 230 230 240 after 4 starters; every string of up to {6 if tier == 'quick' else 10} elements over {{a, U+0301, U+0323, U+0327}}; every combining mark of the UCD in two (thorough: four) contexts; two runs of 9..13 and 14..27 marks in one string; the second half of every composing pair replaced by the assigned code points with the same low 16 bits in other planes; inputs of 1..600 clusters around the 128-element scratch size. Each vector runs in NFD and NFC mode with dmax = needed, needed+16, needed-1 and (longer inputs) more than twice the result in a canaried destination, in a forked child so that a call that corrupts the harness is attributed; oracle: result equals the reference form, *lenp equals its length, terminator inside dmax, nothing stale behind the terminator, a second normalization of the result is the identity, a too small dmax fails with dest cleared, nothing written beyond dmax. Folding: for every code point 0..10FFFF the number of characters towfc_s stores equals max(1, iswfc) and its positive return value; wcsfc_s of every assigned one-character string equals NFD(full case folding). Values above 10FFFF and surrogates, alone and embedded in four shapes, through wcsnorm_s, wcsfc_s, iswfc, towfc_s: no fault, values above 10FFFF rejected.",
           "samples": ["single 1E0A -> NFD 44,307 / NFC 1E0A", "pair-mark-between 1100,0301,1161 (must stay uncomposed)", "marks-3 61,0345,0323,0334", "hangul-LV+T AC00,11A8", "fold 1FC6: iswfc vs towfc_s", "range 110000 inside a,<cp>,0301"],
           "normalization_vectors": nvec, "jobs_timed_out": len(timed_out), "library_builds": sorted(envs)}
    return common.finish("C17", tier, t0, cov, violations,
                         [f"Python's unicodedata (Unicode {U.unidata_version}) is the reference; code points it does not know are not judged (the library's tables are Unicode 15; normalization stability makes the comparison sound for every code point assigned in {U.unidata_version})",
                          "the documented minimum dmax of 5 and the fact that NFC is built from the decomposition in dest define 'needed' as max(5, NFD length + 1)", "wchar_t is 32 bits on this platform"],
                         confirm=confirm, exhaustive=not timed_out)


def replay(kv, quiet=False):
    if crosspass.is_cross(kv["case"]): return crosspass.replay(kv, quiet)
    build(); tier = kv.get("tier", "quick"); vf, ff = gen(tier); c = kv["case"].split()
    if c[0] == "normfile":
        ln = int(c[2]); line = None
        for i, l in enumerate(open(vf)):
            if i == ln: line = l.split(); break
        c = ["norm"] + line
    if c[0] == "fold": c[1] = ff
    r = subprocess.run([BIN, "replay"] + c, capture_output=True, text=True, errors="replace", env=dict(os.environ, CAT_LIB=vbuild.build(kv.get("variant", "prod")), **json.loads(kv.get("env", "{}"))))
    if not quiet: sys.stdout.write(r.stdout); sys.stderr.write(r.stderr)
    if r.returncode not in (0, 1) and "harness-killed" in kv.get("signature", ""):
        if not quiet: print(f"VERDICT violation: the replaying process itself was killed by the call (exit status {r.returncode})")
        return 1
    return r.returncode
